#!/opt/veriftools/pyvenv/bin/python
"""Validate MANIFEST.json and every evidence file against the schemas."""
import glob, json, sys, os
import jsonschema
H = os.path.dirname(os.path.dirname(os.path.abspath(__file__)))
ok = True
try:
    jsonschema.validate(json.load(open(H + '/MANIFEST.json')), json.load(open('/root/.vp/MANIFEST.schema.json')))
except Exception as e:
    ok = False; print('MANIFEST invalid:', str(e)[:300])
es = json.load(open('/root/.vp/EVIDENCE.schema.json'))
for f in sorted(glob.glob(H + '/evidence/*.json')):
    try:
        jsonschema.validate(json.load(open(f)), es)
    except Exception as e:
        ok = False; print(f, 'invalid:', str(e)[:300])
print('all valid' if ok else 'INVALID')
sys.exit(0 if ok else 1)
