#!/bin/bash
# Run the repository's pinned suite (guard off) and compare with BASELINE.json's stable_pass list.
cd /repo && env -u CYTHON_CYTHON_VERIF /venv/bin/python -m pytest -ra -q -p no:cacheprovider --timeout=900 --continue-on-collection-errors --junitxml=/tmp/verif_baseline.xml > /tmp/verif_baseline.log 2>&1
/venv/bin/python - <<'PY'
import json, xml.etree.ElementTree as ET
base = set(json.load(open('/root/.vp/BASELINE.json'))['stable_pass'])
t = ET.parse('/tmp/verif_baseline.xml')
passed = set()
for tc in t.iter('testcase'):
    if not any(c.tag in ('failure', 'error', 'skipped') for c in tc):
        passed.add('%s::%s' % (tc.get('classname'), tc.get('name')))
missing = sorted(base - passed)
print('stable baseline tests: %d, passing now: %d, missing: %d' % (len(base), len(base & passed), len(missing)))
for m in missing[:20]:
    print('  MISSING', m)
raise SystemExit(1 if missing else 0)
PY
