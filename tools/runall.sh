#!/bin/bash
# usage: runall.sh <tier> <seed> <ids...>   -> runs the checks two at a time, prints one summary line per check
TIER=$1; SEED=$2; shift 2
mkdir -p /tmp/verif_runall
run() { p=$1; VERIF_SEED=$SEED VERIF_NCPU=8 ./check $p --tier $TIER > /tmp/verif_runall/$p.$TIER.$SEED.log 2>&1; echo "$p rc=$? $(grep -c '^VIOLATION' /tmp/verif_runall/$p.$TIER.$SEED.log) viol $(grep -c '^KNOWN-FINDING' /tmp/verif_runall/$p.$TIER.$SEED.log) known | $(tail -1 /tmp/verif_runall/$p.$TIER.$SEED.log | cut -c1-140)"; }
cd /verif
export -f run; export TIER SEED
printf '%s\n' "$@" | xargs -P 2 -I{} bash -c 'run {}'
