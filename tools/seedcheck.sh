#!/bin/bash
# usage: seedcheck.sh <property id> <worktree with change applied> <agent out dir for the property> [tier]
# Confirms a seeded change (demo fails with / passes without, pinned suite still passes) and runs the check against it.
PID=$1; WT=$2; OUT=$3; TIER=${4:-quick}
DEST=/verif/seeded/$PID
mkdir -p $DEST
cp $OUT/patch.diff $DEST/patch.diff
cp $OUT/demo.* $DEST/ 2>/dev/null
cp $OUT/README.md $DEST/README.md 2>/dev/null
DEMO=$(ls $DEST/demo.* | head -1)
RUN="/venv/bin/python"; case $DEMO in *.sh) RUN="bash";; esac
CLEAN=/tmp/seedclean_$PID
rm -rf $CLEAN; git -C /repo worktree add --detach -q $CLEAN $(git -C $WT rev-parse HEAD)
( cd /tmp && timeout 1800 $RUN $DEMO $WT > $DEST/demo_changed.log 2>&1 ); RC_CH=$?
( cd /tmp && timeout 1800 $RUN $DEMO $CLEAN > $DEST/demo_unchanged.log 2>&1 ); RC_UN=$?
( cd $WT && PYTHONPATH=$WT timeout 3000 /venv/bin/python -m pytest -q -p no:cacheprovider --timeout=900 --continue-on-collection-errors 2>&1 | tail -1 > $DEST/suite_changed.log )
rm -f $WT/tests/run/_cython_inline_*.pyx
git -C /repo worktree remove --force $CLEAN
( cd /verif && VERIF_REPO=$WT VERIF_NCPU=8 ./check $PID --tier $TIER > $DEST/check_$TIER.log 2>&1 ); RC_CK=$?
echo "$PID demo_changed_rc=$RC_CH demo_unchanged_rc=$RC_UN suite: $(cat $DEST/suite_changed.log) check_$TIER rc=$RC_CK"
grep -c "^VIOLATION" $DEST/check_$TIER.log
