#!/opt/veriftools/pyvenv/bin/python
"""Assemble /verif/MANIFEST.json from manifest.d/*.json fragments (one per claimed property) and validate it."""
import json
import os
import sys

HERE = os.path.dirname(os.path.dirname(os.path.abspath(__file__)))
frag_dir = os.path.join(HERE, 'manifest.d')
props = [json.loads(l) for l in open(os.path.join(HERE, 'properties.jsonl')) if l.strip()]
ids = [p['id'] for p in props]
base = json.load(open(os.path.join(frag_dir, '_base.json')))
checks = []
na = {e['property_id']: e for e in base.get('not_applicable', [])}
enabled_file = os.path.join(frag_dir, '_enabled.txt')
enabled = set(open(enabled_file).read().split()) if os.path.exists(enabled_file) else None
for pid in ids:
    fp = os.path.join(frag_dir, pid + '.json')
    if os.path.exists(fp) and (enabled is None or pid in enabled):
        c = json.load(open(fp))
        c.setdefault('property_id', pid)
        c.setdefault('quick_cmd', './check %s --tier quick' % pid)
        c.setdefault('thorough_cmd', './check %s --tier thorough' % pid)
        c.setdefault('evidence_file', '/verif/evidence/%s.json' % pid)
        c.setdefault('replay_cmd_template', './check %s --replay {path}' % pid)
        checks.append(c)
        na.pop(pid, None)
    elif pid not in na:
        na[pid] = {'property_id': pid, 'reason': 'no check registered yet (work in progress); see DESIGN.md section 5 for the planned monitor'}
man = dict(base)
man['checks'] = checks
man['not_applicable'] = [na[p] for p in ids if p in na]
json.dump(man, open(os.path.join(HERE, 'MANIFEST.json'), 'w'), indent=1)
try:
    import jsonschema
    jsonschema.validate(man, json.load(open('/root/.vp/MANIFEST.schema.json')))
    print('MANIFEST.json valid: %d checks, %d not_applicable' % (len(checks), len(man['not_applicable'])))
except ImportError:
    print('jsonschema not available; wrote MANIFEST.json unvalidated')
