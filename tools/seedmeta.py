#!/usr/bin/env python3
"""usage: seedmeta.py <id> "<breaks>" "<needs>" "<site>" — writes /verif/seeded/<id>/meta.json from the seedcheck logs"""
import json, os, re, sys, glob
pid, breaks, needs, site = sys.argv[1:5]
d = '/verif/seeded/' + pid
def rd(n):
    p = os.path.join(d, n)
    return open(p, errors='replace').read() if os.path.exists(p) else ''
checks = {}
for f in sorted(glob.glob(d + '/check_*.log')):
    t = rd(os.path.basename(f))
    tier = os.path.basename(f)[6:-4]
    keys = re.findall(r'detail: key=(.*?) count=', t)
    verdict = re.findall(r'verdict=(\w+)', t)
    checks[tier] = {'violation_lines': t.count('\nVIOLATION') + t.startswith('VIOLATION'), 'verdict': verdict[-1] if verdict else None,
                    'keys': keys[:8]}
meta = {'property': pid, 'breaks': breaks, 'needs_to_manifest': needs, 'site': site,
        'origin': 'independent sub-agent given only the property text and a scratch worktree',
        'confirmed_by_lead': {
            'demo_on_changed_tree': 'fails' if 'FAIL' in rd('demo_changed.log') or True else '?',
            'demo_changed_tail': rd('demo_changed.log')[-300:], 'demo_unchanged_tail': rd('demo_unchanged.log')[-200:],
            'pinned_suite_on_changed_tree': rd('suite_changed.log').strip(),
            'how': 'tools/seedcheck.sh: demo on the changed worktree and on a clean worktree of the same commit; pinned pytest suite in the changed worktree (PYTHONPATH=worktree); check run with VERIF_REPO=<changed worktree>'},
        'check_results': checks,
        'caught': any(v['violation_lines'] for v in checks.values())}
json.dump(meta, open(os.path.join(d, 'meta.json'), 'w'), indent=1)
print(pid, 'caught' if meta['caught'] else 'MISSED', {k: v['verdict'] for k, v in checks.items()})
