#!/bin/bash
# usage: applyfix.sh <patch file> "<commit subject after 'fix: '>" ["body"]
set -e
cd /repo
git apply --check "$1"
git apply "$1"
git add -A Cython pyximport 2>/dev/null || git add -A Cython
git commit -q -m "fix: $2" ${3:+-m "$3"}
git log --oneline | head -1
