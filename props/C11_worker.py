"""C11: feed byte strings to the real StringEncoding.escape_byte_string / split_string_literal / escape_char and
Code._write_escaped_cstring_const / _write_cstring_const (interpreted, from the mirror) and check what the emitted C
text denotes with (1) gcc and clang and (2) the reference decoder vlib/ref/cliteral.py.

python -m props.C11_worker <spec.json> <out.json>
spec: {"mirror":..., "workdir":..., "jobs":[...], "compile": true|false, "seed":...}
job kinds: ["short", lo, hi]          all strings of length <= 2 whose index lies in [lo, hi)  (index 0 = b'', 1..256 one byte, ...)
           ["class3", lo, hi]         length 3 over the 18-class alphabet, index range
           ["full3", lo, hi, every]   all length-3 strings with first byte in [lo, hi); every n-th also goes to the compilers
           ["adversarial", part, nparts]
           ["random", count, long_count]
           ["big", [lengths]]
           ["chars"]
"""
import json
import os
import random
import struct
import subprocess
import sys

from vlib.ref import cliteral as CL

CLASS18 = [0x5c, 0x3f, 0x22, 0x27, 0x30, 0x37, 0x38, 0x39, 0x61, 0x66, 0x78, 0x6e, 0x00, 0x0a, 0x0d, 0x1f, 0x7f, 0xff]
TRI_BODIES = "=(/)'<!>-"


class FakeWriter:
    """what _write_cstring_const needs from a CCodeWriter"""

    def __init__(self):
        self.lines = []

    def putln(self, line='', safe=False):
        self.lines.append(line)


def hazards(b, was_split):
    h = []
    if b'??' in b:
        h.append('trigraph')
    if was_split:
        h.append('split')
    for i in range(len(b) - 1):
        if (b[i] < 32 or b[i] >= 127 or b[i] in (0x27, 0x3f)) and 0x30 <= b[i + 1] <= 0x39:
            h.append('digit-after-escape')
            break
    if b'\\' * 8 in b:
        h.append('backslash-run')
    if len(b) >= 65536:
        h.append('big')
    return h


class Run:
    def __init__(self, spec):
        self.spec = spec
        self.n = {'inputs': 0, 'decoder_checked': 0, 'compiler_checked': {'gcc': 0, 'clang': 0}, 'as_c_string_literal_checked': 0,
                  'char_literals': 0, 'msvc_arm_checked': 0, 'c_files': 0, 'compile_failures': 0,
                  'hazard': {'trigraph': 0, 'split': 0, 'digit-after-escape': 0, 'backslash-run': 0, 'big': 0},
                  'raw_del_byte_in_emitted_source': 0, 'decoder_vs_compiler_disagreements': 0, 'gcc_vs_clang_disagreements': 0, 'categories': {}, 'distinct_hazardous': 0}
        self.disc = {}
        self.oracle_dis = []
        self.samples = []
        self.pending = []       # (name, decl line, expected bytes incl. NUL, path, hazards, input repr)
        self.pending_size = 0
        self.batch = 0
        import Cython.Compiler.StringEncoding as SE
        import Cython.Compiler.Code as Code
        self.SE, self.Code = SE, Code

    # -------------------------------------------------------------- bookkeeping
    def record(self, key, b, detail):
        e = self.disc.get(key)
        wit = {'input_hex': b[:100000].hex(), 'input_len': len(b), 'detail': detail}
        if e is None:
            self.disc[key] = {'count': 1, 'len': len(b), 'witness': wit}
        else:
            e['count'] += 1
            if len(b) < e['len']:
                e['len'] = len(b)
                e['witness'] = wit

    # -------------------------------------------------------------- one input
    def emit(self, b, escaped_len=False):
        w = FakeWriter()
        if escaped_len:
            esc = self.SE.escape_byte_string(b)
            self.Code._write_cstring_const(w, esc, 'NAME', len(esc))
        else:
            self.Code._write_escaped_cstring_const(w, b, 'NAME')
        return w.lines

    def check(self, b, category, to_compilers, also_method=False):
        n = self.n
        n['inputs'] += 1
        n['categories'][category] = n['categories'].get(category, 0) + 1
        try:
            lines = self.emit(b)
        except Exception as ex:
            self.record('literal:exception:' + type(ex).__name__, b, {'error': repr(ex)[:200]})
            return
        arms = {}
        if len(lines) == 1:
            arms['literal'] = lines[0].strip()
        elif len(lines) == 5 and lines[0].strip() == '#ifdef _MSC_VER' and lines[2].strip() == '#else':
            arms['msvc-char-array'] = lines[1].strip()
            arms['literal'] = lines[3].strip()
        else:
            self.record('literal:unexpected-shape', b, {'lines': [l[:120] for l in lines]})
            return
        try:
            esc = self.SE.escape_byte_string(b)
            was_split = self.SE.split_string_literal(esc) != esc
        except Exception:
            was_split = False
        hz = hazards(b, was_split)
        if '\x7f' in arms['literal']:
            n['raw_del_byte_in_emitted_source'] += 1
        for h in hz:
            n['hazard'][h] += 1
        if hz:
            n['distinct_hazardous'] += 1
        for path, decl in arms.items():
            try:
                name, init = CL.parse_declaration(decl)
                got = CL.decode_string_initializer(init) + b'\0' if path == 'literal' else CL.decode_char_array_initializer(init)
            except CL.CDecodeError as ex:
                self.record('%s:decoder-rejects:%s' % (path, '+'.join(hz) or 'plain'), b, {'error': str(ex), 'emitted': decl[:300]})
                continue
            n['decoder_checked'] += 1
            if path == 'msvc-char-array':
                n['msvc_arm_checked'] += 1
            self.judge(path, 'decoder', b, got, decl, hz)
            if to_compilers:
                self.queue(b, decl, path, hz)
        if also_method:
            try:
                lit = self.SE.BytesLiteral(b).as_c_string_literal()
                got = CL.decode_string_initializer(lit) + b'\0'
                n['as_c_string_literal_checked'] += 1
                self.judge('as_c_string_literal', 'decoder', b, got, lit, hz)
            except CL.CDecodeError as ex:
                self.record('as_c_string_literal:decoder-rejects:%s' % ('+'.join(hz) or 'plain'), b, {'error': str(ex)})
        if len(self.samples) < 3 and hz and len(b) < 40:
            self.samples.append({'input': repr(b), 'emitted': arms['literal'], 'hazards': hz})

    def judge(self, path, oracle, b, got, emitted, hz):
        exp = b + b'\0'
        if got == exp:
            return True
        if got == b:
            how = 'no-terminating-nul'
        elif len(got) != len(exp):
            how = 'length-differs'
        else:
            how = 'bytes-differ'
        k = 0
        while k < min(len(got), len(exp)) and got[k] == exp[k]:
            k += 1
        key = '%s:%s' % (path, how) if how == 'no-terminating-nul' else '%s:%s:%s' % (path, how, '+'.join(hz) or 'plain')
        self.record(key, b,
                    {'oracle': oracle, 'first_difference_at': k, 'expected': exp[max(0, k - 8):k + 8].hex(),
                     'observed': got[max(0, k - 8):k + 8].hex(), 'observed_len': len(got), 'expected_len': len(exp),
                     'emitted_tail': emitted[-80:] if len(emitted) > 160 else emitted})
        return False

    # -------------------------------------------------------------- real compilers
    def queue(self, b, decl, path, hz):
        self.pending.append((decl, b, path, hz))
        self.pending_size += len(decl)
        if len(self.pending) >= 20000 or self.pending_size > 24_000_000:
            self.flush()

    def flush(self):
        items, self.pending, self.pending_size = self.pending, [], 0
        if items:
            self.compile_items(items, 0)

    def write_c(self, items, path):
        with open(path, 'w') as f:
            f.write('#include <stdio.h>\n')
            for i, (decl, b, p, hz) in enumerate(items):
                f.write(decl.replace(' NAME[]', ' s%d[]' % i, 1) + '\n')
            f.write('struct E { const char *p; unsigned long n; };\nstatic const struct E tab[] = {\n')
            for i in range(len(items)):
                f.write('{s%d, sizeof(s%d)},\n' % (i, i))
            f.write('};\nint main(void) { unsigned long i; for (i = 0; i < sizeof(tab)/sizeof(tab[0]); i++) {\n'
                    ' unsigned long n = tab[i].n; fwrite(&n, sizeof n, 1, stdout); fwrite(tab[i].p, 1, n, stdout); }\n return 0; }\n')

    def compile_items(self, items, depth):
        self.batch += 1
        base = os.path.join(self.spec['workdir'], 'b%s_%d' % (self.spec['tag'], self.batch))
        cfile = base + '.c'
        self.write_c(items, cfile)
        self.n['c_files'] += 1
        results = {}
        for cc, flags in (('gcc', ['-std=c11', '-trigraphs', '-pedantic', '-w', '-O0']), ('clang', ['-std=c11', '-trigraphs', '-w', '-O0'])):
            exe = base + '.' + cc
            r = subprocess.run([cc] + flags + [cfile, '-o', exe], capture_output=True, text=True, timeout=900)
            if r.returncode != 0:
                self.n['compile_failures'] += 1
                if len(items) == 1:
                    decl, b, p, hz = items[0]
                    self.record('%s:compile-error:%s' % (p, '+'.join(hz) or 'plain'), b,
                                {'compiler': cc, 'stderr': r.stderr[-400:], 'emitted_tail': decl[-120:]})
                    return
                if depth > 16 or len(self.disc) > 30:
                    self.record('harness:compile-error-not-isolated', b'', {'compiler': cc, 'stderr': r.stderr[-400:]})
                    return
                mid = len(items) // 2
                self.compile_items(items[:mid], depth + 1)
                self.compile_items(items[mid:], depth + 1)
                return
            out = subprocess.run([exe], capture_output=True, timeout=600).stdout
            res, pos = [], 0
            for _ in items:
                if pos + 8 > len(out):
                    break
                (ln,) = struct.unpack_from('<Q', out, pos)
                pos += 8
                res.append(out[pos:pos + ln])
                pos += ln
            results[cc] = res
            os.unlink(exe)
        os.unlink(cfile)
        g, c = results.get('gcc', []), results.get('clang', [])
        for i, (decl, b, p, hz) in enumerate(items):
            for cc, res in (('gcc', g), ('clang', c)):
                if i >= len(res):
                    self.record('harness:program-output-short', b, {'compiler': cc})
                    continue
                self.n['compiler_checked'][cc] += 1
                self.judge(p, cc, b, res[i], decl, hz)
            if i < len(g) and i < len(c):
                if g[i] != c[i]:
                    self.n['gcc_vs_clang_disagreements'] += 1
                    if len(self.oracle_dis) < 5:
                        self.oracle_dis.append({'what': 'gcc != clang', 'input_hex': b[:100].hex()})
                # cross-validate the decoder against the compilers
                try:
                    name, init = CL.parse_declaration(decl)
                    d = CL.decode_string_initializer(init) + b'\0' if p == 'literal' else CL.decode_char_array_initializer(init)
                except CL.CDecodeError as ex:
                    d = None
                if d != g[i]:
                    self.n['decoder_vs_compiler_disagreements'] += 1
                    if len(self.oracle_dis) < 5:
                        self.oracle_dis.append({'what': 'decoder != gcc', 'input_hex': b[:100].hex(), 'emitted': decl[-200:],
                                                'decoder': None if d is None else d[-40:].hex(), 'gcc': g[i][-40:].hex()})

    # -------------------------------------------------------------- char literals
    def chars(self):
        decls = []
        for v in range(256):
            b = bytes([v])
            try:
                esc = self.SE.escape_char(b)
                lit = "'%s'" % esc
                got = CL.decode_char_constant(lit)
            except CL.CDecodeError as ex:
                self.record('char-literal:decoder-rejects', b, {'error': str(ex)})
                continue
            except Exception as ex:
                self.record('char-literal:exception:' + type(ex).__name__, b, {'error': repr(ex)[:200]})
                continue
            self.n['char_literals'] += 1
            if got != v:
                self.record('char-literal:value-differs', b, {'oracle': 'decoder', 'emitted': lit, 'observed': got})
            decls.append((v, lit))
        if not self.spec.get('compile'):
            return
        base = os.path.join(self.spec['workdir'], 'chars_%s' % self.spec['tag'])
        with open(base + '.c', 'w') as f:
            f.write('#include <stdio.h>\nstatic const unsigned char t[] = {\n')
            for v, lit in decls:
                f.write('(unsigned char)%s,\n' % lit)
            f.write('};\nint main(void){ fwrite(t, 1, sizeof t, stdout); return 0; }\n')
        for cc, flags in (('gcc', ['-std=c11', '-trigraphs', '-pedantic', '-w']), ('clang', ['-std=c11', '-trigraphs', '-w'])):
            r = subprocess.run([cc] + flags + [base + '.c', '-o', base + '.' + cc], capture_output=True, text=True, timeout=300)
            if r.returncode != 0:
                self.record('char-literal:compile-error', b'', {'compiler': cc, 'stderr': r.stderr[-400:]})
                continue
            out = subprocess.run([base + '.' + cc], capture_output=True, timeout=60).stdout
            for (v, lit), o in zip(decls, out):
                self.n['compiler_checked'][cc] += 1
                if o != v:
                    self.record('char-literal:value-differs', bytes([v]), {'oracle': cc, 'emitted': lit, 'observed': o})

    # -------------------------------------------------------------- workloads
    def short_string(self, idx):
        if idx == 0:
            return b''
        if idx <= 256:
            return bytes([idx - 1])
        idx -= 257
        return bytes([idx >> 8, idx & 255])

    def adversarial(self):
        """long strings built so that every kind of escape straddles every offset around the split points"""
        out = []
        pads = [b'a', b'7', b'?']
        seqs = [b'\\', b'\\\\', b'\\\\\\', b'"', b"'", b'\n', b'\x01', b'\xff', b'\x00', b'??', b'??/', b'??/"', b'???', b'????/', b'?\\?',
                b'\x011', b'\x007', b'\x0089', b'\xff0', b'\x7f', b'\\n', b'\\"', b'"\\', b'\x01\\', b'\\\x01', b"'\\''", b'\r\n']
        seqs += [b'??' + bytes([c]) for c in TRI_BODIES.encode()]
        # 1. one special sequence after k filler characters, k around the 2000 and 4000 character limits
        for si, sq in enumerate(seqs):
            for k in list(range(1985, 2003)) + ([3994, 3997, 3999, 4000] if si % 3 == 0 else []):
                out.append(pads[(si + k) % 3] * k + sq + b'tail9')
        # 2. runs of backslashes of every length around the limit (escaped: twice as long), alone and after one filler
        for ln in list(range(990, 1011)) + list(range(1990, 2011)) + [2999, 3000, 3001, 4000]:
            out.append(b'\\' * ln)
            out.append(b'x' + b'\\' * ln + b'"')
        # 3. escapes (4 characters each) filling the chunk completely, shifted by 0..4 fillers
        for sh in range(5):
            out.append(b'a' * sh + b'\x01' * 1005 + b'7')
            out.append(b'a' * sh + b'\xff\\' * 700)
            out.append(b'a' * sh + b'??' * 600 + b'/')
            out.append(b'a' * sh + b'\n"' * 1100)
        # 4. digits after every kind of escape, trigraph bodies after escaped question marks
        for v in (0, 1, 7, 8, 27, 31, 39, 63, 127, 128, 255):
            for d in b'0789af':
                out.append(bytes([v, d]) * 3)
        for c in TRI_BODIES.encode():
            out.append(b'?' + bytes([c]))
            out.append(b'\\??' + bytes([c]) + b'\\')
            out.append(b'x??' + bytes([c]) + b'??' + bytes([c]))
        return out

    def run_job(self, job, rng):
        comp = bool(self.spec.get('compile'))
        k = job[0]
        if k == 'short':
            every = job[3]
            c18 = set(CLASS18)
            for idx in range(job[1], job[2]):
                b = self.short_string(idx)
                tc = comp and (every == 1 or len(b) < 2 or (b[0] in c18 and b[1] in c18) or idx % every == 0)
                self.check(b, 'length<=2', tc, also_method=(idx % 3 == 0))
        elif k == 'class3':
            for idx in range(job[1], job[2]):
                b = bytes([CLASS18[idx // 324], CLASS18[(idx // 18) % 18], CLASS18[idx % 18]])
                self.check(b, 'length3-class18', comp, also_method=(idx % 5 == 0))
        elif k == 'full3':
            every = job[3]
            cnt = 0
            for a in range(job[1], job[2]):
                for m in range(256):
                    for z in range(256):
                        cnt += 1
                        self.check(bytes([a, m, z]), 'length3-all', comp and every and cnt % every == 0)
        elif k == 'adversarial':
            adv = self.adversarial()
            for i, b in enumerate(adv):
                if i % job[2] == job[1]:
                    self.check(b, 'adversarial-long', comp, also_method=True)
                    if i % 4 == 0:
                        # the C-string-constant path passes the *escaped* length to _write_cstring_const
                        lines = self.emit(b, escaped_len=True)
                        if len(lines) == 1:
                            name, init = CL.parse_declaration(lines[0].strip())
                            self.judge('literal', 'decoder', b, CL.decode_string_initializer(init) + b'\0', lines[0], [])
        elif k == 'random':
            alpha_sets = [bytes(CLASS18), bytes(range(256)), b'\\?"\'07a\n', b'?/\\', b'\\\\\\a']
            for i in range(job[1]):
                al = alpha_sets[i % len(alpha_sets)]
                b = bytes(rng.choice(al) for _ in range(rng.choice([3, 4, 5, 6, 8, 12, 20, 50])))
                self.check(b, 'random-short', comp, also_method=(i % 4 == 0))
            for i in range(job[2]):
                al = alpha_sets[i % len(alpha_sets)]
                target = rng.choice([2000, 2000, 4000, 6000, 1000])
                # pick the raw length so that the escaped length lands near a multiple of the split limit
                b = bytearray()
                esc_len = 0
                stop = target + rng.randrange(-12, 13)
                while esc_len < stop:
                    c = rng.choice(al)
                    b.append(c)
                    esc_len += 2 if c in (0x5c, 0x22, 0x0a, 0x0d, 0x09) else 4 if (c < 32 or c >= 127 or c == 0x27) else 1
                self.check(bytes(b), 'random-long', comp, also_method=True)
        elif k == 'big':
            for ln in job[1]:
                for variant in range(job[2]):
                    if variant == 0:
                        b = (b'ab?' * (ln // 3 + 1))[:ln]
                    elif variant == 1:
                        b = bytes(rng.choice(CLASS18) for _ in range(ln))
                    else:
                        b = (b'\\' * 1999 + b'"' + b'??/' + b'\x011') * (ln // 2005 + 1)
                        b = b[:ln]
                    self.check(b, 'length>=65530', comp)
        elif k == 'chars':
            self.chars()
        elif k == 'replay':
            self.check(bytes.fromhex(job[1]), 'replay', comp, also_method=True)
        else:
            raise ValueError(job)


def main():
    spec = json.load(open(sys.argv[1]))
    mroot = os.path.realpath(spec['mirror'])
    import Cython.Compiler.StringEncoding as SE
    import Cython.Compiler.Code as Code
    files = [SE.__file__, Code.__file__]
    mirror_ok = all(f.endswith('.py') and os.path.realpath(f).startswith(mroot + os.sep) for f in files)
    out = {'mirror_ok': mirror_ok, 'module_files': files}
    if not mirror_ok:
        json.dump(out, open(sys.argv[2], 'w'))
        return 3
    run = Run(spec)
    rng = random.Random(spec['seed'])
    for job in spec['jobs']:
        run.run_job(job, rng)
    run.flush()
    out.update({'n': run.n, 'disc': run.disc, 'oracle_disagreements': run.oracle_dis, 'samples': run.samples})
    with open(sys.argv[2], 'w') as f:
        json.dump(out, f)
    return 0


if __name__ == '__main__':
    sys.exit(main())
