"""C48 worker: one build step, as a user's setup.py would run it, in a fresh process.

    python -m props.C48_worker <spec.json>

spec = {"mode": "cythonize" | "inline", "mirror": <mirror root>, "result": <path>, ...}

mode cythonize: {"patterns": [...], "kwargs": {cythonize keyword arguments}, "version": str | null,
                 "global_options": {name: value}}   (cwd = project directory, set by the caller)
    runs the real Cython.Build.Dependencies.cythonize; Cache.lookup_cache / load_from_cache /
    store_to_cache / transitive_fingerprint are wrapped to record events (they still do their job).

mode inline:    {"calls": [{"code":..., "kwds": {name: python-literal text}, "inline_kwargs": {...}}, ...]}
    runs the real cython.inline for each call, records the result signature and whether the
    module was (re)built (cythonize called) or loaded from lib_dir.
"""
import io
import json
import os
import sys
import traceback


def _mirror_ok(spec, mods):
    mroot = os.path.realpath(spec['mirror'])
    files = [m.__file__ for m in mods]
    return all(f.endswith('.py') and os.path.realpath(f).startswith(mroot) for f in files), files


def run_cythonize(spec, res):
    import Cython
    ver = spec.get('version')
    if ver:
        # "another Cython version": must be in place before Version/Cache bind their copies
        import Cython.Shadow
        Cython.__version__ = ver
        Cython.Shadow.__version__ = ver
    import Cython.Build.Cache as CacheMod
    import Cython.Build.Dependencies as Deps
    import Cython.Compiler.Options as Options
    import Cython.Compiler.Main as Main
    import Cython.Compiler.Code as Code
    from Cython.Compiler import Version
    res['mirror_ok'], res['module_files'] = _mirror_ok(spec, [Cython, CacheMod, Deps, Options, Main, Code])
    res['watermark'] = Version.watermark
    if not res['mirror_ok']:
        return
    evpath = spec['result'] + '.events'
    open(evpath, 'w').close()

    class _Ev:
        def append(self, e):
            fd = os.open(evpath, os.O_WRONLY | os.O_APPEND)
            try:
                os.write(fd, (json.dumps(e) + '\n').encode())
            finally:
                os.close(fd)
    events = _Ev()
    Cache = CacheMod.Cache
    orig_lookup, orig_load, orig_store, orig_fp = (Cache.lookup_cache, Cache.load_from_cache, Cache.store_to_cache,
                                                   Cache.transitive_fingerprint)

    def lookup_cache(self, c_file, fingerprint):
        r = orig_lookup(self, c_file, fingerprint)
        events.append(['lookup', os.path.basename(c_file), fingerprint, bool(r)])
        return r

    def load_from_cache(self, c_file, cached):
        events.append(['load', os.path.basename(c_file), os.path.basename(cached)])
        return orig_load(self, c_file, cached)

    def store_to_cache(self, c_file, fingerprint, compilation_result):
        events.append(['store', os.path.basename(c_file), fingerprint])
        return orig_store(self, c_file, fingerprint, compilation_result)

    def transitive_fingerprint(self, filename, dependencies, compilation_options, *a, **k):
        r = orig_fp(self, filename, dependencies, compilation_options, *a, **k)
        events.append(['fingerprint', os.path.basename(filename), r, sorted(os.path.basename(d) for d in dependencies)])
        return r

    Cache.lookup_cache, Cache.load_from_cache = lookup_cache, load_from_cache
    Cache.store_to_cache, Cache.transitive_fingerprint = store_to_cache, transitive_fingerprint
    for k, v in (spec.get('global_options') or {}).items():
        setattr(Options, k, v)
    kwargs = dict(spec.get('kwargs') or {})
    ext_kw = spec.get('extension')
    mods = spec['patterns']
    if ext_kw:
        from distutils.extension import Extension
        mods = []
        for e in ext_kw:
            e = dict(e)
            if 'define_macros' in e:
                e['define_macros'] = [tuple(m) for m in e['define_macros']]
            mods.append(Extension(**e))
    out, err = io.StringIO(), io.StringIO()
    old = sys.stdout, sys.stderr
    sys.stdout, sys.stderr = out, err
    try:
        Deps.cythonize(mods, **kwargs)
        res['ok'] = True
    except BaseException as e:   # noqa: recorded, not propagated
        if isinstance(e, KeyboardInterrupt):
            raise
        res['exc'] = traceback.format_exc()[-3000:]
        res['exc_type'] = type(e).__name__
    finally:
        sys.stdout, sys.stderr = old
    res['stdout'] = out.getvalue()[-3000:]
    res['stderr'] = err.getvalue()[-3000:]
    with open(evpath) as f:
        res['events'] = [json.loads(line) for line in f if line.strip()]
    os.remove(evpath)


def _sig(x):
    if isinstance(x, dict):
        return ['dict', sorted([[repr(k), _sig(v)] for k, v in x.items() if not str(k).startswith('__')])]
    if isinstance(x, (list, tuple)):
        return [type(x).__name__, [_sig(v) for v in x]]
    if callable(x):
        return ['callable', getattr(x, '__name__', '?')]
    return [type(x).__name__, repr(x)]


def run_inline(spec, res):
    import Cython
    import Cython.Build.Inline as Inline
    import Cython.Build.Dependencies as Deps
    import Cython.Compiler.Main as Main
    res['mirror_ok'], res['module_files'] = _mirror_ok(spec, [Cython, Inline, Deps, Main])
    if not res['mirror_ok']:
        return
    built = []
    orig_cythonize = Inline.cythonize

    def cythonize(*a, **k):
        built.append(1)
        return orig_cythonize(*a, **k)

    Inline.cythonize = cythonize
    res['calls'] = []
    for call in spec['calls']:
        kwds = {k: eval(v, {}) for k, v in (call.get('kwds') or {}).items()}
        ik = dict(call.get('inline_kwargs') or {})
        del built[:]
        out = io.StringIO()
        old = sys.stdout, sys.stderr
        sys.stdout = sys.stderr = out
        r = {}
        try:
            val = Inline.cython_inline(call['code'], locals={}, globals={}, quiet=True, **ik, **kwds)
            r['outcome'] = ['ok', _sig(val)]
            probe = call.get('probe')
            if probe:
                # behaviour of the loaded module beyond the call result
                try:
                    r['probe'] = ['ok', _sig(eval(probe, {'R': val}))]
                except Exception as e:
                    r['probe'] = ['exc', type(e).__name__]
        except BaseException as e:  # noqa
            if isinstance(e, KeyboardInterrupt):
                raise
            r['outcome'] = ['exc', type(e).__name__, str(e)[:200]]
            r['tb'] = traceback.format_exc()[-1500:]
        finally:
            sys.stdout, sys.stderr = old
        r['built'] = bool(built)
        r['output'] = out.getvalue()[-1500:]
        res['calls'].append(r)
    res['ok'] = True


def run_directives(spec, res):
    import Cython
    import Cython.Compiler.Options as Options
    res['mirror_ok'], res['module_files'] = _mirror_ok(spec, [Cython, Options])
    dd = Options.get_directive_defaults()
    res['directive_defaults'] = {k: v for k, v in dd.items() if isinstance(v, (bool, int, str, type(None)))}
    res['version'] = Cython.__version__
    res['ok'] = True


def main():
    spec = json.load(open(sys.argv[1]))
    res = {'ok': False, 'events': [], 'exc': None, 'mirror_ok': False}
    try:
        if spec['mode'] == 'cythonize':
            run_cythonize(spec, res)
        elif spec['mode'] == 'directives':
            run_directives(spec, res)
        else:
            run_inline(spec, res)
    except BaseException:   # noqa
        res['exc'] = traceback.format_exc()[-3000:]
    with open(spec['result'] + '.tmp', 'w') as f:
        json.dump(res, f, default=repr)
    os.replace(spec['result'] + '.tmp', spec['result'])
    return 0


if __name__ == '__main__':
    sys.exit(main())
