"""C34 Fused functions dispatch to the matching specialisation (DESIGN.md section 5, C34).

Generated fused declarations (numeric / Python-object / memoryview sets, 1-2 fused parameters, optionally inside a
signature with non-fused parameters, default values and keyword-only parameters, called by position / keyword / default;
def, cpdef, cdef with typed callers) return (cython.typeof(x)..., value...). The reference module (vlib/ref/c34ref.py) implements the dispatch
rules of docs/src/userguide/fusedtypes.rst; where that text does not determine the choice the check accepts any
specialisation that can represent the value (and records it), so only TypeError-vs-dispatch, unrepresentable choices and
wrong values alarm. Explicit indexing and compile-time (cdef) dispatch are compared exactly."""
import os
import re

from vlib import core, cy, diff, sig as vsig, values
from vlib.ref import c34ref

INT_T = ['short', 'int', 'long', 'long long', 'unsigned short', 'unsigned int', 'unsigned long', 'unsigned long long']
FLT_T = ['float', 'double']
CPX_T = ['float complex', 'double complex']
OBJ_T = ['str', 'bytes', 'list', 'dict', 'K']
MV_T = ['int[:]', 'long[:]', 'double[:]', 'float[:]', 'short[:]', 'unsigned int[:]', 'unsigned char[:]', 'long long[:]',
        'float[:, :]', 'int[:, :]', 'double[:, :]', 'double[::1]', 'unsigned char[::1]', 'int[:, ::1]', 'double complex[:]',
        'unsigned short[:]']

SETUP = 'import numpy as np\nimport array\nimport cython\n'


class Decl:
    def __init__(self, n, sets, params, cat, form, shape=None):
        self.n, self.sets, self.params, self.cat, self.form = n, sets, params, cat, form
        self.name = 'fz%dz' % n
        # shape: None = the fused parameters only, all required (x, y); else the whole signature in order, a list of
        # {'k': 'F', 'i': <index into params>, 'name', 'default': text|None, 'kwonly': bool} and
        # {'k': 'P', 'name', 'ctype': ''|'double'|'long'|'str', 'default': text|None, 'kwonly': bool} (non-fused parameter)
        self.shape = shape

    def sigtext(self):
        fn = self.fused_names()
        if not self.shape:
            return ', '.join('%s %s' % (fn[p], a) for p, a in zip(self.params, ['x', 'y']))
        out = []
        star = False
        for it in self.shape:
            if it['kwonly'] and not star:
                out.append('*')
                star = True
            if it['k'] == 'F':
                d = '%s %s' % (fn[self.params[it['i']]], it['name'])
            else:
                d = ('%s %s' % (it['ctype'], it['name'])).strip()
            if it['default'] is not None:
                d += '=' + it['default']
            out.append(d)
        return ', '.join(out)

    def plain_names(self):
        return [it['name'] for it in self.shape or () if it['k'] == 'P']

    def fused_names(self):
        return ['FT%d_%d' % (self.n, i) for i in range(len(self.sets))]

    def pyx(self):
        out = []
        for fname, S in zip(self.fused_names(), self.sets):
            out.append('ctypedef fused %s:' % fname)
            out += ['    ' + t for t in S]
            out.append('')
        names = ['x', 'y'][:len(self.params)]
        fn = self.fused_names()
        sigtext = self.sigtext()
        plain = ''.join(', ' + a for a in self.plain_names())
        tags = ', '.join('cython.typeof(%s)' % a for a in names)
        body = []
        if self.cat == 'obj':
            vals = []
            for p, a in zip(self.params, names):
                S = self.sets[p]
                conds = []
                for t in S:
                    if t == 'object' or t in c34ref.NUM:
                        conds.append(('%s is %s' % (fn[p], t), a))
                    elif t == 'K':
                        conds.append(('%s is K' % fn[p], "'K-instance'"))
                first = True
                for c, v in conds:
                    body.append('    %s %s:\n        v%s = %s' % ('if' if first else 'elif', c, a, v))
                    first = False
                if first:
                    body.append('    v%s = len(%s)' % (a, a))
                else:
                    body.append('    else:\n        v%s = len(%s)' % (a, a))
                vals.append('v' + a)
            ret = 'return (%s, %s%s)' % (tags, ', '.join(vals), plain)
        elif self.cat == 'mv':
            vals = []
            for p, a in zip(self.params, names):
                desc = 'None if %s is None else (%s.shape[0], %s.itemsize, %s.ndim)' % (a, a, a, a)
                if 'object' in self.sets[p]:
                    body.append('    if %s is object:\n        v%s = %s\n    else:\n        v%s = %s' % (fn[p], a, a, a, desc))
                else:
                    body.append('    v%s = %s' % (a, desc))
                vals.append('v' + a)
            ret = 'return (%s, %s%s)' % (tags, ', '.join(vals), plain)
        else:
            ret = 'return (%s, %s%s)' % (tags, ', '.join(names), plain)
        kw = {'def': 'def', 'cpdef': 'cpdef', 'cdef': 'cdef'}[self.form]
        fname = self.name if self.form != 'cdef' else 'c_' + self.name
        out.append('%s %s(%s):' % (kw, fname, sigtext))
        out += body
        out.append('    ' + ret)
        out.append('')
        if self.form == 'cdef':
            # typed callers: the static type of the argument selects the specialisation at compile time
            for t in self.sets[0]:
                out.append('def %s(x):\n    cdef %s v = x\n    return c_%s(v)\n' % (self.caller(t), t, self.name))
        return '\n'.join(out)

    def caller(self, t):
        return '%s_%s' % (self.name, re.sub(r'\W+', '_', t))

    def ref(self):
        if self.form == 'cdef':
            return '\n'.join('%s = RefTyped(%r, %r)' % (self.caller(t), self.cat, t) for t in self.sets[0]) + '\n'
        if self.shape:
            return '%s = RefFused(%r, %r, %r, %r)\n' % (self.name, self.sets, self.params, self.cat, self.shape)
        return '%s = RefFused(%r, %r, %r)\n' % (self.name, self.sets, self.params, self.cat)

    def signatures(self):
        order = []
        for p in self.params:
            if p not in order:
                order.append(p)
        combos = [[]]
        for p in order:
            combos = [c + [t] for c in combos for t in self.sets[p]]
        return order, combos


def gen_set(rng, cat):
    if cat == 'num':
        k = rng.randint(2, 5)
        pool = INT_T + FLT_T + CPX_T
        w = rng.random()
        if w < 0.25:
            pool = INT_T
        elif w < 0.4:
            pool = FLT_T + CPX_T
        S = rng.sample(pool, min(k, len(pool)))
        if rng.random() < 0.3:
            S.append('object')
        return S
    if cat == 'obj':
        S = rng.sample(OBJ_T, rng.randint(2, 4))
        if rng.random() < 0.4:
            S.append('object')
        if rng.random() < 0.3:
            S.insert(rng.randrange(len(S) + 1), rng.choice(['long', 'double', 'int']))
        return S
    S = rng.sample(MV_T, rng.randint(2, 4))
    if rng.random() < 0.15:
        S.append('object')
    return S


FIXED = [
    (['short', 'int', 'long', 'float', 'double', 'float complex', 'double complex', 'object'], 'num'),    # cython.numeric + object
    (['short', 'int', 'long'], 'num'), (['float', 'double'], 'num'), (['int', 'unsigned long', 'long'], 'num'),
    (['unsigned int', 'short'], 'num'), (['long long', 'unsigned long long', 'double'], 'num'), (['int', 'double', 'object'], 'num'),
    (['str', 'bytes', 'list', 'dict', 'K'], 'obj'), (['str', 'object'], 'obj'), (['K', 'list', 'long'], 'obj'),
    (['int[:]', 'long[:]', 'double[:]', 'float[:, :]', 'unsigned char[::1]'], 'mv'), (['double[:]', 'double[:, :]'], 'mv'),
    (['double[::1]', 'float[:]', 'int[:, ::1]'], 'mv'), (['unsigned int[:]', 'int[:]', 'short[:]', 'unsigned short[:]'], 'mv'),
]


# ------------------------------------------------------------------------ signature shapes (non-fused parameters, defaults)
PLAIN_DEFAULTS = {'': ["'d'", '0.5', '7', 'None', '1j', "b'b'"], 'double': ['0.5', '1.5'], 'long': ['9', '-4'], 'str': ["'dflt'"]}
PLAIN_VALUES = {'': ["'lbl'", '7', '2.5', 'None', '[1]', '(1+2j)'], 'double': ['0.25', '3.0', '4'], 'long': ['5', '-3'], 'str': ["'s'"]}


def fused_default_choices(S, cat):
    """default values (texts) that every specialisation of the fused set S accepts at compile time; the run-time type of
    the default decides the dispatch when the argument is left out"""
    if cat == 'mv':
        return ['None']
    if cat == 'obj':
        return ['None'] if all(t in c34ref.PYOBJ for t in S) else []
    kinds = {c34ref.NUM[t][0] for t in S if t in c34ref.NUM}
    if 'int' in kinds:
        return ['2', '7', '0', '100']
    if 'float' in kinds:
        return ['2.5', '0.5', '2.5', '2']
    return ['1j', '2.5']


def F(i, default=None, kwonly=False):
    return {'k': 'F', 'i': i, 'name': 'xy'[i], 'default': default, 'kwonly': kwonly}


def P(j, ctype='', default=None, kwonly=False):
    return {'k': 'P', 'name': 'p%d' % j, 'ctype': ctype, 'default': default, 'kwonly': kwonly}


def shape_cells(S, cat, rng):
    """systematic cells of the signature-shape class for one fused type: where the non-fused parameters stand relative
    to the fused one(s) x which of them have default values x keyword-only. -> [(params, shape, forms)]"""
    fd = fused_default_choices(S, cat)
    if not fd:
        return []
    d = lambda: rng.choice(fd)
    pt = lambda: rng.choice(['', '', 'double', 'long', 'str'])
    pdef = lambda t: rng.choice(PLAIN_DEFAULTS[t])
    cells = []
    t = pt(); cells.append(([0], [P(0, t), F(0, d())], ['def']))
    t = pt(); cells.append(([0], [P(0, t, pdef(t)), F(0, d())], ['def', 'cpdef']))
    t = pt(); cells.append(([0], [F(0, d()), P(0, t, pdef(t))], ['def']))
    t = pt(); cells.append(([0], [F(0), P(0, t, pdef(t))], ['cpdef']))
    t, u = pt(), pt(); cells.append(([0], [P(0, t, pdef(t)), P(1, u, pdef(u)), F(0, d())], ['def']))
    t, u = pt(), pt(); cells.append(([0], [P(0, t, pdef(t)), F(0, d()), P(1, u, pdef(u), True)], ['def']))
    t = pt(); cells.append(([0], [P(0, t, pdef(t)), F(0, d(), True)], ['def']))
    t = pt(); cells.append(([0, 0], [F(0), P(0, t, pdef(t)), F(1, d())], ['def']))
    t = pt(); cells.append(([0, 0], [F(0, d()), P(0, t, pdef(t)), F(1, d())], ['cpdef']))
    return cells


def gen_shape(rng, sets, params, cat, form):
    items = [F(i) for i in range(len(params))]
    for j in range(rng.choice([0, 1, 1, 2])):
        items.insert(rng.randint(0, len(items)), P(j, rng.choice(['', '', 'double', 'long', 'str'])))
    n = len(items)
    choices = [fused_default_choices(sets[params[it['i']]], cat) if it['k'] == 'F' else PLAIN_DEFAULTS[it['ctype']] for it in items]
    kw_from = rng.randint(1, n) if form == 'def' and rng.random() < 0.25 else n
    first_def = min(rng.choice([0, 0, 0, 1, 1, 2, n]), n)
    # positional parameters without a possible default value push the start of the defaults to the right
    for idx in range(min(kw_from, n)):
        if not choices[idx]:
            first_def = max(first_def, idx + 1)
    for idx, it in enumerate(items):
        it['kwonly'] = idx >= kw_from
        if choices[idx] and (idx >= first_def if idx < kw_from else rng.random() < 0.6):
            it['default'] = rng.choice(choices[idx])
    return items


def gen_decls(ck, rng):
    decls = []
    n = 0
    for S, cat in FIXED:
        for form in (['def', 'cpdef', 'cdef'] if cat == 'num' and len(S) <= 4 else ['def']):
            if form == 'cdef' and 'object' in S:
                continue
            decls.append(Decl(n, [list(S)], [0], cat, form))
            n += 1
    # every cell of the signature-shape class on a few fused sets (seed-dependent parameter types and default values)
    srng = ck.rng('shapes')
    shape_sets = [FIXED[6], FIXED[5]] + ck.pick([], [FIXED[0], FIXED[2], FIXED[8], FIXED[11]])
    for si, (S, cat) in enumerate(shape_sets):
        for ci, (params, shape, forms) in enumerate(shape_cells(S, cat, srng)):
            if ck.quick and (ci + ck.seed) % 2 != si:
                continue        # quick: every cell once, alternating between the two fused sets
            for form in forms:
                decls.append(Decl(n, [list(S)], list(params), cat, form, shape=[dict(it) for it in shape]))
                n += 1
    want = ck.pick(40, 280)
    nmv = 0
    while want > 0:
        cat = rng.choice(['num', 'num', 'num', 'obj', 'mv'])
        if cat == 'mv':
            if nmv >= ck.pick(8, 50):
                continue
            nmv += 1
        two = rng.random() < 0.3 and cat != 'mv'
        sets = [gen_set(rng, cat)]
        params = [0]
        if two:
            if rng.random() < 0.5:
                params = [0, 0]
            else:
                sets.append(gen_set(rng, cat))
                params = [0, 1]
        form = rng.choice(['def', 'def', 'cpdef', 'cdef'])
        if form == 'cdef' and (two or cat != 'num' or 'object' in sets[0]):
            form = 'def'
        shape = None
        if form != 'cdef' and rng.random() < 0.4:
            shape = gen_shape(rng, sets, params, cat, form)
        decls.append(Decl(n, sets, params, cat, form, shape=shape))
        n += 1
        want -= 1
    return decls


# ---------------------------------------------------------------------------------------------- arguments
INT_ARGS = ['0', '1', '-1', 'True', '127', '-129', '32767', '32768', '-32769', '65535', '2**31-1', '2**31', '-2**31', '-2**31-1',
            '2**32-1', '2**32', '2**40', '2**63-1', '2**63', '-2**63', '-2**63-1', '2**64-1', '2**64', '2**70', 'I(5)', 'I(-2**40)']
FLT_ARGS = ['0.0', '-0.0', '1.5', '0.1', '1e300', 'inf', 'nan', 'F(2.5)', 'np.float64(0.25)', '16777217.0', '-1e-320']
CPX_ARGS = ['1j', '(1.5-2j)', 'complex(0.1, 0)', 'complex(1e300, 1)', 'complex(nan, inf)']
OBJ_ARGS = ["'a'", "S('xy')", "b'a'", "B(b'xyz')", '[1]', 'L([1, 2])', '{}', "D({1: 2})", 'M.K()', 'None', 'Obj(1)',
            'np.float32(1.5)', 'np.int16(3)', '(1, 2)', 'np.uint64(7)', 'np.complex64(1j)']
NP_DT = ['np.int8', 'np.uint8', 'np.int16', 'np.uint16', 'np.intc', 'np.uintc', 'np.int64', 'np.uint64', 'np.float32', 'np.float64',
         'np.complex64', 'np.complex128']


def buf_args():
    out = []
    for dt in NP_DT:
        out.append('np.arange(3).astype(%s)' % dt)
        out.append('np.arange(6).astype(%s).reshape(2, 3)' % dt)
    out += ['np.arange(6).astype(np.uint8)[::2]', 'np.arange(6).astype(np.float64)[::2]', 'np.arange(6).astype(np.intc)[::-1]',
            'np.asfortranarray(np.arange(6).astype(np.intc).reshape(2, 3))', 'np.arange(6).astype(np.float64).reshape(2, 3).T',
            "np.arange(3).astype('>i4')", "np.arange(3).astype('>f8')", 'RO(np.arange(3).astype(np.float64))',
            "array.array('i', [1, 2])", "array.array('d', [1.0, 2.0])", "array.array('B', [1, 2, 3])", "array.array('h', [1])",
            "array.array('q', [1, 2])", "array.array('I', [1, 2])", "array.array('f', [1.5])",
            "bytearray(b'abc')", "memoryview(bytearray(b'abcd'))", "b'abc'", "memoryview(b'abc')",
            'np.zeros((0,), dtype=np.float64)', 'np.zeros((2, 0), dtype=np.intc)', 'np.zeros((2, 2, 2))']
    return out


SETUP += '''
def RO(a):
    a.setflags(write=False)
    return a
'''


def arg_pools(cat):
    return {'num': INT_ARGS * 2 + FLT_ARGS * 2 + CPX_ARGS + OBJ_ARGS + buf_args()[:4],
            'obj': OBJ_ARGS * 3 + INT_ARGS[:6] + FLT_ARGS[:3] + CPX_ARGS[:1] + buf_args()[:2],
            'mv': buf_args() * 2 + OBJ_ARGS[:2] + ['5', '1.5', 'None', '[1, 2]']}[cat]


def call_texts(pos, kw):
    """(args tuple text, kwargs dict text, call argument text) of one call form"""
    return ('(%s)' % ''.join(v + ', ' for v in pos), '{%s}' % ', '.join('%r: %s' % kv for kv in kw),
            ', '.join(list(pos) + ['%s=%s' % kv for kv in kw]))


def call_form(decl, rng, fused_value, bad=True, all_given=False):
    """one way of calling a function with signature decl.shape: every parameter is passed by position, by keyword or
    (if it has a default value) left out; rarely (bad) a required one is left out or a surplus positional is added.
    Non-fused parameters always get a value of their declared type. -> (positional value texts, [(name, value text)], cell name)"""
    pos, kw = [], []
    positional_ok = True
    plain_default_before = False
    cell = []
    for it in decl.shape:
        val = fused_value(it) if it['k'] == 'F' else rng.choice(PLAIN_VALUES[it['ctype']])
        has_def = it['default'] is not None
        r = rng.random()
        if (has_def and r < 0.45 and not all_given) or (not has_def and bad and r < 0.02):
            positional_ok = False
            if it['k'] == 'F' and has_def:
                cell.append('fused-default-used' + ('-after-defaulted-plain' if plain_default_before else ''))
        elif positional_ok and not it['kwonly'] and r < 0.8:
            pos.append(val)
        else:
            kw.append((it['name'], val))
            positional_ok = False
            if it['k'] == 'F':
                cell.append('fused-by-keyword')
        if it['k'] == 'P' and has_def:
            plain_default_before = True
    if bad and positional_ok and rng.random() < 0.03:
        pos.append('1')
        cell.append('surplus-positional')
    return pos, kw, '+'.join(sorted(set(cell))) or 'all-positional'


def args_for(decl, rng, nargs):
    """list of argument-tuple expression texts"""
    pools = arg_pools(decl.cat)
    out = []
    if len(decl.params) == 1:
        pool = sorted(set(pools))
        rng.shuffle(pool)
        return ['(%s,)' % a for a in pool[:nargs]]
    for _ in range(nargs):
        out.append('(%s, %s)' % (rng.choice(pools), rng.choice(pools)))
    return out


def valid_arg_for_type(t, rng):
    """an argument text convertible to specialisation type t"""
    if t in c34ref.NUM:
        kind, size, signed = c34ref.NUM[t]
        if kind == 'int':
            lo, hi = c34ref.int_range(t)
            return repr(rng.choice([0, 1, hi, lo, hi - 1, 77]))
        if kind == 'float':
            return rng.choice(['1.5', '0.1', '3', '-0.0', '1e30'])
        return rng.choice(['1j', '(1.5-2j)', '2.5', '3'])
    if t == 'object':
        return rng.choice(["'a'", '1', 'None', '[1]'])
    if t == 'K':
        return 'M.K()'
    if t in ('str', 'bytes', 'list', 'dict'):
        return {'str': "'abc'", 'bytes': "b'ab'", 'list': '[1, 2, 3]', 'dict': '{1: 2}'}[t]
    dt, nd, mode = c34ref.mv_parts(t)
    npdt = {'signed char': 'np.int8', 'unsigned char': 'np.uint8', 'short': 'np.int16', 'unsigned short': 'np.uint16', 'int': 'np.intc',
            'unsigned int': 'np.uintc', 'long': 'np.int64', 'unsigned long': 'np.uint64', 'long long': 'np.int64',
            'unsigned long long': 'np.uint64', 'float': 'np.float32', 'double': 'np.float64', 'float complex': 'np.complex64',
            'double complex': 'np.complex128'}[dt]
    return 'np.arange(6).astype(%s)%s' % (npdt, '.reshape(2, 3)' if nd == 2 else '')


def gen_cases(ck, decl, rng):
    cases = []
    nargs = ck.pick(36, 110)
    if decl.form == 'cdef':
        for t in decl.sets[0]:
            for _ in range(ck.pick(4, 10)):
                a = valid_arg_for_type(t, rng) if rng.random() < 0.7 else rng.choice(INT_ARGS if c34ref.NUM[t][0] == 'int' else INT_ARGS[:8] + (FLT_ARGS[2:4] if c34ref.NUM[t][0] == 'complex' else FLT_ARGS[:4]))
                cases.append({'f': decl.caller(t), 'a': '(%s,)' % a, 't': 'cdef-static/%s' % decl.cat, 'd': decl.n, 'mode': 'static'})
        return cases
    if decl.shape:
        pools = arg_pools(decl.cat)
        for _ in range(ck.pick(26, 90)):
            pos, kw, cell = call_form(decl, rng, lambda it: rng.choice(pools))
            a, k, _ = call_texts(pos, kw)
            cases.append({'f': decl.name, 'a': a, 'k': k, 't': '%s/%s/%dp/shaped' % (decl.form, decl.cat, len(decl.params)), 'd': decl.n,
                          'mode': 'call', 'cell': cell})
    else:
        for a in args_for(decl, rng, nargs):
            cases.append({'f': decl.name, 'a': a, 't': '%s/%s/%dp' % (decl.form, decl.cat, len(decl.params)), 'd': decl.n, 'mode': 'call'})
    # explicit indexing: every specialisation once by string names, some by cython.<type> objects, some wrong indices
    order, combos = decl.signatures()
    for combo in combos[:ck.pick(12, 40)]:
        bytype = dict(zip(order, combo))
        args = ', '.join(valid_arg_for_type(bytype[p], rng) for p in decl.params)
        idx = ', '.join(repr(t) for t in combo)
        if decl.shape:
            # the same specialisation called with its arguments by position / by keyword / left to the default values
            for rep in range(2):
                pos, kw, cell = call_form(decl, rng, lambda it: valid_arg_for_type(bytype[decl.params[it['i']]], rng), bad=False,
                                          all_given=(rep == 0))
                text = call_texts(pos, kw)[2]
                cases.append({'x': 'M.%s[%s](%s)' % (decl.name, idx, text), 't': 'index-str/%s/shaped' % decl.cat, 'd': decl.n,
                              'mode': 'index', 'sig': '|'.join(combo), 'cell': cell})
            continue
        cases.append({'x': 'M.%s[%s](%s)' % (decl.name, idx, args), 't': 'index-str/%s' % decl.cat, 'd': decl.n, 'mode': 'index',
                      'sig': '|'.join(combo)})
        if all(t in c34ref.NUM and ' ' not in t for t in combo) and rng.random() < 0.5:
            idx2 = ', '.join('cython.%s' % t for t in combo)
            cases.append({'x': 'M.%s[%s](%s)' % (decl.name, idx2, args), 't': 'index-type/%s' % decl.cat, 'd': decl.n,
                          'mode': 'index', 'sig': '|'.join(combo)})
        if len(combo) == 2 and rng.random() < 0.3:
            cases.append({'x': 'M.%s[%r](%s)' % (decl.name, ', '.join(combo), args), 't': 'index-commastring/%s' % decl.cat,
                          'd': decl.n, 'mode': 'index-undocumented', 'sig': '|'.join(combo)})
    wrong = [t for t in INT_T + FLT_T + ['str', 'int[:]'] if t not in decl.sets[0]][:2]
    for t in wrong:
        args = ', '.join('1' for _ in (decl.shape or decl.params))
        idx = ', '.join([repr(t)] * len(order))
        cases.append({'x': 'M.%s[%s](%s)' % (decl.name, idx, args), 't': 'index-wrong/%s' % decl.cat, 'd': decl.n, 'mode': 'index-wrong'})
    return cases


# ---------------------------------------------------------------------------------------------- judging alternatives
class _K:       # stand-in so that argument expressions can be evaluated in the check process
    pass


_K.__name__ = 'K'


def eval_args(text):
    import array

    import numpy as np
    env = {k: getattr(values, k) for k in dir(values) if not k.startswith('_')}
    M = type('M', (), {'K': _K})

    def RO(a):
        a.setflags(write=False)
        return a
    env.update({'np': np, 'array': array, 'M': M, 'RO': RO})
    return eval(text, env)


KEY_PARTIAL = 'dispatch:int:overflow:non-total-type-order-prefers-type-that-cannot-hold-value'
KEY_PARTIAL_FLOAT = 'dispatch:float-or-complex:non-total-type-order-prefers-smaller-type'
KEY_SIGNED = 'dispatch:int:overflow:signed-preferred-value-fits-only-unsigned-type-of-highest-rank'


class _Num:
    """stand-in with the ordering of PyrexTypes.CNumericType as found in the tree (partial) or as a total order"""
    is_numeric = True

    def __init__(self, name, rank, signed, total):
        self.name, self.rank, self.signed, self.total = name, rank, signed, total

    def __lt__(self, other):
        if getattr(other, 'is_numeric', False):
            if self.total:
                return (self.rank, self.signed) > (other.rank, other.signed)
            return self.rank > other.rank and self.signed >= other.signed
        return True


class _Cplx(_Num):
    def __lt__(self, other):
        if self.total:
            if getattr(other, 'is_numeric', False):
                return (self.rank, self.signed) > (other.rank, other.signed)
            return False
        if isinstance(other, _Cplx):
            return self.rank > other.rank       # real_type < other.real_type
        return False


class _Obj:
    is_numeric = False

    def __init__(self, name):
        self.name = name

    def __lt__(self, other):
        return False


def preferred_int(S, total):
    return preferred(S, total, 'int')


def preferred(S, total, kind):
    """the specialisation of one Python type name (int / float / complex) the dispatcher tests for: specialised types
    sorted (list.sort with the type ordering), first type of that kind"""
    objs = []
    for t in S:
        if t in c34ref.NUM:
            tkind, size, signed = c34ref.NUM[t]
            if tkind == 'complex':
                objs.append(_Cplx(t, c34ref.RANK[t] - 2 + 0.5, 1, total))
            else:
                objs.append(_Num(t, c34ref.RANK[t], 1 if signed else 0, total))
        else:
            objs.append(_Obj(t))
    objs.sort()
    for o in objs:
        if o.name in c34ref.NUM and c34ref.NUM[o.name][0] == kind:
            return o.name
    return None


def overflow_mechanism(S, a):
    """why an OverflowError for an int argument is not what the documentation predicts: 'documented' (no type of the
    highest rank holds the value), 'partial-order' (the non-total type ordering of the tree puts a type first that
    cannot hold the value although a total rank/signedness order would pick one that can), 'signed-preferred' (the
    signed type of the highest rank is preferred and only the unsigned one could hold the value), 'none'"""
    ints = [t for t in S if t in c34ref.NUM and c34ref.NUM[t][0] == 'int']
    if not ints:
        return 'none'
    ok = {t for t in ints if c34ref.fits(t, a)}
    m = max(c34ref.RANK[t] for t in ints)
    B = [t for t in ints if c34ref.RANK[t] == m]
    if not ok or not any(t in ok for t in B):
        return 'documented'
    pt = preferred_int(S, True)
    if pt not in ok:
        return 'signed-preferred'
    if preferred_int(S, False) not in ok:
        return 'partial-order'
    return 'none'


def judge(decl, case, exp, got):
    """None if `got` is an outcome the documentation allows for this call, else a mechanism key"""
    mode = case['mode']
    gk = got[0] + ':' + (got[1][0] if got[0] == 'ok' else got[1])
    ek = exp[0] + ':' + (exp[1][0] if exp[0] == 'ok' else exp[1])
    if mode == 'index-wrong':
        return None if got[0] == 'exc' else 'index:wrong-index-accepted:%s' % decl.cat
    if mode == 'index-undocumented':
        if got[0] == 'exc' and got[1] in ('KeyError', 'TypeError'):
            return None
        return 'index:comma-string:%s->%s' % (ek, gk)
    if mode in ('index', 'static'):
        return '%s:%s:%s->%s' % (mode, decl.cat, ek, gk)
    args = eval_args(case['a'])
    plain_want = []
    shape_note = ''
    if decl.shape:
        # bind the call to the signature as Python does: the value bound to a fused parameter (passed by position or by
        # keyword, or its default value) is what the dispatch rules are applied to
        try:
            bound, defaulted = c34ref.bind(decl.shape, args, eval_args(case.get('k') or '{}'))
        except TypeError:
            return None if got[0] == 'exc' else 'call:%s:call-not-fitting-the-signature-accepted' % decl.form
        args = [bound[n] for _, n in sorted((it['i'], it['name']) for it in decl.shape if it['k'] == 'F')]
        plain_want = [c34ref.plain_value(it['ctype'], bound[it['name']]) for it in decl.shape if it['k'] == 'P']
        if any(it['k'] == 'F' and it['name'] in defaulted for it in decl.shape):
            before = False
            for it in decl.shape:
                if it['k'] == 'F' and it['name'] in defaulted:
                    break
                before = before or (it['k'] == 'P' and it['default'] is not None)
            shape_note = ':fused-argument-from-default' + ('-after-defaulted-non-fused-parameter' if before else '')
        else:
            shape_note = ':signature-with-non-fused-parameters-or-defaults'
    key = _judge_call(decl, case, exp, got, args, plain_want, ek, gk)
    if key in (KEY_SIGNED, KEY_PARTIAL, KEY_PARTIAL_FLOAT):
        return key      # mechanisms of the type ordering, independent of how the value reached the fused parameter
    return key + shape_note if key else None


def _judge_call(decl, case, exp, got, args, plain_want, ek, gk):
    per = {}
    for p, a in zip(decl.params, args):
        if p not in per:
            per[p] = c34ref.allowed(decl.sets[p], a) + (a,)
    if got[0] == 'exc':
        okexc = set()
        for p, (tags, excs, canon, a) in per.items():
            okexc |= excs
        # conversion of a later argument to the type chosen by the first one may legitimately fail
        if len(decl.params) > len(per):
            okexc |= {'TypeError', 'OverflowError', 'ValueError', 'BufferError'}
        if len(per) > 1 and any(canon is None for (tags, excs, canon, a) in per.values()):
            okexc.add('TypeError')
        if got[1] in okexc:
            return None
        if got[1] == 'OverflowError':
            mechs = {overflow_mechanism(decl.sets[p], a) for p, (tags, excs, canon, a) in per.items() if c34ref.akind(a) == 'int'}
            if 'signed-preferred' in mechs:
                return KEY_SIGNED
            if 'partial-order' in mechs:
                return KEY_PARTIAL
        kinds = '+'.join(sorted(c34ref.akind(a) for (_, _, _, a) in per.values()))
        return 'dispatch:%s:%s:arg=%s:%s->%s' % (decl.form if decl.form != 'cpdef' else 'cpdef', decl.cat, kinds, ek, gk)
    # got ok: tags then values
    try:
        items = got[1][1]
        n = len(decl.params)
        tags = [eval(items[i][1]) for i in range(n)]
        vals = items[n:]
    except Exception:
        return 'dispatch:undecodable-result'
    chosen = {}
    for p, tg in zip(decl.params, tags):
        t = c34ref.TAG2TYPE.get(tg, tg)
        if p in chosen and chosen[p] != t:
            return 'dispatch:inconsistent-types-for-one-fused-type'
        chosen[p] = t
    for p, t in chosen.items():
        tags_ok, excs, canon, a = per[p]
        if t not in decl.sets[p]:
            return 'dispatch:type-not-in-fused-set'
        if t not in tags_ok:
            k = c34ref.akind(a)
            if k in ('float', 'complex') and preferred(decl.sets[p], False, k) == t and preferred(decl.sets[p], True, k) in tags_ok:
                return KEY_PARTIAL_FLOAT
            return 'dispatch:%s:%s:arg=%s:unrepresentable-or-undocumented-choice:%s' % (
                decl.form, decl.cat, c34ref.akind(a), 'exp-' + ek.split(':')[0])
    # values
    for (p, a), vs in zip(zip(decl.params, args), vals):
        t = chosen[p]
        if t in c34ref.NUM and c34ref.NUM[t][0] == 'int' and c34ref.akind(a) in ('float', 'npfloat', 'complex', 'npcomplex'):
            continue        # a float offered to a C integer: what the conversion does is C05's property
        if t in c34ref.NUM and c34ref.NUM[t][0] == 'complex' and vs[0] == 'complex':
            try:
                want_z = c34ref.value(decl.cat, t, a)
                got_z = complex(vs[1].replace('(', '').replace(')', '')) if 'nan' not in vs[1] and 'inf' not in vs[1] else None
            except Exception:
                got_z = None
                want_z = None
            if got_z is not None and want_z == got_z:
                continue    # signed zeros of C complex round trips belong to C08
        try:
            want = vsig.sig(c34ref.value(decl.cat, chosen[p], a))
        except Exception as e:
            return 'value:specialisation-accepted-unconvertible-argument:%s' % type(e).__name__
        if decl.cat != 'obj' or chosen[p] != 'object':
            if want != vs:
                return 'value:%s:differs-from-generic-source' % decl.cat
    if [vsig.sig(v) for v in plain_want] != list(vals[len(decl.params):]):
        return 'value:non-fused-parameter:differs-from-generic-source'
    return None


# ---------------------------------------------------------------------------------------------- main
def main(ck):
    tree = cy.Tree('C34')
    rng = ck.rng('decls')
    decls = gen_decls(ck, rng)
    dmap = {d.n: d for d in decls}
    nmod = ck.pick(4, 12)
    groups = [decls[i::nmod] for i in range(nmod)]
    mods, refs = {}, {}
    for gi, g in enumerate(groups):
        name = 'c34m%d' % gi
        mods[name] = '# cython: language_level=3\ncimport cython\n\ncdef class K:\n    pass\n\n' + '\n'.join(d.pyx() for d in g)
        refs[name] = 'from vlib.ref.c34ref import RefFused, RefTyped\n\n\nclass K:\n    pass\n\n\n' + ''.join(d.ref() for d in g)
    bd, info = tree.build_sources(mods, subdir='b', ext='.pyx')
    skipped = 0
    anchors = 0
    for name, inf in info.items():
        if not inf['ok']:
            skipped += 1
            ck.note('build failure %s at %s: %s' % (name, inf['stage'], inf['errors'][-800:]))
            continue
        ctext = open(inf['c'], encoding='utf-8', errors='replace').read()
        anchors += len(re.findall(r'__pyx_fused_cpdef', ctext))
    runs = []
    sig_cells = {}
    for gi, g in enumerate(groups):
        name = 'c34m%d' % gi
        if not info[name]['ok']:
            continue
        rp = os.path.join(bd, name + '_ref.py')
        with open(rp, 'w') as f:
            f.write(refs[name])
        crng = ck.rng('cases%d' % gi)
        cases = []
        for d in g:
            cases += gen_cases(ck, d, crng)
        for i, c in enumerate(cases):
            c['id'] = i
            if c.get('cell'):
                ck2 = '%s:%s' % (c['mode'], c['cell'])
                sig_cells[ck2] = sig_cells.get(ck2, 0) + 1
        runs.append((name, rp, cases))

    from concurrent.futures import ThreadPoolExecutor

    def run_one(r):
        name, rp, cases = r
        return diff.run_cases(tree, bd, name, cases, ref=rp, setup=SETUP, compare={'exc_args': False, 'log': False},
                              tagdir='run_' + name, timeout=ck.pick(900, 2400), nproc=max(1, core.NCPU // 4),
                              spec_extra={'max_mismatch_records': 1000000, 'nsample': 2},
                              extra_env={'OPENBLAS_NUM_THREADS': '1', 'OMP_NUM_THREADS': '1'})

    with ThreadPoolExecutor(4) as ex:
        results = list(ex.map(run_one, runs))
    total_n = total_distinct = 0
    samples = []
    cells, outcomes = {}, {}
    alt_accepted = {}
    selected = {}       # decl n -> set of signature strings seen selected
    for (name, rp, cases), res in zip(runs, results):
        total_n += res.n
        total_distinct += res.distinct
        samples.extend(res.samples[:1])
        for k, v in res.hist.items():
            tag, cls = k.split('|', 1)
            cells[tag] = cells.get(tag, 0) + v
            outcomes[cls] = outcomes.get(cls, 0) + v
        mism = {m['case']['id']: m for m in res.mismatches}
        for c in cases:
            d = dmap[c['d']]
            m = mism.get(c['id'])
            if c['mode'] == 'index' and m is None:
                selected.setdefault(d.n, set()).add(c['sig'])
            if m is None:
                continue
            exp, got = m['exp'], m['got']
            key = judge(d, c, exp, got)
            if key is None:
                k2 = '%s:%s' % (c['mode'], got[0] if got[0] == 'ok' else got[1])
                alt_accepted[k2] = alt_accepted.get(k2, 0) + 1
                continue
            ck.discrepancy(key, '%s %s on %s: model %s, compiled %s' % (d.form, d.sets, c.get('a') or c.get('x'), str(exp)[:200], str(got)[:200]),
                           witness(d, c, exp, got))
        for cr in res.crashes:
            d = dmap[cr['case']['d']]
            if cr['kind'] == 'HANG':
                ck.inconclusive_if(True, 'watchdog fired in %s' % name)
                continue
            ck.discrepancy('crash:%s:%s' % (d.cat, cr['case']['mode']), 'crash %s on %s' % (cr['kind'], cr['case']),
                           witness(d, cr['case'], None, None, stderr=cr['stderr']))
        for ft in res.fatal:
            ck.inconclusive_if(True, 'driver failed for %s: %s' % (name, str(ft)[-400:]))
    # reach: every specialisation of every def/cpdef declaration selected (through explicit indexing) at least once
    not_selected = []
    nspec = 0
    for d in decls:
        if d.form == 'cdef':
            continue
        order, combos = d.signatures()
        lim = ck.pick(12, 40)
        for combo in combos[:lim]:
            nspec += 1
            if '|'.join(combo) not in selected.get(d.n, ()):
                not_selected.append('%s[%s]' % (d.name, '|'.join(combo)))
    ck.cov['specialisations_not_selected'] = not_selected[:40]
    ck.inconclusive_if(skipped > 0, '%d module build(s) failed' % skipped)
    ck.inconclusive_if(anchors < 1, '__pyx_fused_cpdef absent from the generated C')
    need = 'call:fused-default-used-after-defaulted-plain'
    ck.inconclusive_if(not any(k.startswith(need) for k in sig_cells) and skipped == 0,
                       'no run-time dispatch on the default value of a fused parameter that follows a defaulted non-fused parameter')
    ck.inconclusive_if(nspec and len(not_selected) > nspec // 5, 'more than 20%% of the specialisations were never selected (%d of %d)'
                       % (len(not_selected), nspec))
    return ck.finish(
        total_n, total_distinct,
        'one evaluation = one call (run-time dispatch, explicit index, or typed caller of a cdef fused function) compared with the '
        'documented dispatch model; distinct_nontrivial = distinct (function, model outcome) pairs; all functions go through the generated '
        '__pyx_fused_cpdef dispatcher or compile-time specialisation',
        samples,
        extra={'declarations': len(decls), 'by_form': {f: sum(1 for d in decls if d.form == f) for f in ('def', 'cpdef', 'cdef')},
               'by_category': {c: sum(1 for d in decls if d.cat == c) for c in ('num', 'obj', 'mv')},
               'shaped_declarations': sum(1 for d in decls if d.shape), 'signature_call_cells': dict(sorted(sig_cells.items())),
               'fused_cpdef_mentions_in_C': anchors, 'specialisations_indexed': nspec,
               'alternatives_accepted_where_docs_do_not_decide': dict(sorted(alt_accepted.items())),
               'cells': dict(sorted(cells.items())), 'outcome_classes': outcomes},
        assumptions=['dispatch model transcribed from docs/src/userguide/fusedtypes.rst: exact match, else the biggest corresponding numeric '
                     'type; buffers by dtype kind, item size, signedness and ndim',
                     'where that text does not determine the choice (several integer types of the same size, int for a float-only '
                     'fused type, subclasses of str/bytes/list/dict, None, NumPy scalars, buffers that match in dtype but cannot be acquired) any '
                     'specialisation that can represent the value, or the listed exception classes, is accepted and counted',
                     'a comma-joined index string ("int, double") is undocumented: KeyError/TypeError or the named specialisation accepted',
                     'a fused parameter that is left out of the call is dispatched on its default value (the value bound to the parameter), '
                     'whatever other parameters and default values the signature has',
                     'exception messages are not compared'])


def witness(d, case, exp, got, stderr=None):
    src = '# cython: language_level=3\ncimport cython\n\ncdef class K:\n    pass\n\n' + d.pyx()
    ref = 'from vlib.ref.c34ref import RefFused, RefTyped\n\n\nclass K:\n    pass\n\n\n' + d.ref()
    w = {'module_source': src, 'ref_source': ref, 'ext': '.pyx', 'case': {k: v for k, v in case.items() if k in ('f', 'a', 'k', 'x', 't')},
         'expected': exp, 'observed': got, 'setup': SETUP, 'cflags': [], 'directives': {}, 'fused_sets': d.sets, 'form': d.form,
         'note': 'replay compares with the canonical model choice; alternatives the documentation allows are judged by props/C34.judge'}
    if stderr:
        w['stderr'] = stderr[-1500:]
    return w


def replay(ck, data):
    w = data.get('witness', data)
    tree = cy.Tree('C34r')
    d, info = tree.build_sources({'replaymod': w['module_source']}, subdir='r', ext='.pyx')
    inf = info['replaymod']
    if not inf['ok']:
        print('build failed', inf['errors'][-1500:])
        return 2
    rp = os.path.join(d, 'replaymod_ref.py')
    open(rp, 'w').write(w['ref_source'])
    res = diff.run_cases(tree, d, 'replaymod', [w['case']], ref=rp, setup=w.get('setup', SETUP),
                         compare={'exc_args': False, 'log': False}, nproc=1)
    for m in res.mismatches:
        print('case    ', w['case'])
        print('model   ', m['exp'])
        print('observed', m['got'])
    for c in res.crashes:
        print('crash', c['kind'], c['stderr'][-1200:])
    for ft in res.fatal:
        print('driver failure', ft)
    if res.mismatches or res.crashes:
        print('VIOLATION property=%s replay=<replayed>' % ck.pid)
        return 1
    print('replay: case agrees with the model now (%d evaluated)' % res.n)
    return 0 if res.n else 2
