"""C45 driver + event-stream automaton.  Runs in a subprocess (one build configuration per process):
    python -m props.C45_driver spec.json
Installs the observers (sys.setprofile / sys.settrace with accepting or declining local trace functions / both /
cProfile / a second thread), runs generated call trees and checks the merged stream of events and ground-truth
markers with a stack automaton.  Only balance, nesting, caller attribution, counts and line membership are judged -
never CPython's exact event sequence."""
import json
import os
import sys
import threading

DRIVER = -1


class Frame:
    __slots__ = ('fid', 'marked')

    def __init__(self, fid):
        self.fid = fid
        self.marked = False


class Automaton:
    """one per event stream (profile stream or trace stream)"""

    def __init__(self, table, site_owner, traced, stream, check_parent=True):
        self.table = table
        self.site_owner = site_owner
        self.traced = traced            # set of fids that emit events in this build
        self.stream = stream
        self.stack = []
        self.viol = []
        self.ncall = {}
        self.nmark = {}
        self.check_parent = check_parent
        self.declined = set()
        self.nline = 0
        self.nret = 0

    def v(self, kind, fid, **kw):
        t = self.table.get(fid, {})
        rec = {'kind': kind, 'stream': self.stream, 'fid': fid, 'template': t.get('template', '?'), 'fkind': t.get('kind', '?')}
        rec.update(kw)
        self.viol.append(rec)

    def marker(self, code, fid, s):
        if code != 1 or fid not in self.traced or fid in self.declined:
            return
        self.nmark[fid] = self.nmark.get(fid, 0) + 1
        if not self.stack or self.stack[-1].fid != fid or self.stack[-1].marked:
            top = self.stack[-1].fid if self.stack else DRIVER
            self.v('activation-without-call-event', fid, top=top, top_template=self.table.get(top, {}).get('template', 'driver'))
            return
        self.stack[-1].marked = True
        if self.check_parent:
            owner = self.site_owner.get(s, DRIVER)
            if owner != DRIVER and owner not in self.traced:
                return
            actual = DRIVER
            for fr in reversed(self.stack[:-1]):
                actual = fr.fid
                break
            if actual != owner:
                self.v('parent-mismatch', fid, owner=owner, owner_template=self.table.get(owner, {}).get('template', 'driver'),
                       actual=actual, actual_template=self.table.get(actual, {}).get('template', 'driver'))

    def call(self, fid, declined=False):
        self.ncall[fid] = self.ncall.get(fid, 0) + 1
        if declined:
            self.declined.add(fid)
            return
        self.stack.append(Frame(fid))

    def ret(self, fid):
        self.nret += 1
        if fid in self.declined:
            self.v('event-for-declined-frame', fid, event='return')
            return
        if not self.stack:
            self.v('return-without-open-frame', fid)
            return
        if self.stack[-1].fid != fid:
            top = self.stack[-1].fid
            self.v('return-mismatch', fid, top=top, top_template=self.table.get(top, {}).get('template', '?'))
            for i in range(len(self.stack) - 1, -1, -1):
                if self.stack[i].fid == fid:
                    del self.stack[i:]
                    break
            return
        fr = self.stack.pop()
        k = self.table[fid]['kind']
        if not fr.marked and k in ('def', 'cdef', 'cpdef', 'cdef_noexcept', 'nogil', 'py'):
            self.v('call-event-without-activation', fid)

    def line(self, fid, lineno):
        self.nline += 1
        if fid in self.declined:
            self.v('event-for-declined-frame', fid, event='line')
            return
        if not self.stack or self.stack[-1].fid != fid:
            top = self.stack[-1].fid if self.stack else DRIVER
            self.v('line-outside-frame', fid, top=top, top_template=self.table.get(top, {}).get('template', 'driver'), lineno=lineno)
            return
        t = self.table[fid]
        if not (t['first'] <= lineno <= t['last']):
            self.v('line-out-of-span', fid, lineno=lineno, first=t['first'], last=t['last'])

    def finish(self):
        if self.stack:
            self.v('unreturned-frames', self.stack[-1].fid, depth=len(self.stack),
                   open=[self.table[f.fid]['template'] for f in self.stack][:6])
        for fid, n in self.nmark.items():
            if self.table[fid]['kind'] in ('gen', 'coro', 'aux') and self.table[fid]['template'] not in ('cm_enter', 'cm_exit'):
                if self.ncall.get(fid, 0) < n:
                    self.v('count-mismatch', fid, calls=self.ncall.get(fid, 0), activations=n)
            elif self.ncall.get(fid, 0) != n:
                self.v('count-mismatch', fid, calls=self.ncall.get(fid, 0), activations=n)


def main():
    spec = json.load(open(sys.argv[1]))
    sys.path.insert(0, spec['builddir'])
    sys.setrecursionlimit(2000)
    import c45log
    assert c45log.__file__.endswith('.so')
    out = open(spec['out'], 'w')
    unraisable = []
    sys.unraisablehook = lambda u: unraisable.append(type(u.exc_value).__name__)
    table = {int(k): v for k, v in spec['table'].items()}
    key2fid = {(v['file'], v['first']): k for k, v in table.items()}
    stats = {'runs': 0, 'events': 0, 'markers': 0, 'exit_kinds': {}, 'templates_activated': {}, 'violations': 0,
             'by_observer': {}, 'line_events': 0, 'return_events': 0, 'cprofile_compiled_entries': 0, 'cprofile_runs': 0,
             'transparent_results': 0}
    count = c45log.count
    base = os.path.basename

    def fid_of(frame):
        code = frame.f_code
        fn = base(code.co_filename)
        k = (fn.split('.')[0], code.co_firstlineno)
        return key2fid.get(k)

    modfiles = {v['file'] for v in table.values()}
    for m in spec['modules']:
        mod = __import__(m['name'])
        assert mod.__file__.endswith('.so'), mod.__file__
        site_owner = {int(k): v for k, v in m['site_owner'].items()}
        traced_prof = set(m['traced_profile'])
        traced_line = set(m['traced_trace'])
        for root in m['roots']:
            f = getattr(mod, root['name'])
            for d in spec['depths']:
                # baseline without observers: result, and the marker log as ground truth of what runs
                c45log.reset()
                try:
                    base_res = ('ok', f(0, d))
                except Exception as e:
                    base_res = ('exc', type(e).__name__)
                base_marks = c45log.dump(0)
                for code, a, b in base_marks:
                    if code == 1:
                        t = table[a]['template']
                        stats['templates_activated'][t] = stats['templates_activated'].get(t, 0) + 1
                    else:
                        nm = {2: 'raise', 3: 'generator-suspend', 4: 'generator-close-throw-drop', 5: 'early-exit-in-finally-or-with'}[code]
                        stats['exit_kinds'][nm] = stats['exit_kinds'].get(nm, 0) + 1
                stats['exit_kinds']['return-or-unwind(activations)'] = stats['exit_kinds'].get('return-or-unwind(activations)', 0) + \
                    sum(1 for c in base_marks if c[0] == 1)
                for obs in spec['observers']:
                    ev = []

                    def prof(frame, event, arg, ev=ev):
                        if event.startswith('c_'):
                            k = fid_of(frame)
                            ev.append(('P', event, k, 0, count(), threading.get_ident()))
                            return
                        ev.append(('P', event, fid_of(frame), frame.f_lineno, count(), threading.get_ident()))

                    def loc(frame, event, arg, ev=ev):
                        ev.append(('T', event, fid_of(frame), frame.f_lineno, count(), threading.get_ident()))
                        return loc

                    def tr(frame, event, arg, ev=ev):
                        k = fid_of(frame)
                        if k is None:
                            # frames of the traced modules that are not in the table (e.g. __init__ of a helper class)
                            # are accepted and ignored; everything else (the driver itself) is not traced
                            return loc if base(frame.f_code.co_filename).split('.')[0] in modfiles else None
                        ev.append(('T', event, k, frame.f_lineno, count(), threading.get_ident()))
                        return loc

                    def tr_decline(frame, event, arg, ev=ev):
                        k = fid_of(frame)
                        if k is None:
                            return loc if base(frame.f_code.co_filename).split('.')[0] in modfiles else None
                        if k % 2 == 1:
                            ev.append(('T', 'call-declined', k, frame.f_lineno, count(), threading.get_ident()))
                            return None
                        ev.append(('T', event, k, frame.f_lineno, count(), threading.get_ident()))
                        return loc
                    c45log.reset()
                    res = None
                    tracer_lost = False

                    def body():
                        nonlocal res, tracer_lost
                        if obs in ('profile', 'both', 'thread'):
                            sys.setprofile(prof)
                        if obs in ('trace', 'both'):
                            sys.settrace(tr)
                        if obs == 'trace_decline':
                            sys.settrace(tr_decline)
                        try:
                            try:
                                res = ('ok', f(0, d))
                            except Exception as e:
                                res = ('exc', type(e).__name__)
                        finally:
                            if obs in ('trace', 'both', 'trace_decline'):
                                tracer_lost = sys.gettrace() is None
                            sys.setprofile(None)
                            sys.settrace(None)
                    if obs == 'cprofile':
                        import cProfile
                        import pstats
                        pr = cProfile.Profile()
                        pr.enable()
                        try:
                            try:
                                res = ('ok', f(0, d))
                            except Exception as e:
                                res = ('exc', type(e).__name__)
                        finally:
                            pr.disable()
                        st = pstats.Stats(pr)
                        names = {k[2] for k in st.stats}
                        stats['cprofile_compiled_entries'] += sum(1 for v in table.values() if v['name'] in names and v['kind'] != 'py')
                        stats['cprofile_runs'] += 1
                    elif obs == 'thread':
                        th = threading.Thread(target=body)
                        th.start()
                        th.join()
                    else:
                        body()
                    marks = c45log.dump(0)
                    stats['runs'] += 1
                    stats['events'] += len(ev)
                    stats['markers'] += len(marks)
                    stats['by_observer'][obs] = stats['by_observer'].get(obs, 0) + 1
                    viol = []
                    if res != base_res:
                        viol.append({'kind': 'observed-run-changes-result', 'stream': obs, 'fid': DRIVER, 'template': 'driver',
                                     'fkind': 'driver', 'base': base_res, 'observed': res})
                    else:
                        stats['transparent_results'] += 1
                    broken = False
                    if tracer_lost:
                        # sys.settrace() was undone behind our back: the rest of the stream is truncated, judge nothing else
                        broken = True
                        declined_any = any(e[1] == 'call-declined' for e in ev)
                        viol = [{'kind': 'trace-function-uninstalled-during-run', 'stream': obs, 'fid': DRIVER,
                                 'template': 'after-declined-local-trace' if declined_any else 'no-frame-declined',
                                 'fkind': 'driver', 'base': base_res, 'observed': res}]
                    if not broken and [m_ for m_ in marks] != base_marks and res == base_res:
                        viol.append({'kind': 'observed-run-changes-execution', 'stream': obs, 'fid': DRIVER, 'template': 'driver',
                                     'fkind': 'driver', 'base_markers': len(base_marks), 'markers': len(marks)})
                    if obs != 'cprofile' and not broken:
                        autos = {}
                        if obs in ('profile', 'both', 'thread'):
                            autos['P'] = Automaton(table, site_owner, traced_prof, 'profile')
                        if obs in ('trace', 'both'):
                            autos['T'] = Automaton(table, site_owner, traced_line, 'trace')
                        if obs == 'trace_decline':
                            autos['T'] = Automaton(table, site_owner, traced_line, 'trace-declining', check_parent=False)
                        mi = 0
                        tids = set()
                        for (stream, event, fid, lineno, cnt, tid) in ev:
                            tids.add(tid)
                            while mi < cnt and mi < len(marks):
                                for a in autos.values():
                                    a.marker(*marks[mi])
                                mi += 1
                            if fid is None:
                                continue
                            a = autos.get(stream)
                            if a is None:
                                continue
                            if event == 'call':
                                a.call(fid)
                            elif event == 'call-declined':
                                a.call(fid, declined=True)
                            elif event == 'return':
                                a.ret(fid)
                            elif event == 'line':
                                a.line(fid, lineno)
                        while mi < len(marks):
                            for a in autos.values():
                                a.marker(*marks[mi])
                            mi += 1
                        for a in autos.values():
                            a.finish()
                            viol += a.viol
                            stats['line_events'] += a.nline
                            stats['return_events'] += a.nret
                        if len(tids) > 1:
                            viol.append({'kind': 'events-from-several-threads', 'stream': obs, 'fid': DRIVER, 'template': 'driver',
                                         'fkind': 'driver'})
                    if viol:
                        stats['violations'] += len(viol)
                        seen = set()
                        for v in viol:
                            k = (v['kind'], v['stream'], v.get('template'), v.get('owner_template'), v.get('top_template'))
                            if k in seen:
                                continue
                            seen.add(k)
                            v['run'] = {'module': m['name'], 'root': root['name'], 'd': d, 'observer': obs,
                                        'events_head': [list(e[:4]) for e in ev[:60]], 'markers_head': marks[:40]}
                            out.write(json.dumps(v) + '\n')
                    out.flush()
    stats['marker_log_overflow'] = c45log.overflow()
    stats['unraisable'] = len(unraisable)
    out.write(json.dumps({'done': True, 'stats': stats}) + '\n')
    out.close()
    return 0


if __name__ == '__main__':
    rc = main()
    sys.stdout.flush()
    os._exit(rc)
