"""C42 worker.  python -m props.C42_worker <spec.json>

spec = {"mode": "cythonize", "modules": [rel, ...], "kwargs": {...}, "result": path, "expect": "py"|"so"|null}
        runs Cython.Build.cythonize(modules in that order, **kwargs) with cwd = the corpus copy (set by the caller)
     | {"mode": "compile", "jobs": [{"src":, "out":}], "result": path, "expect": ...}
        runs Cython.Compiler.Main.compile for each job in one process (any Cython first on PYTHONPATH:
        the interpreted mirror or the self-compiled tree)
"""
import io
import json
import os
import sys
import traceback


def main():
    spec = json.load(open(sys.argv[1]))
    res = {'ok': False, 'exc': None}
    try:
        import Cython
        import Cython.Compiler.Code as Code
        import Cython.Compiler.Parsing as Parsing
        import Cython.Compiler.Scanning as Scanning
        import Cython.Compiler.Visitor as Visitor
        res['files'] = {m.__name__: m.__file__ for m in (Cython, Code, Parsing, Scanning, Visitor)}
        res['compiled_compiler'] = all(not f.endswith('.py') for n, f in res['files'].items() if n != 'Cython')
        res['interpreted_compiler'] = all(f.endswith('.py') for f in res['files'].values())
        out, err = io.StringIO(), io.StringIO()
        old = sys.stdout, sys.stderr
        sys.stdout, sys.stderr = out, err
        try:
            if spec['mode'] == 'cythonize':
                from Cython.Build.Dependencies import cythonize
                cythonize(list(spec['modules']), **spec['kwargs'])
            else:
                from Cython.Compiler.Main import compile as cy_compile, CompilationOptions, default_options
                res['jobs'] = []
                for job in spec['jobs']:
                    r = {'src': job['src'], 'ok': False}
                    try:
                        opts = dict(default_options)
                        opts['language_level'] = 3
                        opts['output_file'] = job['out']
                        result = cy_compile(job['src'], CompilationOptions(**opts))
                        r['ok'] = result.num_errors == 0 and bool(result.c_file)
                    except BaseException as e:  # noqa
                        if isinstance(e, KeyboardInterrupt):
                            raise
                        r['exc'] = traceback.format_exc()[-1500:]
                    res['jobs'].append(r)
            res['ok'] = True
        finally:
            sys.stdout, sys.stderr = old
            res['stdout'] = out.getvalue()[-2000:]
            res['stderr'] = err.getvalue()[-4000:]
    except BaseException:  # noqa
        res['exc'] = traceback.format_exc()[-3000:]
    with open(spec['result'], 'w') as f:
        json.dump(res, f)
    return 0


if __name__ == '__main__':
    sys.exit(main())
