"""C36 Generated code is free of memory errors and undefined behaviour (DESIGN.md section 5, C36).

Workloads (re-generated from the seed through the shared generators) are built with
gcc -O1 -fno-inline -g -fsanitize=address,undefined and loaded into CPython with libasan preloaded and
PYTHONMALLOC=malloc. The deciding monitor is the sanitizer runtime: report blocks are counted from the
log files (never from exit codes); crashes/hangs are isolated to the case in flight."""
import os
import re

from vlib import cy, diff, san
from vlib.gen import hostile, pygen

NULLREF = '''
def __getattr__(name):
    def f(*a, **k):
        return None
    return f
'''


def function_spans(cfile):
    """[(first line, last line, C function name)] of the generated C file"""
    spans = []
    cur = None
    try:
        for no, line in enumerate(open(cfile, errors='replace'), 1):
            if line.startswith('static ') and line.rstrip().endswith('{'):
                m = re.search(r'\b(__pyx_\w+|__Pyx_\w+)\(', line)
                if m:
                    cur = [no, no, m.group(1)]
            elif line.startswith('}') and cur:
                cur[1] = no
                spans.append(tuple(cur))
                cur = None
    except OSError:
        pass
    return spans


def c02_sample(ck, n):
    from props import C02
    funcs = C02.gen_functions(ck)
    rng = ck.rng('c02sample')
    rng.shuffle(funcs)
    funcs = funcs[:n]
    src = '# cython: language_level=3\n' + '\n'.join(f['src'] for f in funcs)
    nums, nonnum = C02.operands(ck)
    cases = []
    for f in funcs:
        for e in nums + nonnum:
            if f['op'] == '*' and e in nonnum and (f['ckind'] == 'float' or abs(int(f['c'].strip('()'))) > 8):
                continue
            if f['form'] in ('cx', 'bcx') and f['op'] == '<<' and re.match(r'^-?\d+$', e) and abs(int(e)) > 300:
                continue
            cases.append({'f': f['name'], 'a': '(%s,)' % e, 't': 'C02:' + f['op']})
    return src, cases


def main(ck):
    tree = cy.Tree('C36')
    rng = ck.rng('w')
    workloads = []   # (modname, source, ext, cases, refsource or None, user_typed_arith)
    hcases = hostile.cases(rng)
    if ck.quick:
        # quick: a seeded sample of at most 45 cases per template function
        byf = {}
        for c in hcases:
            byf.setdefault(c['f'], []).append(c)
        hcases = []
        for f, cs in byf.items():
            if len(cs) > 45:
                cs = rng.sample(cs, 45)
            hcases.extend(cs)
    workloads.append(('c36host', hostile.PYX, '.pyx', hcases, None, True))
    for i in range(ck.pick(2, 20)):
        src, funcs = pygen.gen_module(rng, ck.pick(25, 40))
        cases = []
        for f in funcs:
            for a in pygen.gen_args(rng, f['param_kinds'], ck.pick(8, 14)):
                cases.append({'f': f['name'], 'a': a, 't': 'pygen'})
        workloads.append(('c36py%d' % i, src, '.py', cases, 'same', False))
    src, cases = c02_sample(ck, ck.pick(70, 1500))
    workloads.append(('c36arith', src, '.py', cases, 'same', False))

    by_ext = {}
    for w in workloads:
        by_ext.setdefault(w[2], {})[w[0]] = w[1]
    info = {}
    dirs = {}
    for ext, mods in by_ext.items():
        d, inf = tree.build_sources(mods, subdir='b' + ext.strip('.'), ext=ext, cflags=san.SAN_CFLAGS + ['-fno-inline'],
                                    opt=san.SAN_OPT)
        info.update(inf)
        for m in mods:
            dirs[m] = d
    nullref = os.path.join(tree.work, 'nullref.py')
    open(nullref, 'w').write(NULLREF)

    total = 0
    distinct = 0
    reports_seen = {}
    dropped_user = {}
    crashes = 0
    failed = 0
    dropped_untranslatable = []
    hist = {}
    samples = []
    helper_free = {}
    for name, src, ext, cases, ref, user_arith in workloads:
        inf = info[name]
        if not inf['ok']:
            if name.startswith('c36py') and inf['stage'] == 'translate':
                # a generated program the compiler rejects or crashes on is C43's subject, not a memory error:
                # dropped and counted; too many of them make the run inconclusive below
                dropped_untranslatable.append(name)
                ck.note('generated module %s not translated (C43 territory): %s' % (name, inf['errors'][-300:]))
                continue
            failed += 1
            ck.note('build failure %s at %s: %s' % (name, inf['stage'], inf['errors'][-400:]))
            continue
        logdir = os.path.join(tree.work, 'logs_' + name)
        os.makedirs(logdir, exist_ok=True)
        env = san.run_env(logdir)
        res = diff.run_cases(tree, dirs[name], name, cases, ref=(inf['src'] if ref == 'same' else nullref),
                             compare={'log': False}, setup=hostile.SETUP, extra_env=env, as_gb=0, timeout=1500,
                             tagdir='run_' + name, nproc=ck.pick(8, 16), spec_extra={'max_mismatch_records': 0, 'recursionlimit': 350,
                                         'stderr_path': os.path.join(logdir, 'stderr')})
        total += res.n
        distinct += res.distinct
        samples.extend(res.samples[:1])
        for k, v in res.hist.items():
            t = k.split('|')[0]
            hist[t] = hist.get(t, 0) + v
        reps = san.parse_logs(logdir)
        spans = None
        for r in reps:
            if r['func'] == '?' and r.get('line'):
                if spans is None:
                    spans = function_spans(inf['c'])
                r['func'] = next((fn for lo, hi, fn in spans if lo <= r['line'] <= hi), '?')
            key = san.dedupe_key(r)
            if user_arith and r['tool'] == 'ubsan' and not san.is_helper(r['func']) and 'overflow' in r['kind']:
                # C arithmetic written by the program itself (FA rule): counted, not reported
                dropped_user[key] = dropped_user.get(key, 0) + 1
                continue
            reports_seen[key] = reports_seen.get(key, 0) + 1
            ck.discrepancy(key, '%s report in %s: %s' % (r['tool'], r['func'], r['kind']),
                           {'module_source': src, 'module_name': name, 'ext': ext, 'report': r['text'],
                            'cflags': san.SAN_CFLAGS, 'note': 'rebuild with the sanitizer flags and run the module cases'})
        for c in res.crashes:
            crashes += 1
            fn = c['case'].get('f', '?')
            fn = fn if not re.match(r'fz\d+z', fn) else 'generated'
            key = 'crash:%s:%s' % (name if fn == 'generated' else 'hostile', fn)
            if re.match(r'c_(div|mod|divmod)_', fn) and re.match(r'\(-2\*\*(31|63), -1,\)', c['case'].get('a', '')):
                key = 'crash:c-int-%s-MIN-by-minus1' % fn.split('_')[1]
            ck.discrepancy(key,
                           'crash/hang (%s) in %s on %s' % (c['kind'], fn, c['case'].get('a')),
                           {'module_source': src, 'module_name': name, 'ext': ext, 'case': c['case'], 'stderr': c['stderr'][-2500:],
                            'cflags': san.SAN_CFLAGS})
        for ft in res.fatal:
            ck.inconclusive_if(True, 'driver failed for %s: %s' % (name, str(ft)[-400:]))
    ck.inconclusive_if(failed > 0, '%d workload module(s) failed to build' % failed)
    ck.inconclusive_if(len(dropped_untranslatable) * 4 > len(workloads), 'more than a quarter of the generated modules did not translate')
    ck.cov['generated_modules_dropped_untranslatable'] = dropped_untranslatable
    # the sanitizer runtime must really have been active: libasan preloaded and instrumented code reached
    ck.inconclusive_if(total < ck.pick(4000, 50000), 'fewer sanitised calls than the floor')
    return ck.finish(
        total, distinct,
        'hostile typed .pyx templates (extreme indices/slices on typed and untyped sequences, shifts, C division incl. MIN//-1, '
        'conversions of huge ints/non-ints to every C integer type, float parsing, integer power with fitting results, C-value '
        'formatting, memoryview None/uninitialised/out-of-range, unpacking, mutation during iteration) + pygen programs + a sample '
        'of C02 constant-operand functions; every call runs under ASan+UBSan (gcc -O1 -fno-inline, libasan preloaded, '
        'PYTHONMALLOC=malloc); a report block in the logs or a crash is a violation. distinct = distinct (function, outcome)',
        samples,
        extra={'workload_modules': [w[0] for w in workloads], 'calls_by_template': dict(sorted(hist.items())),
               'sanitizer_reports_by_key': reports_seen, 'user_arithmetic_reports_dropped': dropped_user,
               'crashes': crashes, 'sanitizer': 'gcc 12 ASan+UBSan, recover mode, logs parsed'},
        assumptions=['CPython itself is uninstrumented: an error inside libpython is visible only as a crash',
                     'no MemorySanitizer: uninitialised reads are visible only through values',
                     'red-zone tools miss non-adjacent overflows; a clean run is "no report on K executions"'])
