"""C03 C-integer division and modulo follow Python semantics; cdivision=True follows C (DESIGN.md section 5, C03).

Monitor M1 (boundary differential) on generated typed .pyx functions against a Python big-int reference model, plus
in-C exhaustive / random sweeps that compare the compiled operators with an independent C oracle living in a verbatim
C block (floor through correctly rounded double division for 8/16-bit operands, the defining property of floor /
truncating division checked in 128-bit arithmetic for 32/64-bit operands)."""
import re
import resource
import threading
from concurrent.futures import ThreadPoolExecutor

from vlib import core, creach, cy, diff
from props import C03_rows as R

CT = R.CT
OPSYM = {'div': '//', 'mod': '%'}
MIN64 = -(1 << 63)

PAIR_TYPES_Q = ['sc', 'uc', 'c', 's', 'us', 'i', 'si', 'ui', 'l', 'sl', 'ul', 'll', 'ull', 'z', 'sz']
MIXED = [('sc', 'i'), ('s', 'l'), ('i', 'll'), ('l', 's'), ('ll', 'i'), ('z', 'i'), ('i', 'z'), ('l', 'll'), ('uc', 'i'),
         ('us', 'l'), ('ui', 'll'), ('l', 'uc'), ('uc', 'us'), ('us', 'ul'), ('sc', 's')]
INPLACE_TYPES = ['sc', 'uc', 's', 'us', 'i', 'ui', 'l', 'ul', 'z']
CONST_TYPES_Q = ['sc', 's', 'i', 'ui', 'l', 'ul', 'll', 'z']
CONST_TYPES_T = ['sc', 'uc', 'c', 's', 'us', 'i', 'si', 'ui', 'l', 'sl', 'ul', 'll', 'ull', 'z', 'sz']
CONSTS_Q = [0, 1, -1, 2, 3, -3, 7, -7, 10, 128, -128, 255, 32767, -32768, 65536, 2147483647, -2147483648, 'TMAX', 'TMIN']
CONSTS_T = CONSTS_Q + [-2, 4, 5, -5, 8, 16, -16, 100, -100, 127, -127, 256, -255, 1000, 32768, -32767, 65535, 1 << 30,
                       -(1 << 30), (1 << 31) - 2, -(1 << 31) + 1, 1 << 32, -(1 << 32), 1 << 62, -(1 << 62),
                       (1 << 63) - 2, -(1 << 63) + 1]
DIVIDENDS_Q = [7, -7, -1, 0, 2147483647, -2147483648, MIN64]
DIVIDENDS_T = DIVIDENDS_Q + [1, 100, -128, (1 << 63) - 1, 3, -3, 65536, -(1 << 62)]
ADIV_TYPES_Q = ['s', 'i', 'l', 'll', 'z', 'ul']
ADIV_TYPES_T = ['sc', 'uc', 's', 'i', 'ui', 'l', 'll', 'z', 'ul']


def restype(t1, t2):
    """(bits, signed) of the C result type of a binary operation under C promotion, None for mixed-sign
    combinations whose signed operand would be converted to unsigned (not generated: DESIGN C03 FA)."""
    _, b1, s1 = CT[t1]
    _, b2, s2 = CT[t2]
    bits = max(32, b1, b2)
    wide = [s for b, s in ((b1, s1), (b2, s2)) if b == bits]
    if not wide:
        return bits, True          # both narrower than int: promoted to (signed) int
    signed = all(wide)
    if not signed and (s1 or s2) and not (not s1 and not s2):
        # unsigned at full width and a signed partner: the signed operand converts to unsigned
        return None
    return bits, signed


def const_text(c, unsigned_ctx):
    """C-typed literal text for constant c, or None if it cannot be written as a C integer literal"""
    if -(1 << 31) <= c < (1 << 31):
        return '(%d)' % c if c < 0 else str(c), (64, True)       # plain literals are C long
    if c == MIN64:
        return '(-9223372036854775807LL - 1)', (64, True)
    if unsigned_ctx:
        # unsigned operand: an unsigned literal keeps the operation unsigned (long long with unsigned long would be a
        # mixed-sign promotion, not generated)
        return ('%dULL' % c, (64, False)) if 0 <= c < (1 << 64) else (None, None)
    if -(1 << 63) < c < (1 << 63):
        return ('(%dLL)' % c) if c < 0 else '%dLL' % c, (64, True)
    return None, None


def gen_functions(ck):
    """descriptors of every generated function (same list for both cdivision settings)"""
    funcs = []

    def add(**d):
        d['name'] = 'fz%dz' % len(funcs)
        funcs.append(d)

    for op in ('div', 'mod'):
        sym = OPSYM[op]
        for t in PAIR_TYPES_Q:
            add(form='pair', op=op, t1=t, t2=t, rt=restype(t, t),
                src='def @NAME@(%s a, %s b):\n    return a %s b\n' % (CT[t][0], CT[t][0], sym),
                ref='def @NAME@(a, b):\n    return _%s(a, b)\n' % op)
        for t1, t2 in MIXED:
            rt = restype(t1, t2)
            assert rt is not None, (t1, t2)
            add(form='mixed', op=op, t1=t1, t2=t2, rt=rt,
                src='def @NAME@(%s a, %s b):\n    return a %s b\n' % (CT[t1][0], CT[t2][0], sym),
                ref='def @NAME@(a, b):\n    return _%s(a, b)\n' % op)
        for t in INPLACE_TYPES:
            add(form='inplace', op=op, t1=t, t2=t, rt=(CT[t][1], CT[t][2]), rt_op=restype(t, t),
                src='def @NAME@(%s a, %s b):\n    a %s= b\n    return a\n' % (CT[t][0], CT[t][0], sym),
                ref='def @NAME@(a, b):\n    return _%s(a, b)\n' % op)
        for t in ck.pick(CONST_TYPES_Q, CONST_TYPES_T):
            lo, hi = R.bounds(t)
            seen = set()
            for c in ck.pick(CONSTS_Q, CONSTS_T):
                c = hi if c == 'TMAX' else lo if c == 'TMIN' else c
                if c in seen:
                    continue
                seen.add(c)
                if not CT[t][2] and c < 0:
                    continue           # negative constant with an unsigned operand: mixed-sign promotion
                text, ctype = const_text(c, not CT[t][2])
                if text is None:
                    continue
                cbits, csigned = ctype
                if CT[t][2] != csigned and CT[t][1] == 64:
                    rt = (64, False)    # unsigned 64-bit operand with a non-negative long constant: value preserving
                else:
                    rt = (64, csigned)
                add(form='constb', op=op, t1=t, t2=None, c=c, rt=rt,
                    src='def @NAME@(%s a):\n    return a %s %s\n' % (CT[t][0], sym, text),
                    ref='def @NAME@(a):\n    return _%s(a, %d)\n' % (op, c))
        for t in ck.pick(ADIV_TYPES_Q, ADIV_TYPES_T):
            for c in ck.pick(DIVIDENDS_Q, DIVIDENDS_T):
                if not CT[t][2] and c < 0:
                    continue
                text, ctype = const_text(c, not CT[t][2])
                if text is None:
                    continue
                rt = (64, False) if (not CT[t][2] and (CT[t][1] == 64 or not ctype[1])) else (64, True)
                add(form='consta', op=op, t1=None, t2=t, c=c, rt=rt,
                    src='def @NAME@(%s b):\n    return %s %s b\n' % (CT[t][0], text, sym),
                    ref='def @NAME@(b):\n    return _%s(%d, b)\n' % (op, c))
    for f in funcs:
        f['src'] = f['src'].replace('@NAME@', f['name'])
        f['ref'] = f['ref'].replace('@NAME@', f['name'])
    return funcs


REF_PRELUDE = {
    'py': '''
def _div(a, b):
    if b == 0:
        raise ZeroDivisionError('integer division or modulo by zero')
    return a // b


def _mod(a, b):
    if b == 0:
        raise ZeroDivisionError('integer division or modulo by zero')
    return a % b
''',
    'cdiv': '''
def _div(a, b):
    # C99 6.5.5: truncation toward zero
    q = abs(a) // abs(b)
    return q if (a < 0) == (b < 0) else -q


def _mod(a, b):
    # (a/b)*b + a%b == a
    return a - b * _div(a, b)
''',
}


def hazards(f):
    """operand tuples on which the mathematical quotient does not fit the C type that holds it
    (MIN // -1 and, for in-place forms, the narrowing store): list of tuples, and whether C evaluates an
    overflowing (undefined) division for them"""
    form = f['form']
    out = []
    if form in ('pair', 'mixed'):
        bits, signed = f['rt']
        if signed and CT[f['t1']][2] and CT[f['t1']][1] == bits and CT[f['t2']][2]:
            out.append(((-(1 << (bits - 1)), -1), True))
    elif form == 'inplace':
        bits, signed = f['rt']
        if signed:
            out.append(((-(1 << (bits - 1)), -1), bits >= 32))
    elif form == 'constb':
        if f['c'] == -1 and CT[f['t1']][2] and CT[f['t1']][1] == 64:
            out.append(((MIN64,), True))
    elif form == 'consta':
        if f['c'] == MIN64 and CT[f['t2']][2]:
            out.append(((-1,), True))
    return out


def row_specs(ck, f):
    """operand-list specs for function f"""
    lvl = ck.pick(1, 2)
    specs = []
    if f['form'] in ('pair', 'mixed', 'inplace'):
        t1, t2 = f['t1'], f['t2']
        b1, b2 = CT[t1][1], CT[t2][1]
        if b1 <= 8 and b2 <= 8:
            lo, hi = R.bounds(t1)
            specs += [('exh', t1, t2, a) for a in range(lo, hi + 1)]
            return specs
        specs += [('bnd', t1, t2, a, lvl) for a in R.boundary(t1, lvl)]
        wide = max(b1, b2) >= 32
        if f['form'] == 'pair':
            n = ck.pick(20000, 250000 if wide else 60000)
        else:
            n = ck.pick(4000, 40000)
        per = ck.pick(500, 2000)
        seed0 = ck.rng('pairs:%s:%s' % (t1, t2)).randrange(1 << 30)
        specs += [('rnd', t1, t2, seed0 + i, per) for i in range(n // per)]
    else:
        t = f['t1'] or f['t2']
        bits = CT[t][1]
        if bits <= 8 or (bits <= 16 and not ck.quick):
            specs.append(('exh1', t))
        else:
            specs.append(('bnd1', t, lvl))
            n = ck.pick(300, 3000)
            seed0 = ck.rng('unary:%s' % t).randrange(1 << 30)
            specs.append(('rnd1', t, seed0, n))
    return specs


_pstat_cache = {}
_MINS = {-(1 << 7), -(1 << 15), -(1 << 31), -(1 << 63)}


def plist_of(spec, nz, excl):
    return R.plist(tuple(spec), nz=nz, excl=[tuple(e) for e in excl])


def pstats(spec, nz, excl):
    """(number of operand tuples, number of distinct operand tuples) of the operand list plist(spec, nz, excl);
    the list itself is generated once per spec and not kept"""
    key = tuple(spec)
    v = _pstat_cache.get(key)
    if v is None:
        ps = R.plist(key)
        ds = set(ps)
        special = {}
        for q in ps:
            if (q[-1] == -1 and q[0] in _MINS) or (len(q) == 1 and (q[0] in _MINS or q[0] == -1)):
                special[q] = special.get(q, 0) + 1
        v = _pstat_cache[key] = (len(ps), len(ds), sum(1 for q in ps if q[-1] == 0), sum(1 for q in ds if q[-1] == 0), special)
    n, nd, nzero, ndzero, special = v
    if nz:
        n, nd = n - nzero, nd - ndzero
    for e in excl:
        e = tuple(e)
        if e in special and not (nz and e[-1] == 0):
            n -= special[e]
            nd -= 1
    return n, nd


# ------------------------------------------------------------------------------------------------ in-C sweeps

C_ORACLE = r'''
#include <math.h>
#include <limits.h>
/* Independent oracle of the C03 check (not Cython code).
   Small operands (|a|,|b| <= 2**16): floor/trunc of the correctly rounded double quotient is exact, because the exact
   quotient differs from the nearest other integer by at least 1/|b| >= 2**-16, far above the rounding error; the
   result is then verified against the defining property of the division before it is used. */
static int vo_floor(long long a, long long b, long long *q, long long *r) {
    double qd = floor((double)a / (double)b);
    long long qq = (long long)qd;
    long long rr = a - qq * b;
    if (!((b > 0) ? (rr >= 0 && rr < b) : (rr <= 0 && rr > b))) return 1;
    *q = qq; *r = rr; return 0;
}
static int vo_trunc(long long a, long long b, long long *q, long long *r) {
    double qd = trunc((double)a / (double)b);
    long long qq = (long long)qd;
    long long rr = a - qq * b;
    long long ab = b < 0 ? -b : b, ar = rr < 0 ? -rr : rr;
    if (!(ar < ab && (rr == 0 || ((rr < 0) == (a < 0))))) return 1;
    *q = qq; *r = rr; return 0;
}
/* Wide operands: the observed quotient / remainder is checked against the defining property in 128-bit arithmetic.
   floor:  a == q*b + r with 0 <= r < b (b > 0) or b < r <= 0 (b < 0); trunc: |r| < |b| and r == 0 or sign(r) == sign(a) */
static int vo_floor_q(long long a, long long b, long long q) {
    __int128 r = (__int128)a - (__int128)q * (__int128)b;
    return (b > 0) ? (r >= 0 && r < b) : (r <= 0 && r > b);
}
static int vo_floor_r(long long a, long long b, long long r) {
    __int128 d = (__int128)a - (__int128)r;
    if (!((b > 0) ? (r >= 0 && r < b) : (r <= 0 && r > b))) return 0;
    return d % (__int128)b == 0;
}
static int vo_trunc_q(long long a, long long b, long long q) {
    __int128 r = (__int128)a - (__int128)q * (__int128)b;
    __int128 ab = b < 0 ? -(__int128)b : (__int128)b, ar = r < 0 ? -r : r;
    return ar < ab && (r == 0 || ((r < 0) == (a < 0)));
}
static int vo_trunc_r(long long a, long long b, long long r) {
    __int128 d = (__int128)a - (__int128)r;
    __int128 ab = b < 0 ? -(__int128)b : (__int128)b, ar = r < 0 ? -(__int128)r : (__int128)r;
    if (!(ar < ab && (r == 0 || ((r < 0) == (a < 0))))) return 0;
    return d % (__int128)b == 0;
}
static int vo_u_q(unsigned long long a, unsigned long long b, unsigned long long q) {
    unsigned __int128 p = (unsigned __int128)q * b;
    return p <= a && (unsigned __int128)a - p < b;
}
static int vo_u_r(unsigned long long a, unsigned long long b, unsigned long long r) {
    return r < b && r <= a && (a - r) % b == 0 && (a - r) / b == a / b;
}
/* xorshift64* operand generator: mixed magnitudes, small divisors, exact multiples and their neighbours;
   never b == 0 and never (MIN, -1) (both outside what the sweep judges) */
static unsigned long long vo_next(unsigned long long *s) {
    unsigned long long x = *s;
    x ^= x >> 12; x ^= x << 25; x ^= x >> 27; *s = x;
    return x * 2685821657736338717ULL;
}
static long long vo_sval(unsigned long long *s, int bits) {
    unsigned long long k = vo_next(s);
    int nb = 1 + (int)((k >> 8) % (unsigned)bits);
    unsigned long long m = vo_next(s);
    long long v;
    if (nb < bits) m &= ((1ULL << nb) - 1);
    else if (bits < 64) m &= ((1ULL << bits) - 1);
    if (bits < 64) { v = (long long)(m & ((1ULL << (bits - 1)) - 1)); if (k & 1) v = -v - ((k >> 1) & 1); }
    else { v = (long long)(m >> 1); if (k & 1) v = -v - (long long)((k >> 1) & 1); }
    if ((k & 0xf0) == 0) v = (long long)((k >> 20) % 33) - 16;
    return v;
}
static void vo_spair(unsigned long long *s, int bits, long long *pa, long long *pb) {
    long long a = vo_sval(s, bits), b = vo_sval(s, bits);
    long long mn = (bits < 64) ? -(1LL << (bits - 1)) : LLONG_MIN;
    unsigned long long k;
    if (b == 0) b = 1;
    if (a == mn && b == -1) a += 1;
    k = vo_next(s) & 15;
    if (k < 3) { a = (a / b) * b; }
    else if (k == 3 && a > mn + 1) { a = (a / b) * b; a += (a < 0) ? 1 : -1; }
    if (a == mn && b == -1) a += 1;
    *pa = a; *pb = b;
}
static void vo_upair(unsigned long long *s, int bits, unsigned long long *pa, unsigned long long *pb) {
    unsigned long long k = vo_next(s), a = vo_next(s), b = vo_next(s);
    int na = 1 + (int)((k >> 8) % (unsigned)bits), nb = 1 + (int)((k >> 16) % (unsigned)bits);
    if (na < 64) a &= ((1ULL << na) - 1);
    if (nb < 64) b &= ((1ULL << nb) - 1);
    if ((k & 0xf0) == 0) b = (k >> 24) % 17;
    if (b == 0) b = 1;
    if ((k & 15) < 3) a = (a / b) * b;
    *pa = a; *pb = b;
}
'''

SWEEP_HEAD = '''
cdef extern from *:
    """%s"""
    int vo_floor(long long a, long long b, long long *q, long long *r)
    int vo_trunc(long long a, long long b, long long *q, long long *r)
    int vo_floor_q(long long a, long long b, long long q)
    int vo_floor_r(long long a, long long b, long long r)
    int vo_trunc_q(long long a, long long b, long long q)
    int vo_trunc_r(long long a, long long b, long long r)
    int vo_u_q(unsigned long long a, unsigned long long b, unsigned long long q)
    int vo_u_r(unsigned long long a, unsigned long long b, unsigned long long r)
    void vo_spair(unsigned long long *s, int bits, long long *pa, long long *pb)
    void vo_upair(unsigned long long *s, int bits, unsigned long long *pa, unsigned long long *pb)

''' % C_ORACLE

SWEEP_SMALL = '''
def sweep_%(t)s(long alo, long ahi):
    """all (a, b), a in [alo, ahi), b over the whole type without 0: compiled // and %% against the C oracle"""
    cdef %(ctype)s a, b
    cdef long ai, bi
    cdef long long q = 0, r = 0, n = 0, bad = 0
    cdef list out = []
    for ai in range(alo, ahi):
        a = <%(ctype)s>ai
        for bi in range(%(blo)d, %(bhi)d):
            if bi == 0:
                continue
            b = <%(ctype)s>bi
            if vo_%(oracle)s(ai, bi, &q, &r):
                raise AssertionError("oracle self-check failed")
            n += 2
            if a // b != q:
                bad += 1
                if len(out) < 4:
                    out.append(('div', ai, bi, a // b, q))
            if a %% b != r:
                bad += 1
                if len(out) < 4:
                    out.append(('mod', ai, bi, a %% b, r))
    return (n, bad, out)
'''

SWEEP_WIDE_S = '''
def sweepr_%(t)s(unsigned long long seed, long n):
    """n pseudo-random operand pairs of %(ctype)s: compiled // and %% must satisfy the defining property"""
    cdef %(ctype)s a, b, q, r
    cdef long long la = 0, lb = 0
    cdef unsigned long long s = seed
    cdef long i, bad = 0
    cdef list out = []
    for i in range(n):
        vo_spair(&s, %(bits)d, &la, &lb)
        a = <%(ctype)s>la
        b = <%(ctype)s>lb
        q = a // b
        r = a %% b
        if not vo_%(oracle)s_q(a, b, q):
            bad += 1
            if len(out) < 4:
                out.append(('div', a, b, q))
        if not vo_%(oracle)s_r(a, b, r):
            bad += 1
            if len(out) < 4:
                out.append(('mod', a, b, r))
    return (2 * n, bad, out)
'''

SWEEP_WIDE_U = '''
def sweepr_%(t)s(unsigned long long seed, long n):
    cdef %(ctype)s a, b, q, r
    cdef unsigned long long la = 0, lb = 0
    cdef unsigned long long s = seed
    cdef long i, bad = 0
    cdef list out = []
    for i in range(n):
        vo_upair(&s, %(bits)d, &la, &lb)
        a = <%(ctype)s>la
        b = <%(ctype)s>lb
        q = a // b
        r = a %% b
        if not vo_u_q(a, b, q):
            bad += 1
            if len(out) < 4:
                out.append(('div', a, b, q))
        if not vo_u_r(a, b, r):
            bad += 1
            if len(out) < 4:
                out.append(('mod', a, b, r))
    return (2 * n, bad, out)
'''

SMALL_SWEEP_TYPES = ['sc', 'uc', 'c', 's', 'us']
WIDE_SWEEP_TYPES = ['i', 'ui', 'l', 'ul', 'll', 'ull', 'z', 'sz']


def sweep_function_source(t, mode):
    ctype, bits, signed = CT[t]
    oracle = 'trunc' if mode == 'cdiv' else 'floor'
    if bits <= 16:
        lo, hi = R.bounds(t)
        return SWEEP_SMALL % {'t': t, 'ctype': ctype, 'blo': lo, 'bhi': hi + 1, 'oracle': oracle}
    tmpl = SWEEP_WIDE_S if signed else SWEEP_WIDE_U
    return tmpl % {'t': t, 'ctype': ctype, 'bits': bits, 'oracle': oracle}


def sweep_module(mode):
    src = SWEEP_HEAD
    ref = ''
    for t in SMALL_SWEEP_TYPES:
        src += sweep_function_source(t, mode)
        ref += 'def sweep_%s(alo, ahi):\n    return (2 * (ahi - alo) * %d, 0, [])\n\n' % (t, (1 << CT[t][1]) - 1)
    for t in WIDE_SWEEP_TYPES:
        src += sweep_function_source(t, mode)
        ref += 'def sweepr_%s(seed, n):\n    return (2 * n, 0, [])\n\n' % t
    return src, ref


def sweep_cases(ck):
    """(cases, evaluations per case)"""
    cases = []
    rng = ck.rng('sweep')
    for t in SMALL_SWEEP_TYPES:
        lo, hi = R.bounds(t)
        nb = (1 << CT[t][1]) - 1
        if CT[t][1] == 8:
            step = 8
            ranges = [(a, a + step) for a in range(lo, hi + 1, step)]
        elif ck.quick:
            avals = set(R.boundary(t)) | {rng.randint(lo, hi) for _ in range(150)}
            ranges = [(a, a + 1) for a in sorted(avals)]
        else:
            step = 16
            ranges = [(a, a + step) for a in range(lo, hi + 1, step)]
        for alo, ahi in ranges:
            cases.append(({'f': 'sweep_' + t, 'a': '(%d, %d)' % (alo, ahi), 't': 'sweep/%s' % t}, 2 * (ahi - alo) * nb))
    nseed, per = ck.pick((6, 250000), (100, 2000000))
    for t in WIDE_SWEEP_TYPES:
        for i in range(nseed):
            seed = rng.getrandbits(63) | 1
            cases.append(({'f': 'sweepr_' + t, 'a': '(%d, %d)' % (seed, per), 't': 'sweepr/%s' % t}, 2 * per))
    return cases


# ------------------------------------------------------------------------------------------------ classification

def sign_class(v):
    return '0' if v == 0 else ('-' if v < 0 else '+')


def operands_of(f, args):
    if f['form'] == 'constb':
        return args[0], f['c']
    if f['form'] == 'consta':
        return f['c'], args[0]
    return args[0], args[1]


def rclass(f):
    bits, signed = f['rt']
    return '%s%d' % ('s' if signed else 'u', bits)


def outcome_name(o):
    """o: element signature from a row (['int', '3'] / ['str', "'!ZeroDivisionError'"]) or a driver outcome"""
    if o is None:
        return 'missing'
    if o[0] == 'exc':
        return o[1]
    if o[0] == 'ok':
        o = o[1]
    if o[0] == 'str' and o[1].startswith("'!"):
        return o[1][2:-1]
    return 'val' if o[0] == 'int' else 'type-' + o[0]


def classify(f, mode, args, exp, got, hazard=False):
    a, b = operands_of(f, args)
    if hazard:
        sc = 'min-by-minus1'
    else:
        sc = 'a%sb%s' % (sign_class(a), sign_class(b))
    rem = 'rem0' if (b != 0 and a % b == 0) else 'rem'
    return '%s:%s:%s:%s:%s:%s:%s->%s' % (f['op'], mode, f['form'], rclass(f), sc, rem, outcome_name(exp), got if isinstance(got, str) else outcome_name(got))


def witness(f, mode, args, exp, got, extra=None):
    w = {'function_source': f['src'], 'ext': '.pyx', 'case': {'f': f['name'], 'a': repr(tuple(args))},
         'directives': {'cdivision': True} if mode == 'cdiv' else {}, 'cflags': [],
         'ref_source': REF_PRELUDE[mode] + f['ref'], 'compare': {'log': False, 'exc_args': False},
         'expected': exp, 'observed': got, 'mode': mode}
    if extra:
        w.update(extra)
    return w


def reach_of(f, mode, body):
    """(nontrivial?, cell name) from the generated C body of the function"""
    bits, signed = f['rt_op'] if f['form'] == 'inplace' else f['rt']
    const = 'constb' if f['form'] == 'constb' else 'consta' if f['form'] == 'consta' else 'var'
    helper = re.findall(r'__Pyx_(div|mod)_(\w+)\(([^;]*?), ([01])\)', body)
    if mode == 'py' and signed:
        for hop, htype, _, bconst in helper:
            if hop == f['op'] and (bconst == '1') == (f['form'] == 'constb'):
                return True, '%s/py/helper:%s/%s' % (f['op'], htype, const)
        return False, None
    # cdivision or unsigned result: plain C operator applied to the typed argument
    o = '/' if f['op'] == 'div' else '%'
    if helper:
        return False, None
    if re.search(r'__pyx_v_[ab]\)* %s |%s \(*__pyx_v_[ab]\b' % (o, o), body):
        return True, '%s/%s/plain:%s%d/%s' % (f['op'], mode, 's' if signed else 'u', bits, const)
    return False, None


# the driver keeps at most this many mismatch records per chunk; the default (400) is exceeded by the known findings alone
NO_CAP = {'max_mismatch_records': 2000000}


def truncated(ck, res, where):
    """mismatch records lost to the driver's cap would hide discrepancies: never silently"""
    if res.nmismatch > len(res.mismatches):
        ck.inconclusive_if(True, '%d of %d mismatch records of %s were not stored by the driver' % (
            res.nmismatch - len(res.mismatches), res.nmismatch, where))


def split_hangs(ck, crashes, where):
    """a fired watchdog (timeout of the driver process) is never judged: it makes the run inconclusive"""
    real = []
    for c in crashes:
        if str(c.get('kind', '')).startswith('HANG'):
            ck.inconclusive_if(True, 'watchdog fired in %s on case %s (not judged)' % (where, str(c.get('case'))[:160]))
        else:
            real.append(c)
    return real


def width(n):
    return max(1, min(n, core.NCPU))


class State:
    def __init__(self):
        self.total_eval = 0
        self.distinct = 0
        self.samples = []
        self.cells = {}
        self.trivial = []
        self.hist = {}
        self.nofit = {}
        self.skipped_build = 0
        self.funcs_run = 0
        self.lock = threading.Lock()

    def add_hist(self, h):
        for k, v in h.items():
            self.hist[k] = self.hist.get(k, 0) + v


def describe(f):
    return f['src'].strip().replace('\n', ' / ')


def run_row_module(ck, st, tree, d, mode, mname, inf, part, refsrc, fmap):
    """cases of one generated module: operand rows, element-wise refinement, MIN-by-minus-one operands"""
    cmp = {'exc_args': False, 'log': False}
    refpath = inf['src'][:-4] + '_ref.py'
    with open(refpath, 'w') as fh:
        fh.write(refsrc)
    ctext = open(inf['c'], encoding='utf-8', errors='replace').read()
    bodies = creach.bodies_by_token(ctext, [f['name'] for f in part])
    cases, hz_cases = [], []
    nz = 1 if mode == 'cdiv' else 0
    with st.lock:
        for f in part:
            ok, cell = reach_of(f, mode, bodies.get(f['name'], ''))
            if not ok:
                st.trivial.append('%s:%s' % (mode, describe(f)))
                cell = '%s/%s/unreached' % (f['op'], mode)
            hz = hazards(f)
            # the remainder of a narrowing-only pair (8/16-bit in-place) is ordinary: 0 fits and nothing overflows in C
            excl = [h for h, ub in hz if not (f['op'] == 'mod' and not ub)]
            nf = 0
            for spec in row_specs(ck, f):
                np_, nd_ = pstats(spec, nz, excl)
                if not np_:
                    continue
                cases.append({'x': 'row(M.%s, plist(%r, nz=%d, excl=%r))' % (f['name'], tuple(spec), nz, excl),
                              't': cell, 'fn': f['name'], 'spec': list(spec), 'nz': nz, 'excl': [list(e) for e in excl],
                              'n': np_})
                nf += np_
                if ok:
                    st.distinct += nd_
            if mode == 'py':
                for h in excl:
                    hz_cases.append({'f': f['name'], 'a': repr(h), 't': 'min-by-minus1/%s/%s' % (f['op'], f['form'])})
            st.funcs_run += 1
            st.cells[cell] = st.cells.get(cell, 0) + nf
    res = diff.run_cases(tree, d, mname, cases, spec_extra=NO_CAP, ref=refpath, compare=cmp, setup='from props.C03_rows import *',
                         tagdir='run_' + mname, timeout=3600, nproc=width(6))
    done_n = sum(c['n'] for c in cases)
    refine = []
    with st.lock:
        truncated(ck, res, 'a C03 module run')
        st.add_hist(res.hist)
        st.samples.extend(res.samples[:1])
        for m in res.mismatches:
            case = m['case']
            f = fmap[case['fn']]
            ps = plist_of(case['spec'], case['nz'], case['excl'])
            e, g = m['exp'], m['got']
            if (e[0] == 'ok' and g[0] == 'ok' and e[1][0] == 'list' and g[1][0] == 'list'
                    and len(e[1][1]) == len(g[1][1]) == len(ps)):
                nrep = 0
                for pp, ei, gi in zip(ps, e[1][1], g[1][1]):
                    if ei != gi:
                        nrep += 1
                        if nrep > 40:
                            break
                        ck.discrepancy(classify(f, mode, pp, ei, gi), '%s on %r (%s): reference %s, compiled %s' % (
                            describe(f), pp, mode, ei, gi), witness(f, mode, pp, ei, gi))
            else:
                refine.append(case)
        for c in res.crashes:
            done_n -= c['case'].get('n', 0)
        for c in split_hangs(ck, res.crashes, mname):
            refine.append(c['case'])
        for ft in res.fatal:
            ck.inconclusive_if(True, 'driver failed for %s: %s' % (mname, str(ft)[-300:]))
        if not res.fatal:
            st.total_eval += max(0, done_n)
    # rows that crashed or were not comparable element-wise are re-run operand by operand
    single = []
    for case in refine[:4]:
        ps = plist_of(case['spec'], case['nz'], case['excl'])
        single += [{'f': case['fn'], 'a': repr(pp), 't': 'refine'} for pp in ps[:3000]]
    if single:
        r2 = diff.run_cases(tree, d, mname, single, spec_extra=NO_CAP, ref=refpath, compare=cmp, tagdir='refine_' + mname, timeout=3600,
                            max_restarts=40)
        with st.lock:
            st.total_eval += r2.n
            for m in r2.mismatches:
                f = fmap[m['case']['f']]
                pp = eval(m['case']['a'])
                ck.discrepancy(classify(f, mode, pp, m['exp'], m['got']), '%s on %r (%s): reference %s, compiled %s' % (
                    describe(f), pp, mode, m['exp'], m['got']), witness(f, mode, pp, m['exp'], m['got']))
            for c in split_hangs(ck, r2.crashes, 'refine ' + mname):
                f = fmap[c['case']['f']]
                pp = eval(c['case']['a'])
                ck.discrepancy(classify(f, mode, pp, ['ok', ['int', '?']], 'crash'),
                               '%s on %r (%s): compiled code crashed: %s' % (describe(f), pp, mode, c['kind']),
                               witness(f, mode, pp, None, c['kind'], {'stderr': c['stderr'][-1500:]}))
    # MIN-by-minus-one operands: one isolated process per call (several of them kill the process on the unchanged tree)
    def one_hz(idx_hc):
        idx, hc = idx_hc
        return hc, diff.run_cases(tree, d, mname, [hc], spec_extra=NO_CAP, ref=refpath, compare=cmp, tagdir='hz_%s_%d' % (mname, idx),
                                  timeout=1800, nproc=1, max_restarts=2)
    if hz_cases:
        with ThreadPoolExecutor(width(6)) as ex:
            hres = list(ex.map(one_hz, enumerate(hz_cases)))
        with st.lock:
            for hc, r3 in hres:
                f = fmap[hc['f']]
                pp = eval(hc['a'])
                st.add_hist(r3.hist)
                for ft in r3.fatal:
                    ck.inconclusive_if(True, 'driver failed for a min-by-minus1 case of %s: %s' % (mname, str(ft)[-300:]))
                if r3.fatal:
                    continue
                r3.crashes = split_hangs(ck, r3.crashes, 'min-by-minus1 ' + mname)
                if not r3.crashes and not r3.mismatches and r3.n == 0:
                    continue
                if f['op'] == 'div':
                    # the quotient does not fit the type that holds it: OverflowError or any other non-crashing outcome is
                    # accepted and recorded; killing the process is not
                    for c in r3.crashes:
                        ck.discrepancy(classify(f, mode, pp, ['ok', ['int', '?']], 'crash', hazard=True),
                                       '%s on %r: the quotient does not fit, compiled code crashed (%s)' % (describe(f), pp, c['kind']),
                                       witness(f, mode, pp, 'OverflowError or any non-crashing outcome', c['kind'],
                                               {'stderr': c['stderr'][-1500:]}))
                    if r3.crashes:
                        o = r3.crashes[0]['kind']
                    elif r3.mismatches:
                        o = 'wrapped-value' if r3.mismatches[0]['got'][0] == 'ok' else r3.mismatches[0]['got'][1]
                    else:
                        o = 'exact'
                    k = '%s:%s:%s' % (f['form'], rclass(f), o)
                    st.nofit[k] = st.nofit.get(k, 0) + 1
                    continue
                st.total_eval += 1
                exp0 = ['ok', ['int', '0']]
                for c in r3.crashes:
                    ck.discrepancy(classify(f, mode, pp, exp0, 'crash', hazard=True),
                                   '%s on %r: the remainder 0 fits, compiled code crashed (%s)' % (describe(f), pp, c['kind']),
                                   witness(f, mode, pp, exp0, c['kind'], {'stderr': c['stderr'][-1500:]}))
                for m in r3.mismatches:
                    ck.discrepancy(classify(f, mode, pp, m['exp'], m['got'], hazard=True), '%s on %r: reference %s, compiled %s' % (
                        describe(f), pp, m['exp'], m['got']), witness(f, mode, pp, m['exp'], m['got']))


def run_sweep_module(ck, st, tree, d, mode, swname, inf, swref):
    directives = {'cdivision': True} if mode == 'cdiv' else {}
    refpath = inf['src'][:-4] + '_ref.py'
    with open(refpath, 'w') as fh:
        fh.write(swref)
    ctext = open(inf['c'], encoding='utf-8', errors='replace').read()
    sw = sweep_cases(ck)
    fb = creach.function_bodies(ctext)
    unreached = set()
    with st.lock:
        for t in SMALL_SWEEP_TYPES + WIDE_SWEEP_TYPES:
            fname = ('sweep_' if t in SMALL_SWEEP_TYPES else 'sweepr_') + t
            body = '\n'.join(b for n, b in fb.items() if n.endswith(fname))
            signed = restype(t, t)[1]
            if mode == 'py' and signed:
                okr = bool(re.search(r'__Pyx_div_\w+\(', body)) and bool(re.search(r'__Pyx_mod_\w+\(', body))
            else:
                okr = ' / ' in body and ' % ' in body and '__Pyx_div_' not in body
            cell = 'sweep/%s/%s%s' % (mode, t, '' if okr else '/unreached')
            st.cells[cell] = st.cells.get(cell, 0) + sum(n for c, n in sw if c['f'] == fname)
            if not okr:
                unreached.add(fname)
                st.trivial.append('%s:%s' % (mode, fname))
    res = diff.run_cases(tree, d, swname, [c for c, _ in sw], spec_extra=NO_CAP, ref=refpath, compare={'exc_args': False, 'log': False},
                         tagdir='run_' + swname, timeout=5400)
    nmap = {(c['f'], c['a']): n for c, n in sw}
    sw_done = sum(n for _, n in sw)

    def modsrc(t):
        return '# cython: language_level=3\n' + SWEEP_HEAD + sweep_function_source(t, mode)

    with st.lock:
        truncated(ck, res, 'a C03 module run')
        st.add_hist(res.hist)
        st.samples.extend(res.samples[:1])
        for m in res.mismatches:
            t = m['case']['f'].split('_', 1)[1]
            got = m['got']
            detail, kind, opn = got, 'sweep-mismatch', '?'
            try:
                first = got[1][1][2][1][0][1]      # first tuple of the returned mismatch list
                opn = eval(first[0][1])
                detail = [eval(x[1]) for x in first]
            except Exception:
                if got[0] == 'exc':
                    kind = 'sweep-' + got[1]
            key = '%s:%s:%s:%s' % (opn, mode, kind, 'small' if t in SMALL_SWEEP_TYPES else ('s' if CT[t][2] else 'u') + str(CT[t][1]))
            ck.discrepancy(key, 'in-C sweep %s%s (%s): first mismatch (op, a, b, compiled[, oracle]) %s' % (
                m['case']['f'], m['case']['a'], mode, detail),
                {'module_source': modsrc(t), 'ext': '.pyx', 'case': m['case'], 'directives': directives, 'cflags': [],
                 'ref_source': swref, 'compare': {'log': False, 'exc_args': False}, 'expected': m['exp'], 'observed': got})
        for c in res.crashes:
            sw_done -= nmap.get((c['case']['f'], c['case']['a']), 0)
        for c in split_hangs(ck, res.crashes, swname):
            t = c['case']['f'].split('_', 1)[1]
            ck.discrepancy('?:%s:sweep-crash:%s' % (mode, t), 'in-C sweep %s%s crashed: %s' % (c['case']['f'], c['case']['a'], c['kind']),
                           {'module_source': modsrc(t), 'ext': '.pyx', 'case': c['case'], 'directives': directives,
                            'ref_source': swref, 'stderr': c['stderr'][-1500:]})
        for ft in res.fatal:
            ck.inconclusive_if(True, 'sweep driver failed (%s): %s' % (mode, str(ft)[-300:]))
        if not res.fatal:
            st.total_eval += max(0, sw_done)
            # exhaustive sweeps cover disjoint operand ranges, so their (op, a, b) triples are distinct; the
            # pseudo-random sweeps are not counted as distinct cases
            st.distinct += sum(n for c, n in sw if c['f'].startswith('sweep_') and c['f'] not in unreached)


def main(ck):
    tree = cy.Tree('C03')
    funcs = gen_functions(ck)
    fmap = {f['name']: f for f in funcs}
    per_mod = 120
    modes = ['py', 'cdiv']
    st = State()
    header = {'py': '# cython: language_level=3\n', 'cdiv': '# cython: language_level=3, cdivision=True\n'}
    mods, refs, members, modmode = {}, {}, {}, {}
    for mode in modes:
        # a constant zero divisor without a check is C undefined behaviour: not generated for cdivision
        mfuncs = [f for f in funcs if not (mode == 'cdiv' and f['form'] == 'constb' and f['c'] == 0)]
        for i in range(0, len(mfuncs), per_mod):
            name = 'c03%s%d' % (mode, i // per_mod)
            part = mfuncs[i:i + per_mod]
            mods[name] = header[mode] + '\n'.join(f['src'] for f in part)
            refs[name] = REF_PRELUDE[mode] + '\n'.join(f['ref'] for f in part)
            members[name] = part
            modmode[name] = mode
    swmods, swrefs = {}, {}
    for mode in modes:
        swsrc, swref = sweep_module(mode)
        swmods['c03sw' + mode] = header[mode] + swsrc
        swrefs['c03sw' + mode] = swref
    t0 = ck.elapsed()
    with ThreadPoolExecutor(2) as ex:
        fut1 = ex.submit(tree.build_sources, mods, subdir='b_rows', ext='.pyx')
        fut2 = ex.submit(tree.build_sources, swmods, subdir='b_sweep', ext='.pyx', opt='-O2')
        d, info = fut1.result()
        d2, info2 = fut2.result()
    ck.cov['build_wall_s'] = round(ck.elapsed() - t0, 1)
    ru = resource.getrusage(resource.RUSAGE_CHILDREN)
    ck.cov['build_cpu_s'] = round(ru.ru_utime + ru.ru_stime, 1)
    jobs = []
    for mname, part in members.items():
        inf = info[mname]
        if not inf['ok']:
            st.skipped_build += 1
            ck.note('build failure %s at %s: %s' % (mname, inf['stage'], inf['errors'][-600:]))
            continue
        jobs.append((run_row_module, (ck, st, tree, d, modmode[mname], mname, inf, part, refs[mname], fmap)))
    for mode in modes:
        swname = 'c03sw' + mode
        inf = info2[swname]
        if not inf['ok']:
            st.skipped_build += 1
            ck.note('build failure %s at %s: %s' % (swname, inf['stage'], inf['errors'][-800:]))
            continue
        jobs.append((run_sweep_module, (ck, st, tree, d2, mode, swname, inf, swrefs[swname])))
    t0 = ck.elapsed()
    with ThreadPoolExecutor(width(ck.pick(4, 3))) as ex:
        futs = [ex.submit(fn, *args) for fn, args in jobs]
        for fu in futs:
            fu.result()
    ck.cov['run_wall_s'] = round(ck.elapsed() - t0, 1)
    ru = resource.getrusage(resource.RUSAGE_CHILDREN)
    ck.cov['run_cpu_s'] = round(ru.ru_utime + ru.ru_stime - ck.cov['build_cpu_s'], 1)
    cells, trivial, hist = st.cells, st.trivial, st.hist

    # ---- reach floors: every (result type class, op, constant/non-constant, cdivision) cell observed
    need = []
    for mode in modes:
        for op in ('div', 'mod'):
            for const in ('var', 'constb', 'consta'):
                if mode == 'py':
                    pats = ['%s/py/helper:%s/%s' % (op, h, const) for h in
                            (['int', 'long', 'PY_LONG_LONG', 'Py_ssize_t'] if const == 'var' else ['long', 'PY_LONG_LONG'])]
                    pats += ['%s/py/plain:u%d/%s' % (op, b, const) for b in ((32, 64) if const == 'var' else (64,))]
                else:
                    pats = ['%s/cdiv/plain:%s%d/%s' % (op, s_, b, const) for s_ in 'su' for b in ((32, 64) if const == 'var' else (64,))]
                need += pats
        for t in SMALL_SWEEP_TYPES + WIDE_SWEEP_TYPES:
            need.append('sweep/%s/%s' % (mode, t))
    missing = [p for p in need if cells.get(p, 0) <= 0]
    ck.inconclusive_if(bool(missing), 'cells without a non-trivial observation: %s' % missing[:12])
    ck.inconclusive_if(st.skipped_build > 0, '%d module build(s) failed' % st.skipped_build)
    ck.cov['functions_without_expected_operator'] = trivial[:40]
    ck.inconclusive_if(len(trivial) > len(funcs) * 2 * 0.05,
                       '%d generated functions did not reach the division helper/operator' % len(trivial))
    return ck.finish(
        st.total_eval, st.distinct,
        'typed .pyx functions a // b, a % b (same-type, mixed-width, in-place, constant divisor, constant dividend) for every C '
        'integer type, compiled with cdivision off and on, each called on exhaustive (8-bit), boundary x boundary and seeded '
        'random operand lists and compared with Python big-int floor division (C truncation for cdivision); plus in-C sweeps '
        '(exhaustive for 8-bit, 16-bit exhaustive in the thorough tier, pseudo-random for 32/64-bit) against an independent C '
        'oracle. evaluations = operand tuples judged (one // or % each). distinct_nontrivial = distinct (function, operand tuple) '
        'whose function body in the generated C calls __Pyx_div_<T>/__Pyx_mod_<T> (signed, cdivision off) or applies the plain '
        'C operator (unsigned / cdivision on), plus the (op, a, b) triples of the exhaustive in-C sweeps; zero divisors are '
        'included only where ZeroDivisionError is demanded',
        st.samples,
        extra={'functions': len(funcs), 'function_instances_run': st.funcs_run, 'modes': modes, 'modules': len(mods) + len(swmods),
               'cells': cells, 'outcome_hist_top': dict(sorted(hist.items(), key=lambda kv: -kv[1])[:60]),
               'outside_statement_quotient_does_not_fit': st.nofit,
               'zero_division_rows': sum(v for k, v in hist.items() if k.endswith('|exc:ZeroDivisionError'))},
        assumptions=['Python big-int // and % define the floor quotient and remainder; C99 6.5.5 truncation defines cdivision',
                     'x86-64 / gcc: char is signed, long is 64 bit; generated modules built with -O0, sweep modules with -O2',
                     'operands are generated per declared result type only (no signed operand converted to unsigned), DESIGN C03 FA',
                     'MIN // -1 (quotient does not fit): OverflowError or any non-crashing outcome is accepted (recorded under '
                     'outside_statement_quotient_does_not_fit), a crash alarms; MIN % -1 == 0 is demanded; with cdivision=True '
                     'MIN / -1, MIN % -1 and a zero divisor are C undefined behaviour and are not executed'])
