"""C39 Behaviour is identical across build configurations (DESIGN.md section 5, C39).

The same case files (pygen programs, C02 constant-operand functions, the typed hostile templates) are translated
per compiler-side configuration and built per C-side configuration; every configuration runs in its own process
and dumps the outcome (deep signature) of every case; all cells must agree with the base cell."""
import json
import os
import re
import glob
import subprocess
from concurrent.futures import ThreadPoolExecutor

from vlib import core, cy, diff
from vlib.gen import hostile, pygen

NULLREF = 'def __getattr__(name):\n    def f(*a, **k):\n        return None\n    return f\n'

MACROS_ONE_AT_A_TIME = [
    'CYTHON_USE_PYLONG_INTERNALS=0', 'CYTHON_USE_UNICODE_INTERNALS=0', 'CYTHON_VECTORCALL=0', 'CYTHON_USE_PYLIST_INTERNALS=0',
    'CYTHON_AVOID_BORROWED_REFS=1', 'CYTHON_ASSUME_SAFE_MACROS=0', 'CYTHON_ASSUME_SAFE_SIZE=0', 'CYTHON_USE_TYPE_SLOTS=0',
    'CYTHON_USE_TYPE_SPECS=1', 'CYTHON_USE_DICT_VERSIONS=0', 'CYTHON_FAST_THREAD_STATE=0',
    'CYTHON_UNPACK_METHODS=0', 'CYTHON_USE_FREELISTS=0', 'CYTHON_USE_UNICODE_WRITER=0', 'CYTHON_FAST_PYCALL=0',
    'CYTHON_USE_PYTYPE_LOOKUP=0', 'CYTHON_USE_ASYNC_SLOTS=0', 'CYTHON_METH_FASTCALL=0', 'CYTHON_FAST_GIL=0']
ALL_OFF = ['CYTHON_USE_PYLONG_INTERNALS=0', 'CYTHON_USE_UNICODE_INTERNALS=0', 'CYTHON_USE_PYLIST_INTERNALS=0',
           'CYTHON_AVOID_BORROWED_REFS=1', 'CYTHON_ASSUME_SAFE_MACROS=0', 'CYTHON_ASSUME_SAFE_SIZE=0', 'CYTHON_USE_TYPE_SLOTS=0',
           'CYTHON_USE_DICT_VERSIONS=0', 'CYTHON_FAST_THREAD_STATE=0', 'CYTHON_UNPACK_METHODS=0',
           'CYTHON_USE_FREELISTS=0', 'CYTHON_FAST_PYCALL=0', 'CYTHON_USE_PYTYPE_LOOKUP=0']
# CYTHON_USE_EXC_INFO_STACK=0 is not a configuration of CPython >= 3.7 (tstate->exc_type no longer exists: it does not
# compile alone and crashes when forced together with CYTHON_FAST_THREAD_STATE=0); it is not a cell.
DIRECTIVES = [('binding', False), ('optimize.use_switch', False), ('optimize.unpack_method_calls', False),
              ('optimize.inline_defnode_calls', False), ('always_allow_keywords', False), ('auto_pickle', False)]


def cells_for(ck):
    base = {'name': 'base', 'cc': 'gcc', 'opt': '-O0', 'cflags': [], 'cplus': False, 'directives': {}}
    def cell(name, **kw):
        c = dict(base)
        c.update(kw)
        c['name'] = name
        return c
    quick = [base, cell('clang', cc='clang'), cell('cxx', cplus=True, cc='g++'), cell('O2', opt='-O2'),
             cell('no-pylong-internals', cflags=['-DCYTHON_USE_PYLONG_INTERNALS=0']),
             cell('all-internals-off', cflags=['-D' + m for m in ALL_OFF]),
             cell('limited-api', cflags=['-DCYTHON_LIMITED_API=1', '-DPy_LIMITED_API=0x030C0000']),
             cell('compress-strings-0', cflags=['-DCYTHON_COMPRESS_STRINGS=0']),
             cell('binding-off', directives={'binding': False}),
             cell('no-switch-no-unpack', directives={'optimize.use_switch': False, 'optimize.unpack_method_calls': False,
                                                     'optimize.inline_defnode_calls': False})]
    if ck.quick:
        return quick
    full = list(quick) + [cell('O1', opt='-O1'), cell('O3', opt='-O3'), cell('clang-O2', cc='clang', opt='-O2'),
                          cell('cxx-O2', cplus=True, cc='g++', opt='-O2')]
    for m in MACROS_ONE_AT_A_TIME:
        if m != 'CYTHON_USE_PYLONG_INTERNALS=0':
            full.append(cell(m.lower().replace('cython_', '').replace('=', '-'), cflags=['-D' + m]))
    for v in (1, 2, 90):
        full.append(cell('compress-strings-%d' % v, cflags=['-DCYTHON_COMPRESS_STRINGS=%d' % v]))
    for k, v in DIRECTIVES:
        full.append(cell('directive-%s-%s' % (k, v), directives={k: v}))
    rng = ck.rng('pairs')
    for i in range(8):
        ms = rng.sample(MACROS_ONE_AT_A_TIME, 3)
        full.append(cell('random-combo-%d' % i, cflags=['-D' + m for m in ms], opt=rng.choice(['-O0', '-O2']),
                         cc=rng.choice(['gcc', 'clang'])))
    seen, out = set(), []
    for c in full:
        if c['name'] not in seen:
            seen.add(c['name'])
            out.append(c)
    return out


def typed_object_arith(ck, rng):
    """binary operators and comparisons on parameters annotated with builtin Python types (float/int/str/bytes/list/tuple):
    the compiler selects type-specific object helpers (PyNumberBinop float-op-int, unicode concatenation/equality, ...) whose
    bodies depend on CYTHON_USE_PYLONG_INTERNALS / CYTHON_ASSUME_SAFE_MACROS / the Limited API"""
    from vlib import values
    pools = {
        'float': ['0.0', '-0.0', '1.5', '-2.25', '1e308', '5e-324', 'inf', '-inf', 'nan', '9007199254740993.0', '-1.0'],
        'int': ['0', '1', '-1', '7', '2**30', '-2**30', '2**31', '2**53 + 1', '-2**63', '2**64', '10**30', '-10**30', '2**1024'],
        'str': ["''", "'a'", "'ab'", "'\\xe9'", "'\\u20ac'", "'\\U0001f600'"],
        'bytes': ["b''", "b'a'", "b'ab\\x00'"],
        'list': ['[]', '[1]', '[1, 2]'],
        'tuple': ['()', '(1,)', '(1, 2)'],
    }
    num_ops = ['+', '-', '*', '/', '//', '%', '**', '==', '!=', '<', '>=']
    seq_ops = ['+', '*', '==', '!=', '<']
    funcs, cases = [], []
    n = 0
    for t1, t2, ops in [('float', 'int', num_ops), ('int', 'float', num_ops), ('float', 'float', num_ops), ('int', 'int', num_ops),
                        ('str', 'str', ['+', '==', '!=', '<', 'in']), ('bytes', 'bytes', ['+', '==', '!=', 'in']),
                        ('str', 'int', ['*']), ('list', 'int', ['*']), ('list', 'list', seq_ops[:1] + seq_ops[2:]),
                        ('tuple', 'tuple', seq_ops[:1] + seq_ops[2:]), ('tuple', 'int', ['*'])]:
        for op in ops:
            for form in ('ret', 'aug'):
                if form == 'aug' and op in ('==', '!=', '<', '>=', 'in'):
                    continue
                name = 'tz%dz' % n
                n += 1
                body = 'return a %s b' % op if form == 'ret' else 'a %s= b\n    return a' % op
                funcs.append('def %s(a: %s, b: %s):\n    %s\n' % (name, t1, t2, body))
                pa, pb = pools[t1], pools[t2]
                if op in ('*', '**') and t2 == 'int':
                    pb = [x for x in pb if x in ('0', '1', '-1', '7')] + (['2'] if t1 in ('float', 'int') else [])
                if op == '**' and t1 == 'int':
                    pa = [x for x in pa if '1024' not in x and '10**30' not in x]
                # the zero / unit corner (signed zeros, 0, 1, -1, empty) is always driven; the rest is sampled
                core = [(x, y) for x in pa[:3] for y in pb[:3]]
                pairs = [(x, y) for x in pa for y in pb if (x, y) not in core]
                if len(pairs) > ck.pick(30, 90):
                    pairs = rng.sample(pairs, ck.pick(30, 90))
                pairs = core + pairs
                for x, y in pairs:
                    cases.append({'f': name, 'a': '(%s, %s,)' % (x, y), 't': 'typedobj:%s%s%s' % (t1, op, t2)})
    return ('c39tobj', '# cython: language_level=3\n' + '\n'.join(funcs), '.py', cases)


def workloads(ck):
    rng = ck.rng('w')
    W = []
    for i in range(ck.pick(2, 5)):
        src, funcs = pygen.gen_module(rng, ck.pick(30, 40))
        cases = []
        for f in funcs:
            for a in pygen.gen_args(rng, f['param_kinds'], ck.pick(8, 12)):
                cases.append({'f': f['name'], 'a': a, 't': 'pygen'})
        W.append(('c39py%d' % i, src, '.py', cases))
    from props import C36
    src, cases = C36.c02_sample(ck, ck.pick(40, 250))
    W.append(('c39arith', src, '.py', cases))
    W.append(typed_object_arith(ck, rng))
    hc = hostile.cases(rng)
    byf = {}
    for c in hc:
        byf.setdefault(c['f'], []).append(c)
    hc = []
    byf.pop('mv_uninit', None)
    # recursion depth accounting legitimately differs between call paths (binding on/off): only shallow recursion here
    byf['recurse'] = [c for c in byf.get('recurse', []) if c['a'] in ('(0,)', '(10,)', '(300,)')]
    for f, cs in byf.items():
        # the uninitialised / out-of-bounds probes raise in every configuration; garbage is never produced by these templates
        hc.extend(cs if len(cs) <= ck.pick(25, 80) else rng.sample(cs, ck.pick(25, 80)))
    W.append(('c39host', hostile.PYX, '.pyx', hc))
    for w in W:
        for i, c in enumerate(w[3]):
            c['id'] = i
    return W


def macro_values(cfile, cc, cflags, names):
    try:
        r = subprocess.run([cc if cc != 'g++' else 'g++', '-E', '-dM', '-w', '-I' + cy.PY_INC] + list(cflags) + [cfile],
                           capture_output=True, text=True, timeout=120)
    except Exception:
        return {}
    vals = {}
    for ln in r.stdout.splitlines():
        m = re.match(r'#define (\w+) (.*)$', ln)
        if m and m.group(1) in names:
            vals[m.group(1)] = m.group(2).strip()
    return vals


def main(ck):
    tree = cy.Tree('C39')
    cells = cells_for(ck)
    W = workloads(ck)
    nullref = os.path.join(tree.work, 'nullref.py')
    open(nullref, 'w').write(NULLREF)
    # ---- translate once per compiler-side configuration
    tkeys = {}
    for c in cells:
        tk = json.dumps([c['cplus'], sorted(c['directives'].items())])
        tkeys.setdefault(tk, []).append(c)
    tinfo = {}   # tk -> {mod: c path or None}
    for ti, (tk, cs) in enumerate(tkeys.items()):
        c0 = cs[0]
        d = tree.subdir('t%d' % ti)
        jobs = []
        for name, src, ext, cases in W:
            p = os.path.join(d, name + ext)
            open(p, 'w', encoding='utf-8').write(src)
            jobs.append({'src': p, 'cplus': c0['cplus'], 'directives': c0['directives']})
        res, _ = tree.translate(jobs)
        tinfo[tk] = {w[0]: (r['c'] if r['ok'] else None, (r.get('exc') or '') + (r.get('errors') or '')) for w, r in zip(W, res)}
    # ---- build per cell
    builds = []
    for ci, c in enumerate(cells):
        tk = json.dumps([c['cplus'], sorted(c['directives'].items())])
        d = tree.subdir('cell%d' % ci)
        c['dir'] = d
        c['mods'] = {}
        for name, src, ext, cases in W:
            cpath, err = tinfo[tk][name]
            if not cpath:
                c['mods'][name] = ('translate-failed', err[-300:])
                continue
            dst = os.path.join(d, os.path.basename(cpath))
            with open(cpath, 'rb') as f, open(dst, 'wb') as g:
                g.write(f.read())
            builds.append((c, name, dst))

    def build(b):
        c, name, dst = b
        r = tree.cbuild(dst, cc=c['cc'], cflags=c['cflags'], cplus=c['cplus'], opt=c['opt'], timeout=1500)
        c['mods'][name] = ('ok', None) if r['ok'] else ('cc-failed', r['err'][-300:])
    with ThreadPoolExecutor(core.NCPU) as ex:
        list(ex.map(build, builds))
    # macro verification from the preprocessed C
    overridden = {}
    for c in cells:
        want = {}
        for fl in c['cflags']:
            m = re.match(r'-D(CYTHON_\w+)=(\w+)', fl)
            if m:
                want[m.group(1)] = m.group(2)
        if want:
            anyc = next((os.path.join(c['dir'], n + ('.cpp' if c['cplus'] else '.c')) for n, st in c['mods'].items() if st[0] == 'ok'), None)
            if anyc:
                got = macro_values(anyc, c['cc'], c['cflags'], set(want))
                bad = {k: (v, got.get(k)) for k, v in want.items() if got.get(k) not in (v, '(%s)' % v)}
                if bad:
                    overridden[c['name']] = bad
    # ---- run every cell (own process per module run) and collect outcome vectors
    outcomes = {}   # (cell, mod) -> {id: outcome}
    crashes = []
    runs = []
    for c in cells:
        for name, src, ext, cases in W:
            if c['mods'].get(name, ('?',))[0] == 'ok':
                runs.append((c, name, cases))

    def run(job):
        c, name, cases = job
        dump = os.path.join(c['dir'], 'dump_' + name)
        res = diff.run_cases(tree, c['dir'], name, cases, ref=nullref, compare={'log': True}, setup=hostile.SETUP,
                             tagdir='run_%s_%s' % (c['name'], name), nproc=2, timeout=1200,
                             spec_extra={'max_mismatch_records': 0, 'dump_outcomes': dump, 'skip_ref': True, 'recursionlimit': 350})
        got = {}
        for p in glob.glob(dump + '.*'):
            for ln in open(p):
                try:
                    i, o = json.loads(ln)
                    got[i] = o
                except ValueError:
                    pass
        return c['name'], name, got, res
    with ThreadPoolExecutor(max(2, core.NCPU // 2)) as ex:
        for cname, name, got, res in ex.map(run, runs):
            outcomes[(cname, name)] = got
            for cr in res.crashes:
                crashes.append((cname, name, cr))
            for ft in res.fatal:
                ck.note('driver failure in cell %s module %s: %s' % (cname, name, str(ft)[-200:]))
    # ---- compare with the base cell
    total = 0
    distinct = set()
    per_cell = {}
    samples = []
    wsrc = {w[0]: w for w in W}
    for c in cells:
        n_cmp = n_diff = 0
        for name, src, ext, cases in W:
            base = outcomes.get(('base', name))
            got = outcomes.get((c['name'], name))
            if base is None or got is None:
                continue
            bycase = {cs['id']: cs for cs in cases}
            for i, o in got.items():
                total += 1
                if c['name'] == 'base':
                    distinct.add((name, i))
                    continue
                if i not in base:
                    continue
                n_cmp += 1
                if o != base[i]:
                    n_diff += 1
                    cs = bycase.get(i, {})
                    fn = cs.get('f', '?')
                    fkey = 'generated' if re.match(r'fz\d+z', fn) else fn
                    oc = lambda x: x[0] + ':' + (x[1][0] if x[0] == 'ok' else str(x[1]))
                    key = 'cell=%s:%s:%s:%s->%s' % (c['name'], name.rstrip('0123456789'), fkey, oc(base[i]), oc(o))
                    if re.match(r'(to_\w+|obj_to_int|chr_\w+)$', fn) and re.search(r'Idx|IntOnly|F\(|\d\.\d|inf|nan|\'', cs.get('a', '')):
                        # C-integer conversion of an object that is not an int instance: which protocol is consulted
                        # (nb_int / nb_index / PyNumber_Long) depends on the type-slots configuration (see C05)
                        key = 'cint-conversion-of-non-int-object:cell=%s' % c['name']
                    ck.discrepancy(key,
                                   'case %s%s differs between base and %s: %s vs %s' % (fn, cs.get('a'), c['name'], str(base[i])[:160], str(o)[:160]),
                                   {'cell': {k: c[k] for k in ('name', 'cc', 'opt', 'cflags', 'cplus', 'directives')}, 'module_source': src,
                                    'module_name': name, 'ext': ext, 'case': cs, 'base_outcome': base[i], 'cell_outcome': o,
                                    'cflags': c['cflags'], 'directives': c['directives'], 'cplus': c['cplus']})
        per_cell[c['name']] = {'cases_compared': n_cmp, 'differences': n_diff,
                               'modules': {k: v[0] for k, v in c['mods'].items()},
                               'macro_overridden': overridden.get(c['name'])}
        if len(samples) < 4 and c['name'] != 'base' and n_cmp:
            samples.append({'cell': c['name'], 'cflags': c['cflags'], 'directives': c['directives'], 'cc': c['cc'], 'opt': c['opt'],
                            'cases_compared': n_cmp})
    for cname, name, cr in crashes:
        fn = cr['case'].get('f', '?')
        fkey = 'generated' if re.match(r'fz\d+z', fn) else fn
        ck.discrepancy('crash:cell=%s:%s' % (cname, fkey), 'crash/hang %s in cell %s on %s%s' % (cr['kind'], cname, fn, cr['case'].get('a')),
                       {'cell': cname, 'module_name': name, 'case': cr['case'], 'stderr': cr['stderr'][-2000:], 'module_source': wsrc[name][1],
                        'ext': wsrc[name][2]})
    # a generated program that the compiler rejects or crashes on (C43's subject) is dropped from the workload and counted
    untranslatable = sorted(n for n, v in cells[0]['mods'].items() if v[0] == 'translate-failed' and n.startswith('c39py'))
    ck.cov['generated_modules_dropped_untranslatable'] = {n: cells[0]['mods'][n][1][-200:] for n in untranslatable}
    npy = sum(1 for w in W if w[0].startswith('c39py'))
    ck.inconclusive_if(len(untranslatable) * 4 > npy, 'more than a quarter of the generated modules did not translate: %s' % untranslatable)
    base_ok = all(v[0] == 'ok' for n, v in cells[0]['mods'].items() if n not in untranslatable)
    ck.inconclusive_if(not base_ok, 'base cell failed to build: %s' % cells[0]['mods'])
    exercised = [n for n, v in per_cell.items() if n != 'base' and v['cases_compared'] > 0]
    not_ex = {n: v['modules'] for n, v in per_cell.items() if n != 'base' and any(s != 'ok' for s in v['modules'].values())}
    ck.inconclusive_if(len(exercised) < ck.pick(7, 30), 'fewer configuration cells exercised than the floor: %s' % exercised)
    ck.cov['cells_with_unbuildable_modules'] = not_ex
    return ck.finish(
        total, len(distinct),
        'case files = pygen programs + C02 constant-operand functions + typed hostile templates; each configuration cell '
        '(C compiler, C++, -O level, one CYTHON_* feature macro at a time, all internals off, Limited API, string compression, '
        'semantics-neutral directives) is translated/built separately, runs in its own process and dumps the deep signature of every '
        'case; every cell must equal the base cell case by case. distinct = distinct cases in the base vector',
        samples,
        extra={'cells': per_cell, 'cells_exercised': len(exercised), 'workload_modules': [w[0] for w in W],
               'cases_per_module': {w[0]: len(w[3]) for w in W}},
        assumptions=['only configurations buildable here: CPython 3.12.1, x86-64 Linux, gcc 12/clang 14; PyPy, free-threading, '
                     '32-bit and MSVC branches are out of reach',
                     'modules that a cell cannot build (e.g. memoryview code under the Limited API) are reported as not exercised '
                     'for that cell, never as agreement'])
