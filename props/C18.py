"""C18 String formatting produces exactly CPython's text (DESIGN.md section 5, C18).

Families: (a) f-strings over generated format specs / conversions / nested fields / `=` / adjacent literals on Python
operands; (b) `'...' % (args,)` with literal templates (flags, width, precision, `*`, `%%`, mapping keys, non-tuple
right operand); (c) .pyx functions with C-typed operands (every C integer type, double/float, Py_UCS4, bint) in
f-strings, str(), repr(), format(), %-formatting - compared with the same expression on the Python value; (d) str.join
and concatenation shapes. Oracle: CPython executing the same source: identical text, same exception type."""
import os
import re

from vlib import core, cy, diff, values
from vlib.gen import fmtgen
from props import C24_gcov as gcovreach

SETUP = r'''
from decimal import Decimal
from fractions import Fraction

class IFmt(int):
    def __format__(self, spec): return 'IFmt<%s>' % spec
    def __str__(self): return 'IFmt.str'
    def __repr__(self): return 'IFmt.repr'

class FStr(float):
    def __str__(self): return 'FStr.str'
    def __repr__(self): return 'FStr.repr'

class SFmt(str):
    def __format__(self, spec): return 'SFmt<%s>' % spec
    def __str__(self): return 'SFmt.str'

class Fmt:
    def __format__(self, spec): return 'Fmt<%s>' % spec
    def __repr__(self): return 'Fmt.repr é'
    def __vsig__(self): return 'Fmt'

class FmtNonStr:
    def __format__(self, spec): return 42
    def __repr__(self): return 'FmtNonStr.repr'
    def __vsig__(self): return 'FmtNonStr'

class FmtRaises:
    def __format__(self, spec): raise KeyError('fmt')
    def __str__(self): raise IndexError('str')
    def __repr__(self): raise LookupError('repr')
    def __vsig__(self): return 'FmtRaises'

class StrNonStr:
    def __str__(self): return 5
    def __repr__(self): return b'x'
    def __vsig__(self): return 'StrNonStr'

class StrSub:
    def __str__(self): return S('subclass-result')
    def __repr__(self): return S('r€')
    def __vsig__(self): return 'StrSub'

class IntLike:
    def __init__(self, v): self.v = v
    def __int__(self): return self.v
    def __index__(self): return self.v
    def __float__(self): return float(self.v)
    def __vsig__(self): return ('IntLike', self.v)
'''

PY_INTS = ['0', '1', '-1', '7', '-42', '255', '65536', '10**12', '-10**15', '2**63', '-2**64', '2**100', 'True', 'False',
           'I(5)', 'IFmt(5)', '1114111', '97', '-255', '1000000']
PY_FLOATS = ['0.0', '-0.0', '1.5', '-2.75', '1e10', '1e-7', '123456789.123', 'inf', '-inf', 'nan', '1e300', 'F(2.5)',
             'FStr(2.5)', '3.0', '0.1', '1234.5678', '-0.0001', '5e-324', '1e16', '2.5', '0.5', '1e22', '9.995']
PY_STRS = ["''", "'a'", "'abc'", "'\\xe9'", "'\\u20acuro'", "'\\U0001f600x'", "'a' * 30", "S('sub')", "SFmt('sf')",
           '"q\'uote"', "'new\\nline'", "'\\x00'"]
PY_OBJS = ['Fmt()', 'FmtNonStr()', 'FmtRaises()', 'StrNonStr()', 'StrSub()', 'None', "(1, 'a')", '[1.5]', "b'by'", '2+3j',
           "Decimal('1.50')", 'Fraction(1, 3)', "{'k': 1}", 'Ellipsis', 'int']
POOL = {'int': PY_INTS, 'float': PY_FLOATS, 'str': PY_STRS, 'obj': PY_OBJS}


def value_class(expr):
    try:
        v = eval(expr, dict(vars(values), Decimal=float))
    except Exception:
        return expr.split('(')[0][:12]
    if isinstance(v, bool):
        return 'bool'
    if isinstance(v, int):
        return ('intsub' if type(v) is not int else 'int') + (':neg' if v < 0 else ':zero' if v == 0 else ':big' if v >= 2 ** 63 else ':pos')
    if isinstance(v, float):
        return 'float:' + ('nan' if v != v else 'inf' if v in (values.inf, -values.inf) else 'zero' if v == 0 else 'finite')
    if isinstance(v, str):
        return 'str:' + ('empty' if not v else 'ascii' if v.isascii() else 'nonascii')
    return type(v).__name__


def fstring_cases(rng, fn, quick):
    kind = fn['optype']
    xs = list(POOL[kind])
    other = [e for k, p in POOL.items() if k != kind for e in p]
    xs += rng.sample(other, 5 if quick else 14)
    cases = []
    for x in xs:
        ws = ['0'] + rng.sample(['3', '10', 'I(6)', "'4'", '-1', '25'], 1 if '{w}' not in fn['src'] else 3)
        for w in ws[:1] if '{w}' not in fn['src'] and '{p}' not in fn['src'] else ws:
            p = rng.choice(['0', '2', '5'])
            y = rng.choice(["'y'", '12', '2.5', 'None'])
            cases.append({'f': fn['name'], 'a': '(%s, %s, %s, %s)' % (x, y, w, p),
                          't': 'fstring/%s/%s' % (kind, fn['cls']), 'vc': value_class(x)})
    return cases


PCT_VALUES = {
    's': PY_STRS[:6] + ['5', '2.5', 'None', 'Fmt()', 'FmtRaises()', "b'x'", '(1, 2)', 'StrNonStr()', 'StrSub()'],
    'd': ['0', '5', '-42', '2**70', 'True', '3.7', '-0.5', "Decimal('7.9')", "'3'", 'None', 'IntLike(6)', 'Idx(4)', 'I(5)', 'IFmt(5)', 'nan', 'inf', 'IntOnly(3)'],
    'x': ['0', '255', '-255', '2**70', 'True', '3.0', "'3'", 'Idx(10)', 'IntLike(11)', 'I(12)'],
    'f': ['0.0', '1.5', '-2.75', '1e10', 'inf', 'nan', '3', '-7', "Decimal('1.25')", "'1.0'", 'None', 'F(2.5)', 'FloatLike(1.5)', '-0.0', '1e300'],
    'c': ['97', "'a'", "'\\u20ac'", '8364', '0', '-1', '1114112', "'ab'", '1.0', 'Idx(98)', 'True'],
    '*': ['0', '5', '-6', '12', "'3'", '2.0'],
}
PCT_VALUES['r'] = PCT_VALUES['a'] = PCT_VALUES['s']
PCT_VALUES['i'] = PCT_VALUES['u'] = PCT_VALUES['d']
PCT_VALUES['X'] = PCT_VALUES['o'] = PCT_VALUES['x']
PCT_VALUES['e'] = PCT_VALUES['g'] = PCT_VALUES['f']


def pct_cases(rng, fn, quick):
    cases = []
    tmpl = fn['tmpl']
    # argument kinds in order: '*' entries for star width/precision, then the field type
    kinds = []
    for m in re.finditer(r'%(?:\(\w+\))?[-0 +#]*(\*|\d+)?(?:\.(\*|\d+))?([a-zA-Z%])', tmpl):
        if m.group(3) == '%' and m.group(0) == '%%':
            continue
        if m.group(1) == '*':
            kinds.append('*')
        if m.group(2) == '*':
            kinds.append('*')
        kinds.append(m.group(3))
    nargs = fn['nargs']
    n = 14 if quick else 40
    for _ in range(n):
        args = [rng.choice(PCT_VALUES.get(kinds[j] if j < len(kinds) else 's', PCT_VALUES['s'])) for j in range(nargs)]
        cases.append({'f': fn['name'], 'a': '(%s,)' % ', '.join(args), 't': '%s/%s' % (fn['family'], fn['cls']),
                      'vc': '/'.join(value_class(a) for a in args[:2])})
    if '% a0\n' in fn['src']:
        for a in ['(1,)', '(1, 2)', "('a',)", '()', "{'k': 1}", '[1]', 'T((5,))']:
            cases.append({'f': fn['name'], 'a': '(%s,)' % a, 't': 'percent-nontuple/%s' % fn['cls'], 'vc': 'container'})
    return cases


FLOAT32 = ['0.0', '-0.0', '0.5', '1.5', '-2.25', '1024.0', '3.0', 'inf', '-inf', 'nan', '0.15625', '1e10', '-65504.0']
UCS4 = ["'a'", "'\\xe9'", "'\\u20ac'", "'\\U0001f600'", "'\\x00'", "' '", "'\\ud800'", "'Z'"]


def ctyped_cases(rng, fn, quick):
    ct = fn['optype']
    if fn['kind'] == 'cint':
        lo, hi = fmtgen.C_RANGES[ct]
        vs = {lo, hi, lo + 1, hi - 1, 0, 1, 9, 10, 99, 100, 127, 7, 64, 65}
        if lo < 0:
            vs |= {-1, -9, -10, -100, -128, -7}
        for c in (255, 256, 8364, 128512, 1114111, 1114112, 55296, 65535, 65536, 4096, 1000000, 2 ** 31, -2 ** 31 - 1):
            vs.add(c)
        for _ in range(4 if quick else 14):
            vs.add(rng.randint(lo, hi))
            b = rng.randint(1, max(1, hi.bit_length()))
            vs.add(rng.randint(0, min(hi, 2 ** b)))
        vals = [repr(v) for v in sorted(v for v in vs if lo <= v <= hi)]
        if quick and len(vals) > 24:
            keep = set(vals[:3] + vals[-3:]) | set(rng.sample(vals, 18))
            vals = [v for v in vals if v in keep]
    elif fn['kind'] == 'cdouble':
        vals = FLOAT32 if ct == 'float' else values.SPECIAL_FLOATS + ['1234.5678', '0.1', '-1e-7', '123456789012345680.0', '9.995', '2.675']
    elif fn['kind'] == 'cucs4':
        vals = UCS4
    else:
        vals = ['True', 'False']
    cases = []
    for v in vals:
        y = rng.choice(vals)
        cases.append({'f': fn['name'], 'a': '(%s, %s)' % (v, y), 't': '%s/%s/%s' % (fn['family'], ct, fn['cls']),
                      'vc': value_class(v)})
    return cases


RSTR = ["'a'", "'h\\xe9\\'llo'", "''", "'\\u20acuro'", "'q\"uo\\'te'", "'new\\nline'", "'\\U0001f600x'", "'back\\\\sl'", "'plain text'"]
RBYTES = ["b''", "b'x\\xff'", "b'q\\'uote'", "b'abc'", "b'\\x00\\n'"]
RSEQ = ["'a', 1", "'h\\xe9', '\\u20ac'", "", "1.5, None, b'x'", "Fmt(),", "'q\\'', ('\\U0001f600',)", "True, -0.0"]
RDICT = ["{'k': 'h\\xe9'}", "{}", "{1: [2], '\\u20ac': None}", "{'a': Fmt()}", "{(1, 2): 'q\\'\"'}"]
RANY = RSTR[:6] + ['5', '-2.5', 'None', 'Fmt()', 'StrSub()', "S('s\\xe9')", "SFmt('sf')", 'IFmt(5)', 'FStr(2.5)', "b'\\xff'", "['\\xe9']",
                   'FmtRaises()', 'StrNonStr()', "Decimal('1.50')", 'True', '0', "''"]
REPEAT_VALUES = {
    'str': RSTR, 'cdef-str': RSTR, 'py-annot-str': RSTR, 'bytes': RBYTES,
    'list': ['[%s]' % e for e in RSEQ], 'tuple': ['(%s)' % e for e in RSEQ], 'dict': RDICT,
    'ucs4': UCS4 + ["'\\''", "'\\n'"], 'cint': ['0', '-1', '7', '-42', '255', '65536', '2147483647', '-2147483648'],
    'clong': ['0', '-1', '9', '-100', '2**63-1', '-2**63', '10**12'],
    'cdouble': ['0.0', '-0.0', '1.5', '1e10', 'inf', '-inf', 'nan', '-2.75', '1e16', '0.1', '1e-7'], 'cbint': ['True', 'False'],
}


def repeat_cases(rng, fn, quick):
    """every occurrence of a name must format the value on its own terms: values whose str / repr / ascii texts all differ"""
    vals = REPEAT_VALUES.get(fn['kind'], RANY)
    n = min(len(vals), 7 if quick else 16)
    cases = []
    for x in rng.sample(vals, n):
        y = rng.choice(vals)
        cases.append({'f': fn['name'], 'a': '(%s, %s)' % (x, y), 't': 'repeat/%s/%s' % (fn['kind'], fn['cls']), 'vc': value_class(x)})
    return cases


JOIN_INPUTS = [("['a', 'b', 'c']", "'-'", "'x'"), ("[]", "''", "'y'"), ("['\\xe9', '\\u20ac', '\\U0001f600']", "'\\u20ac'", "'z'"),
               ("['a']", "'sep'", "''"), ("['a', 'b'] * 40", "', '", "'q'"), ("['', '', '']", "'\\xe9'", "'\\U0001f600'"),
               ("['a', 1]", "'-'", "'x'"), ("['a', b'b']", "'-'", "'x'"), ("['a', None]", "''", "'x'"),
               ("['ab', '\\x00']", "'\\x00'", "'x'")]
JOIN_INPUTS_SUB = [("[S('a'), 'b']", "S('-')", "'x'"), ("L(['a', 'b'])", "'-'", "S('x')"), ("('a', 'b')", "'-'", "'x'"),
                   ("gen_list(0)", "'-'", "'x'"), ("['a', SFmt('b')]", "SFmt('+')", "SFmt('c')"), ("'abc'", "'.'", "'x'"),
                   ("[1, 2]", "'-'", "'x'"), ("None", "'-'", "'x'"), ("['a', 'b']", "b'-'", "'x'"), ("['a', 'b']", "None", "'x'")]


PCT_GROUP = {'x': 'xoX', 'X': 'xoX', 'o': 'xoX', 'f': 'f', 's': 'sra', 'r': 'sra', 'a': 'sra', 'd': 'd', 'i': 'd', 'u': 'd',
             'e': 'eg', 'g': 'eg', 'c': 'c'}


def coarse_kind(expr):
    if expr.startswith(('Decimal', 'Fraction')):
        return 'obj'
    vc = value_class(expr)
    if vc.startswith(('int', 'bool')):
        return 'int'
    if vc.startswith('float'):
        return 'float'
    if vc.startswith('str'):
        return 'str'
    return 'obj'


def classify(fn, case, exp, got):
    """mechanism key: family, structural class of the spec/template, operand class, outcome classes"""
    def oc(o):
        return 'text' if o[0] == 'ok' and o[1][0] == 'str' else ('value:' + o[1][0] if o[0] == 'ok' else o[1])
    e, g = oc(exp), oc(got)
    if e == g == 'text':
        g = 'other-text'
    fam = fn['family']
    if fam == 'repeat':
        # operand kind (how the name got its type) x f-string / %-template x which parts differ between occurrences of a name
        return 'fmt:repeat:%s:%s:%s->%s' % (fn['kind'], fn['cls'], e, g)
    if fam.startswith('percent'):
        tmpl = fn['tmpl']
        groups = sorted({PCT_GROUP.get(t, t) for t in fn['types']})
        feats = []
        if re.search(r'%[-0 +#]*\d+(?:\.\d+)?[sra]', tmpl) or re.search(r'%[ +#0]*\.\d+[sra]', tmpl) and re.search(r'%\d', tmpl):
            feats.append('strwidth')
        if re.search(r'%[ +#]*(?:-[ +#]*0|0[ +#]*-)', tmpl):
            feats.append('minuszero')
        if re.search(r'%[-0+#]* [-0 +#]*\d*(?:\.\d+)?[sra]', tmpl):
            feats.append('spaceflag-str')
        kinds = sorted({coarse_kind(a.strip()) for a in re.split(r',\s*(?![^()]*\))', case['a'].strip()[1:-1]) if a.strip()})
        return 'fmt:%s:%s:%s:%s:%s->%s' % (fam, '+'.join(groups), '+'.join(feats) or '-', '+'.join(kinds), e, g)
    if fam == 'ctyped-fstring-conv' and fn.get('spec'):
        # !s / !r / !a together with a format spec on a C-typed operand
        return 'fmt:ctyped-conversion-with-spec:%s:%s->%s' % (fn['kind'], e, g)
    if fam.startswith('ctyped'):
        neg = 'neg' if re.search(r'\(-|, -', case['a']) else 'nonneg'
        return 'fmt:%s:%s:%s:%s:%s->%s' % (fam, fn['kind'], fn['cls'].split(':', 1)[1], neg, e, g)
    return 'fmt:%s:%s:%s:%s:%s->%s' % (fam, fn['optype'], fn['cls'], case.get('vc', '?'), e, g)


def main(ck):
    tree = cy.Tree('C18')
    rng = ck.rng('gen')
    q = ck.quick
    fns = []
    fns += fmtgen.fstring_functions(rng, ck.pick(70, 900), len(fns))
    fns += fmtgen.pct_functions(rng, ck.pick(70, 900), len(fns))
    fns += fmtgen.mapping_pct_functions(rng, ck.pick(8, 60), len(fns))
    fns += fmtgen.ctyped_functions(rng, ck.pick(150, 1800), len(fns))
    fns += fmtgen.join_functions(len(fns))
    fns += fmtgen.repeat_functions(rng, ck.pick(60, 640), len(fns))
    byname = {f['name']: f for f in fns}
    cases_by_fn = {}
    for f in fns:
        if f['family'] == 'fstring':
            cs = fstring_cases(rng, f, q)
        elif f['family'] == 'repeat':
            cs = repeat_cases(rng, f, q)
        elif f['family'].startswith('percent'):
            cs = pct_cases(rng, f, q)
        elif f['family'].startswith('ctyped'):
            cs = ctyped_cases(rng, f, q)
        else:
            ins = JOIN_INPUTS + ([] if f['pyx'] else JOIN_INPUTS_SUB)
            cs = [{'f': f['name'], 'a': '(%s, %s, %s)' % t, 't': 'join/%s' % f['cls'], 'vc': 'join'} for t in ins]
        cases_by_fn[f['name']] = cs
    # modules: python-syntax functions in .py modules, C-typed ones in .pyx modules (reference: the untyped text)
    per_mod = ck.pick(100, 300)
    header = '# cython: language_level=3\n'
    jobs, meta = [], []
    d = tree.subdir('b')
    for typed in (False, True):
        fl = [f for f in fns if bool(f['pyx']) == typed]
        for gi in range(0, len(fl), per_mod):
            chunk = fl[gi:gi + per_mod]
            name = 'c18%s%d' % ('x' if typed else 'p', gi // per_mod)
            path = os.path.join(d, name + ('.pyx' if typed else '.py'))
            with open(path, 'w', encoding='utf-8') as fh:
                fh.write(header + '\n'.join(f['pyx'] if typed else f['src'] for f in chunk))
            refpath = path
            if typed:
                refpath = os.path.join(d, name + '_ref.py')
                with open(refpath, 'w', encoding='utf-8') as fh:
                    fh.write(header + '\n'.join(f['src'] for f in chunk))
            jobs.append({'src': path})
            meta.append((name, chunk, path, refpath, typed))
    tres, plug = tree.translate(jobs, nworkers=min(core.NCPU, ck.pick(4, 8)), plugins=['vlib.mon.nodehist'],
                                timeout=ck.pick(1800, 3600))
    nodes = {}
    for p in plug:
        for k, v in ((p.get('vlib.mon.nodehist') or {}).get('final') or {}).items():
            nodes[k] = nodes.get(k, 0) + v
    skipped = 0
    items, okmeta = [], []
    for (name, chunk, path, refpath, typed), r in zip(meta, tres):
        if not r['ok']:
            skipped += 1
            ck.note('translate failure %s: %s' % (name, ((r.get('exc') or '') + (r.get('errors') or ''))[-800:]))
            continue
        okmeta.append((name, chunk, path, refpath, typed, r['c']))
    # gcov instrumentation for the first typed and the first untyped module
    cov = {}
    for typed in (False, True):
        cov[typed] = next((m[0] for m in okmeta if m[4] == typed), None)
    for m in okmeta:
        kw = {}
        if m[0] in cov.values():
            kw = {'cflags': ['--coverage', gcovreach.DUMP_C], 'ldflags': ['--coverage']}
        items.append((m[5], kw))
    bres = tree.cbuild_many(items, timeout=ck.pick(1800, 3600))
    total_n = total_distinct = 0
    hist = {}
    samples = []
    helper_static = {}
    gcov = {}
    for m, b in zip(okmeta, bres):
        name, chunk, path, refpath, typed, cfile = m
        if not b['ok']:
            skipped += 1
            ck.note('C build failure %s: %s' % (name, b['err'][-800:]))
            continue
        ctext = open(cfile, encoding='utf-8', errors='replace').read()
        for h in set(re.findall(r'\b(__Pyx_PyUnicode_From_\w+|__Pyx_PyUnicode_FromDouble\w*|__Pyx_PyUnicode_Join|'
                                r'__Pyx_PyObject_Format\w*|__Pyx_PyUnicode_FromBInt_\w+|__Pyx_PyUnicode_FromOrdinal_Padded|'
                                r'__Pyx_PyUnicode_BuildFromAscii|__Pyx_PyUnicode_ConcatSafe|__Pyx_PyUnicode_Concat\w*|'
                                r'__Pyx_PyObject_Str|__Pyx_PyObject_Ascii|__Pyx_PyObject_Repr|__Pyx_PyNumber_Long\w*)\(', ctext)):
            helper_static[h] = helper_static.get(h, 0) + 1
        cases = [c for f in chunk for c in cases_by_fn[f['name']]]
        vcmap = {(c['f'], c['a']): c.get('vc') for c in cases}
        run = [{k: v for k, v in c.items() if k != 'vc'} for c in cases]
        is_cov = name in cov.values()
        if is_cov:
            run = run + gcovreach.dump_cases()
        res = diff.run_cases(tree, d, name, run, ref=refpath, compare={'exc_args': False, 'log': False}, setup=SETUP + gcovreach.SETUP,
                             tagdir='run_' + name, timeout=ck.pick(900, 1800), nproc=ck.pick(3, 6))
        nflush = sum(v for k, v in res.hist.items() if k.startswith('gcovflush'))
        total_n += res.n - nflush
        total_distinct += max(0, res.distinct - min(1, nflush))
        samples.extend([s for s in res.samples if 'f' in s['case']][:1])
        for k, v in res.hist.items():
            if not k.startswith('gcovflush'):
                hist[k] = hist.get(k, 0) + v
        for mm in res.mismatches:
            f = byname[mm['case']['f']]
            case = dict(mm['case'], vc=vcmap.get((mm['case']['f'], mm['case']['a'])))
            w = {'ext': '.pyx' if typed else '.py', 'case': mm['case'], 'expected': mm['exp'], 'observed': mm['got'],
                 'module_source': header + (f['pyx'] if typed else f['src']), 'setup': SETUP}
            if typed:
                w['ref_source'] = header + f['src']
            ck.discrepancy(classify(f, case, mm['exp'], mm['got']), '%s on %s: CPython %s, compiled %s' % (
                (f['pyx'] or f['src']).strip(), mm['case']['a'], mm['exp'], mm['got']), w)
        for c in res.crashes:
            if 'f' not in c['case']:
                continue
            f = byname[c['case']['f']]
            ck.discrepancy('fmt:crash:%s:%s:%s' % (f['family'], f.get('kind', '-'), f['cls']),
                           'crash/hang %s: %s on %s\n%s' % (c['kind'], (f['pyx'] or f['src']).strip(), c['case']['a'], c['stderr'][-300:]),
                           {'ext': '.pyx' if typed else '.py', 'case': c['case'], 'stderr': c['stderr'],
                            'module_source': header + (f['pyx'] if typed else f['src']), 'setup': SETUP,
                            'ref_source': header + f['src']})
        for ft in res.fatal:
            ck.inconclusive_if(True, 'driver failed for %s: %s' % (name, str(ft)[-400:]))
        if is_cov:
            g = gcovreach.counts({'c': cfile, 'so': b['so']}, prefix=('__Pyx_PyUnicode_From', '__Pyx__PyUnicode_From', '__Pyx_uchar___Pyx_PyUnicode',
                                                                      '__Pyx_PyUnicode_Join', '__Pyx_PyObject_Format', '__Pyx_PyUnicode_Build',
                                                                      '__Pyx_PyUnicode_Concat', '__Pyx_PyObject_Str', '__Pyx_PyObject_Ascii'))
            for k, v in g.items():
                gcov[k] = gcov.get(k, 0) + v
    # ------------------------------------------------------------------ reach
    cells = {}
    for k, v in hist.items():
        tag = k.rsplit('|', 1)[0]
        parts = tag.split('/')
        fam = parts[0]
        if fam.startswith('ctyped'):
            typ = parts[-1].rsplit(':', 1)[-1]
            cell = '%s x %s' % (parts[1], typ)
        elif fam == 'fstring':
            cell = 'py-%s x %s' % (parts[1], parts[-1].rsplit(':', 1)[-1])
        elif fam == 'repeat':
            cell = 'repeat %s x %s' % (parts[1], parts[2])
        else:
            cell = fam
        cells[cell] = cells.get(cell, 0) + v
    need_static = ['__Pyx_PyUnicode_From_int', '__Pyx_PyUnicode_From_long', '__Pyx_PyUnicode_From_unsigned_char',
                   '__Pyx_PyUnicode_From_size_t', '__Pyx_PyUnicode_Join', '__Pyx_PyObject_Format']
    missing = [h for h in need_static if not any(k.startswith(h) for k in helper_static)]
    ck.inconclusive_if(bool(missing), 'anchor helpers absent from all generated C: %s' % missing)
    for ct in fmtgen.C_INT_TYPES:
        ck.inconclusive_if(not any(k.startswith(ct + ' x ') for k in cells), 'C type %s never observed' % ct)
    # repeated fields: the same name formatted with different conversions must have been judged for most operand kinds,
    # and the compiler's field merging (CloneNode) must have happened in the compiled modules at all
    rep_conv_kinds = {k.split(' ')[1] for k in cells if k.startswith('repeat ') and 'conv' in k.rsplit(':', 1)[-1]}
    ck.inconclusive_if(len(rep_conv_kinds) < len(fmtgen.REPEAT_KINDS) // 2,
                       'repeated fields with different conversions judged for only %d operand kinds' % len(rep_conv_kinds))
    ck.inconclusive_if(not nodes.get('CloneNode'), 'no repeated f-string field was merged by the compiler (no CloneNode in final trees)')
    executed = {k: v for k, v in gcov.items() if v}
    ck.inconclusive_if(not any(k.startswith('__Pyx__PyUnicode_From') or k.startswith('__Pyx_PyUnicode_From') for k in executed),
                       'gcov: no C integer formatting helper executed')
    ck.inconclusive_if(skipped > 0.2 * len(jobs), '%d of %d modules failed to build' % (skipped, len(jobs)))
    ck.cov['skipped_build_failure'] = skipped
    return ck.finish(
        total_n, total_distinct,
        'one compiled function per generated (family, spec/template, operand type); each called on boundary and random '
        'values of its operand class (and some of other classes); text and exception type compared with CPython. '
        'distinct = distinct (function, CPython outcome) pairs; all cases are non-trivial in that each function contains a '
        'formatting construct compiled by the tree under test (helper presence per module is listed)',
        samples,
        extra={'functions': {fam: sum(1 for f in fns if f['family'] == fam) for fam in sorted({f['family'] for f in fns})},
               'cells_operand_x_spec_type': dict(sorted(cells.items())), 'helpers_in_generated_c (modules)': dict(sorted(helper_static.items())),
               'gcov_execution_counts': dict(sorted(executed.items())),
               'node_classes_final': {k: nodes.get(k, 0) for k in ('JoinedStrNode', 'FormattedValueNode', 'ModNode', 'CloneNode', 'CoerceToPyTypeNode',
                                                                   'PythonCapiCallNode', 'SimpleCallNode', 'AddNode') if nodes.get(k)},
               'outcome_hist_top': dict(sorted(hist.items(), key=lambda kv: -kv[1])[:30])},
        assumptions=['CPython 3.12.1 executing the same source is the reference (for C-typed operands: the same expression on the '
                     'Python int/float/str/bool of equal value)', 'locale-dependent type n is not generated',
                     'C float operands only receive values exactly representable in binary32'])
