"""C05 Python int <-> C integer conversion is exact or raises (DESIGN.md section 5, C05).

Monitor M1 on generated .pyx modules: for every C integer type an argument conversion, a local assignment, a typed
attribute assignment and a Python-level attribute assignment, each fed with ints at every digit-count boundary and type
bound, int subclasses, bools, objects with __index__ / __int__, floats, strings..., against a reference model that is the
property statement itself: an object is an integer iff operator.index() accepts it; value if it fits, OverflowError if not,
TypeError if it is not an integer.  Plus in-C sweeps (exhaustive windows / the whole type for <= 16 bit, 32-bit exhaustive in
the thorough tier, pseudo-random digit-boundary values for all widths) whose oracle is built from CPython C-API calls and
128-bit range arithmetic in a verbatim C block."""
import glob
import json
import os
import re
import threading
from concurrent.futures import ThreadPoolExecutor

from vlib import core, creach, cy, diff, values

# key, C declaration, bits, signed
TYPES = [
    ('c', 'char', 8, True), ('sc', 'signed char', 8, True), ('uc', 'unsigned char', 8, False),
    ('s', 'short', 16, True), ('us', 'unsigned short', 16, False), ('i', 'int', 32, True), ('ui', 'unsigned int', 32, False),
    ('l', 'long', 64, True), ('ul', 'unsigned long', 64, False), ('ll', 'long long', 64, True),
    ('ull', 'unsigned long long', 64, False), ('sz', 'size_t', 64, False), ('z', 'Py_ssize_t', 64, True),
    ('h', 'Py_hash_t', 64, True), ('ssz', 'ssize_t', 64, True), ('pd', 'ptrdiff_t', 64, True),
    ('i8', 'int8_t', 8, True), ('u8', 'uint8_t', 8, False), ('i16', 'int16_t', 16, True), ('u16', 'uint16_t', 16, False),
    ('i32', 'int32_t', 32, True), ('u32', 'uint32_t', 32, False), ('i64', 'int64_t', 64, True), ('u64', 'uint64_t', 64, False),
    ('xw', 'vx_wide_t', 64, True),      # declared "ctypedef int", really long long
    ('xn', 'vx_narrow_t', 8, True),     # declared "ctypedef long", really signed char
    ('xu', 'vx_ushort_t', 16, False),   # declared "ctypedef unsigned int", really unsigned short
    ('en', 'EPos', 32, False),          # cdef enum without negative members (gcc: unsigned int)
    ('eg', 'ENeg', 32, True),           # cdef enum with a negative member (gcc: int)
    ('ex', 'vx_enum', 32, False),       # enum defined in C
]
TMAP = {t[0]: t for t in TYPES}
GROUPS = [[t[0] for t in TYPES[i::3]] for i in range(3)]
FORMS = ['arg', 'local', 'attr', 'pyattr']

C_TYPEDEFS = '''
#include <stdint.h>
#include <stddef.h>
#include <sys/types.h>
typedef long long vx_wide_t;
typedef signed char vx_narrow_t;
typedef unsigned short vx_ushort_t;
enum vx_enum { VX_A = 1, VX_B = 100000 };
'''

PYX_HEAD = '''# cython: language_level=3
from libc.stdint cimport int8_t, uint8_t, int16_t, uint16_t, int32_t, uint32_t, int64_t, uint64_t
cdef extern from *:
    """%s"""
    ctypedef int vx_wide_t
    ctypedef long vx_narrow_t
    ctypedef unsigned int vx_ushort_t
    cdef enum vx_enum:
        VX_A
        VX_B
    void vx_gcov_dump()

cdef enum EPos:
    EP0 = 0
    EP5 = 5

cdef enum ENeg:
    EGm = -1
    EG5 = 5

def gcov_dump():
    vx_gcov_dump()

'''

GCOV_C = '''
#ifdef VX_GCOV
extern void __gcov_dump(void);
#define vx_gcov_dump() __gcov_dump()
#else
#define vx_gcov_dump() ((void)0)
#endif
'''


def rng_bounds(bits, signed):
    return (-(1 << (bits - 1)), (1 << (bits - 1)) - 1) if signed else (0, (1 << bits) - 1)


REF_PRELUDE = '''
import operator


def _conv(obj, lo, hi):
    """the property statement: an object is an integer iff operator.index() accepts it (exceptions raised by a
    user __index__ propagate); exact value if it fits, OverflowError otherwise"""
    v = int(operator.index(obj))
    if v < lo or v > hi:
        raise OverflowError("value does not fit the C type")
    return v


def gcov_dump():
    return None

'''


def gen_module(group, start):
    """(pyx text, reference text, function descriptors)"""
    src = PYX_HEAD % (C_TYPEDEFS + GCOV_C)
    ref = REF_PRELUDE
    src += 'cdef class Holder:\n' + ''.join('    cdef public %s fq%sq\n' % (TMAP[k][1], k) for k in group) + '\n'
    funcs = []
    n = start
    info_lines = []
    for k in group:
        _, decl, bits, signed = TMAP[k]
        lo, hi = rng_bounds(bits, signed)
        for form in FORMS:
            name = 'fz%dz' % n
            n += 1
            if form == 'arg':
                fs = 'def %s(%s x):\n    return x\n' % (name, decl)
            elif form == 'local':
                fs = 'def %s(obj):\n    cdef %s v = obj\n    return v\n' % (name, decl)
            elif form == 'attr':
                fs = 'def %s(obj):\n    cdef Holder h = Holder()\n    h.fq%sq = obj\n    return h.fq%sq\n' % (name, k, k)
            else:
                fs = ("def %s(obj):\n    h = <object>Holder()\n    setattr(h, 'fq%sq', obj)\n    return getattr(h, 'fq%sq')\n"
                      % (name, k, k))
            rs = 'def %s(x):\n    return _conv(x, %d, %d)\n' % (name, lo, hi)
            src += fs + '\n'
            ref += rs + '\n'
            funcs.append({'name': name, 'type': k, 'form': form, 'src': fs, 'ref': rs})
        info_lines.append('    v%s = <%s>m1\n    d[%r] = (sizeof(%s), v%s < 0)\n' % (k, decl, k, decl, k))
    src += 'def typeinfo():\n    cdef long long m1 = -1\n' + ''.join('    cdef %s v%s\n' % (TMAP[k][1], k) for k in group)
    src += '    d = {}\n' + ''.join(info_lines) + '    return d\n'
    ref += 'def typeinfo():\n    return {%s}\n' % ', '.join('%r: (%d, %s)' % (k, TMAP[k][2] // 8, TMAP[k][3]) for k in group)
    return src, ref, funcs


# ------------------------------------------------------------------------------------------------ inputs

def ndigits30(v):
    v = abs(v)
    n = 0
    while v:
        v >>= 30
        n += 1
    return n


def inputs(ck):
    """list of (expression, kind, int value or None)"""
    out = []
    ints = set(values.int_boundaries(5))
    for bits in (7, 8, 15, 16, 31, 32, 63, 64):
        for d in (-3, -2, -1, 0, 1, 2, 3):
            ints.add((1 << bits) + d)
            ints.add(-(1 << bits) + d)
    rng = ck.rng('ints')
    for _ in range(ck.pick(40, 900)):
        nb = rng.choice([3, 7, 8, 9, 14, 15, 16, 17, 29, 30, 31, 32, 33, 44, 45, 46, 59, 60, 61, 62, 63, 64, 65, 66, 89, 90, 91, 119,
                         120, 121, 130])
        v = rng.getrandbits(nb) | (1 << (nb - 1))
        ints.add(v if rng.random() < 0.5 else -v)
    if not ck.quick:
        for bits in (8, 16, 32, 64):
            for _ in range(40):
                ints.add((1 << bits) - rng.randrange(1, 1 << (bits // 2)))
                ints.add((1 << (bits - 1)) - rng.randrange(1, 1 << (bits // 2)))
                ints.add(-(1 << (bits - 1)) + rng.randrange(1, 1 << (bits // 2)))
    for v in sorted(ints):
        out.append((repr(v), 'int', v))
    out += [('True', 'bool', 1), ('False', 'bool', 0)]
    subvals = [0, 5, -1, 127, 128, -129, 255, 256, 65535, 65536, (1 << 31) - 1, 1 << 31, -(1 << 31) - 1, (1 << 63) - 1, 1 << 63,
               -(1 << 63), -(1 << 63) - 1, (1 << 64) - 1, 1 << 64, 1 << 70, -(1 << 70)]
    for v in subvals:
        out.append(('I(%d)' % v, 'int-subclass', v))
    out.append(('IAdd(3)', 'int-subclass', 3))
    for v in subvals:
        out.append(('Idx(%d)' % v, 'index-only', v))
    for v in (0, 7, -3, 300, 1 << 40, 1 << 64):
        out.append(('IdxInt(%d)' % v, 'index-and-int', v))
        out.append(('IdxSub(%d)' % v, 'index-only-subclass-result', v))
    out += [('IdxRaises()', 'index-only-raises', None), ('IdxBad()', 'index-bad-result', None),
            ('Idx(2.0)', 'index-bad-result', None), ('Idx(None)', 'index-bad-result', None)]
    for v in (0, 5, -1, 200, 1 << 40, 1 << 70):
        out.append(('IntOnly(%d)' % v, 'int-only', None))
    out += [('IntOnly(2.5)', 'int-only-bad-result', None), ('IntRaises()', 'int-only-raises', None),
            ('Both(4, 5)', 'index-int-disagree', 4), ('Both(4, 1 << 80)', 'index-int-disagree', 4), ('Both(1 << 80, 4)', 'index-int-disagree', 1 << 80)]
    for f in ('3.0', '0.0', '-0.0', '255.0', '-1.0', '2147483648.0', '1e30', '-1e30'):
        out.append((f, 'float-integral', None))
    for f in ('3.7', '-1.5', '0.5', '1e-300', '127.9'):
        out.append((f, 'float-fractional', None))
    for f in ('nan', 'inf', '-inf'):
        out.append((f, 'float-nonfinite', None))
    out += [('F(3.0)', 'float-integral', None), ("Dec('3')", 'decimal', None), ("Dec('3.5')", 'decimal', None),
            ('Frac(3)', 'fraction', None), ('Frac(7, 2)', 'fraction', None)]
    out += [("'3'", 'str', None), ("'a'", 'str', None), ("''", 'str', None), ("S('7')", 'str-subclass', None),
            ("b'3'", 'bytes', None), ("b'a'", 'bytes', None), ("B(b'7')", 'bytes-subclass', None), ("bytearray(b'7')", 'bytearray', None),
            ('None', 'none', None), ('[1]', 'other', None), ('(1,)', 'other', None), ('(1+0j)', 'complex', None),
            ('Obj(1)', 'other', None), ('int', 'other', None)]
    return out


NBINT_KINDS = {'int-only', 'int-only-bad-result', 'int-only-raises', 'float-integral', 'float-fractional', 'float-nonfinite',
               'decimal', 'fraction', 'index-int-disagree', 'complex'}
INDEX_KINDS = {'index-only', 'index-only-subclass-result', 'index-only-raises'}
NUMBER_LONG_KINDS = NBINT_KINDS | {'str-subclass', 'bytes-subclass', 'bytearray'}
# build configurations in which CYTHON_USE_TYPE_SLOTS is 0 (the limited API implies it): __Pyx_PyNumber_Long calls PyNumber_Long()
NUMBER_LONG_CONFIGS = ('type-slots-off', 'limited-api')


def outcome(o):
    if o[0] == 'exc':
        return o[1]
    return 'val' if o[1][0] == 'int' else 'type-' + o[1][0]


def classify(f, kind, family, cfg, exp, got, value=None):
    e, g = outcome(exp), outcome(got)
    _, _, bits, signed = TMAP[f['type']]
    tcls = '%s%d' % ('s' if signed else 'u', bits)
    if family == 'PyLong_AsSsize_t' and kind in INDEX_KINDS | {'index-and-int', 'index-int-disagree'} and g == 'TypeError' and e != 'TypeError':
        # ssize_t is converted with PyLong_AsSsize_t(), which refuses every object that is not an int instance
        return 'cint-pylong-only:%s:%s->%s' % (kind, e, g)
    if family == 'PyLong_As' and kind in INDEX_KINDS and g == 'TypeError' and e != 'TypeError':
        # objects that are integers only through __index__ are refused (__index__ is never called)
        return 'cint-rejects-index-only:%s:%s->%s' % (kind, e, g)
    number_long = cfg in NUMBER_LONG_CONFIGS
    if family == 'PyLong_As' and not number_long and kind in NBINT_KINDS and (
            (e == 'TypeError' and g != e) or kind == 'index-int-disagree'):
        # nb_int is consulted instead of nb_index: __int__-only objects and floats are converted
        return 'cint-from-nb_int:%s:%s->%s' % (kind, e, g)
    if family == 'PyLong_As' and number_long and kind in NUMBER_LONG_KINDS and (
            (e == 'TypeError' and g != e) or kind == 'index-int-disagree'):
        # the CYTHON_USE_TYPE_SLOTS=0 branch calls PyNumber_Long(): everything int() accepts is converted
        return 'cint-from-PyNumber_Long:%s:%s->%s' % (kind, e, g)
    extra = ''
    if kind in ('int', 'int-subclass', 'bool') and value is not None:
        extra = ':digits=%d:%s' % (ndigits30(value), 'neg' if value < 0 else 'nonneg')
    return 'conv:%s:%s:%s:%s%s:%s->%s' % (family, f['form'], tcls, kind, extra, e, g)


# ------------------------------------------------------------------------------------------------ in-C sweeps

SWEEP_C = C_TYPEDEFS + r'''
/* Independent oracle of the C05 check (not Cython code): Python ints are built and compared with CPython C-API calls
   only, ranges are decided in 128-bit arithmetic from the bit width and signedness of the C type. */
static PyObject* vo_from_ll(long long v) { return PyLong_FromLongLong(v); }
static PyObject* vo_mk(int neg, unsigned long long mag, int sh) {
    PyObject *o = PyLong_FromUnsignedLongLong(mag), *t, *s;
    if (!o) return NULL;
    if (sh) {
        s = PyLong_FromLong(sh); if (!s) { Py_DECREF(o); return NULL; }
        t = PyNumber_Lshift(o, s); Py_DECREF(s); Py_DECREF(o); o = t; if (!o) return NULL;
    }
    if (neg) { t = PyNumber_Negative(o); Py_DECREF(o); o = t; }
    return o;
}
static int vo_inrange(int neg, unsigned long long mag, int sh, int bits, int is_signed) {
    unsigned __int128 m = ((unsigned __int128)mag) << sh;      /* < 2**72 */
    if (m == 0) return 1;
    if (!is_signed) return !neg && m < (((unsigned __int128)1) << bits);
    if (neg) return m <= (((unsigned __int128)1) << (bits - 1));
    return m < (((unsigned __int128)1) << (bits - 1));
}
static long long vo_exp_ll(int neg, unsigned long long mag, int sh) {
    __int128 m = (__int128)(((unsigned __int128)mag) << sh);
    return (long long)(neg ? -m : m);
}
static unsigned long long vo_exp_ull(int neg, unsigned long long mag, int sh) {
    (void)neg; return (unsigned long long)(((unsigned __int128)mag) << sh);
}
static int vo_same_int(PyObject *a, PyObject *b) {
    if (!PyLong_CheckExact(a)) return 0;
    return PyObject_RichCompareBool(a, b, Py_EQ) == 1;
}
static unsigned long long vo_next(unsigned long long *s) {
    unsigned long long x = *s;
    x ^= x >> 12; x ^= x << 25; x ^= x >> 27; *s = x;
    return x * 2685821657736338717ULL;
}
static void vo_gen(unsigned long long *s, int *neg, unsigned long long *mag, int *sh) {
    static const int edges[] = {7, 8, 15, 16, 30, 31, 32, 45, 60, 62, 63};
    unsigned long long k = vo_next(s), m = vo_next(s);
    int mode = (int)(k & 7), nb;
    *sh = 0;
    *neg = (int)((k >> 3) & 1);
    if (mode <= 2 || mode == 7) {
        nb = 1 + (int)((k >> 8) % 64);
        if (nb < 64) m &= ((1ULL << nb) - 1);
        if (mode == 7) *sh = 1 + (int)((k >> 40) % 8);
    } else if (mode <= 4) {
        int e = edges[(k >> 8) % (sizeof(edges) / sizeof(edges[0]))];
        m = (1ULL << e) + (unsigned long long)((long long)((k >> 16) % 5) - 2);
    } else if (mode == 5) {
        m = 0xFFFFFFFFFFFFFFFFULL - (k >> 20) % 3;
    } else {
        m = (k >> 8) % 300;
    }
    *mag = m;
}
'''

SWEEP_HEAD = '''# cython: language_level=3
from libc.stdint cimport int8_t, uint8_t, int16_t, uint16_t, int32_t, uint32_t, int64_t, uint64_t
cdef extern from *:
    """%s"""
    ctypedef int vx_wide_t
    ctypedef long vx_narrow_t
    ctypedef unsigned int vx_ushort_t
    cdef enum vx_enum:
        VX_A
        VX_B
    object vo_from_ll(long long v)
    object vo_mk(int neg, unsigned long long mag, int sh)
    int vo_inrange(int neg, unsigned long long mag, int sh, int bits, int is_signed)
    long long vo_exp_ll(int neg, unsigned long long mag, int sh)
    unsigned long long vo_exp_ull(int neg, unsigned long long mag, int sh)
    int vo_same_int(object a, object b)
    void vo_gen(unsigned long long *s, int *neg, unsigned long long *mag, int *sh)

cdef enum EPos:
    EP0 = 0
    EP5 = 5

cdef enum ENeg:
    EGm = -1
    EG5 = 5

''' % SWEEP_C

SWEEP_FN = '''
def sweep_%(k)s(long long lo, long long hi):
    """every Python int n in [lo, hi): n -> %(decl)s gives n or OverflowError exactly by range; when it fits, the C value
    converted back gives an exact int equal to n"""
    cdef %(decl)s v
    cdef long long n, back = 0, bad = 0
    cdef bint fits
    cdef object o, o2
    cdef list out = []
    for n in range(lo, hi):
        o = vo_from_ll(n)
        fits = vo_inrange(n < 0, <unsigned long long>(-n if n < 0 else n), 0, %(bits)d, %(signed)d)
        try:
            v = o
        except OverflowError:
            if fits:
                bad += 1
                if len(out) < 4:
                    out.append(('rejected', n))
            continue
        if not fits:
            bad += 1
            if len(out) < 4:
                out.append(('accepted', n, <long long>v))
            continue
        if (<long long>v) != n:
            bad += 1
            if len(out) < 4:
                out.append(('wrong', n, <long long>v))
        o2 = v
        back += 1
        if not vo_same_int(o2, o):
            bad += 1
            if len(out) < 4:
                out.append(('back', n, o2))
    return (hi - lo, back, bad, out)


def sweepr_%(k)s(unsigned long long seed, long count):
    """pseudo-random magnitudes at digit and type boundaries, both signs, also beyond 64 bits"""
    cdef %(decl)s v
    cdef unsigned long long s = seed, mag = 0
    cdef int neg = 0, sh = 0
    cdef long i, bad = 0
    cdef bint fits
    cdef object o, o2
    cdef list out = []
    for i in range(count):
        vo_gen(&s, &neg, &mag, &sh)
        o = vo_mk(neg, mag, sh)
        fits = vo_inrange(neg, mag, sh, %(bits)d, %(signed)d)
        try:
            v = o
        except OverflowError:
            if fits:
                bad += 1
                if len(out) < 4:
                    out.append(('rejected', o))
            continue
        if not fits:
            bad += 1
            if len(out) < 4:
                out.append(('accepted', o, <long long>v))
            continue
        if %(cmp)s:
            bad += 1
            if len(out) < 4:
                out.append(('wrong', o, <long long>v))
        o2 = v
        if not vo_same_int(o2, o):
            bad += 1
            if len(out) < 4:
                out.append(('back', o, o2))
    return (count, bad, out)
'''


def sweep_fn_source(k):
    _, decl, bits, signed = TMAP[k]
    cmp_ = ('(<long long>v) != vo_exp_ll(neg, mag, sh)' if signed else
            '(<unsigned long long>v) != vo_exp_ull(neg, mag, sh)')
    return SWEEP_FN % {'k': k, 'decl': decl, 'bits': bits, 'signed': 1 if signed else 0, 'cmp': cmp_}


def sweep_module(group):
    src = SWEEP_HEAD
    ref = ''
    for k in group:
        _, decl, bits, signed = TMAP[k]
        lo, hi = rng_bounds(bits, signed)
        src += sweep_fn_source(k)
        ref += ('def sweep_%s(lo, hi):\n    return (hi - lo, max(0, min(hi, %d) - max(lo, %d)), 0, [])\n\n'
                'def sweepr_%s(seed, count):\n    return (count, 0, [])\n\n' % (k, hi + 1, lo, k))
    return src, ref


def sweep_cases(ck, group, full32=True):
    """list of (case, evaluations)"""
    cases = []
    rng = ck.rng('sweep')
    for k in group:
        _, decl, bits, signed = TMAP[k]
        lo, hi = rng_bounds(bits, signed)
        ranges = []
        if bits <= 16:
            ranges = [(a, a + 10000) for a in range(-70000, 70000, 10000)]
        elif bits == 32:
            if ck.quick or not full32 or k not in ('i', 'ui'):
                for c in (lo, hi, 0, -(1 << 31), 1 << 31, 1 << 32, -(1 << 32), 1 << 30):
                    ranges.append((c - 2000, c + 2000))
            else:
                step = 1 << 20
                ranges = [(a, a + step) for a in range(lo - 4 * step, hi + 4 * step, step)]
        else:
            for c in (0, 1 << 15, 1 << 30, -(1 << 30), 1 << 45, 1 << 60, -(1 << 60), (1 << 63) - 2001, -(1 << 63) + 2001):
                ranges.append((c - 2000, c + 2000))
        for a, b in ranges:
            inr = max(0, min(b, hi + 1) - max(a, lo))
            cases.append(({'f': 'sweep_' + k, 'a': '(%d, %d)' % (a, b), 't': 'sweep/%s' % k}, (b - a) + inr))
        nseed, per = ck.pick((4, 50000), (20, 500000))
        for _ in range(nseed):
            cases.append(({'f': 'sweepr_' + k, 'a': '(%d, %d)' % (rng.getrandbits(63) | 1, per), 't': 'sweepr/%s' % k}, per))
    return cases


# ------------------------------------------------------------------------------------------------ main

CONVERTER_RE = re.compile(r'\b(__Pyx_PyLong_As_\w+|__Pyx_PyIndex_As\w+|__Pyx_PyLong_AsHash_t|PyLong_AsSsize_t)\(')
TOPY_RE = re.compile(r'\b(__Pyx_PyLong_From_\w+|__Pyx_PyLong_FromSize_t|__Pyx_PyLong_FromHash_t|PyLong_FromSsize_t)\(')


_WRAP = re.compile(r'^static PyObject \*(__pyx_pw_\w*?(fz\d+z))\(', re.M)


def wrapper_bodies(ctext):
    """python-level name token -> text of the argument-parsing wrapper (its C signature spans several lines, so
    vlib.creach does not see it)"""
    out = {}
    for m in _WRAP.finditer(ctext):
        head = ctext[m.end():m.end() + 600]
        i_def, i_proto = head.find(') {'), head.find(');')
        if i_def < 0 or (0 <= i_proto < i_def):
            continue            # forward declaration
        end = ctext.find('\n}\n', m.end())
        if end > 0:
            out[m.group(2)] = out.get(m.group(2), '') + ctext[m.start():end]
    return out


def gcov_summary(d):
    """dynamic reach (thorough): per from-/to-Python converter instantiation the executed lines and branches, and how
    often the body of every digit-count branch ('size == N') of the PyLong fast paths ran"""
    out = {'functions': {}, 'digit_branch_hits': {}}
    for gcda in sorted(glob.glob(os.path.join(d, '*.gcda'))):
        r = core.run(['gcov', '--json-format', '--stdout', '-b', os.path.basename(gcda)], cwd=d, timeout=900, as_gb=0)
        if r.rc != 0 or not r.out.strip():
            continue
        data = json.loads(r.out)
        for fi in data.get('files', []):
            if not fi['file'].endswith('.c'):
                continue
            try:
                src = open(fi['file'] if os.path.isabs(fi['file']) else os.path.join(d, fi['file']), errors='replace').read().splitlines()
            except OSError:
                src = []
            lines = {ln['line_number']: ln for ln in fi.get('lines', [])}
            for fn in fi.get('functions', []):
                name = fn['name']
                if not re.search(r'PyLong_As_|PyLong_From_|PyIndex_As|PyNumber_Long', name):
                    continue
                ls = [lines[i] for i in range(fn['start_line'], fn['end_line'] + 1) if i in lines]
                br = [b for ln in ls for b in ln.get('branches', [])]
                rec = {'calls': fn.get('execution_count', 0),
                       'lines': '%d/%d' % (sum(1 for ln in ls if ln['count'] > 0), len(ls)),
                       'branches': '%d/%d' % (sum(1 for b in br if b['count'] > 0), len(br))}
                # the same helper is instantiated (often unused) in several modules: keep the most exercised copy
                if name not in out['functions'] or rec['calls'] > out['functions'][name]['calls']:
                    out['functions'][name] = rec
                out['source_lines_read'] = out.get('source_lines_read', 0) + (1 if src else 0)
                seen = {}
                for i in range(fn['start_line'], fn['end_line'] + 1):
                    if i - 1 < len(src):
                        m = re.search(r'size == (\d)', src[i - 1])
                        if m:
                            k = 'size==%s#%d' % (m.group(1), seen.get(m.group(1), 0))
                            seen[m.group(1)] = seen.get(m.group(1), 0) + 1
                            hits = max([lines[j]['count'] for j in range(i + 1, i + 7) if j in lines] or [0])
                            if hits:
                                dh = out['digit_branch_hits'].setdefault(name, {})
                                dh[k] = max(dh.get(k, 0), hits)
    return out


def family_of(conv):
    if conv.startswith('__Pyx_PyLong_As_'):
        return 'PyLong_As'
    if conv.startswith('__Pyx_PyIndex_As') or conv == '__Pyx_PyLong_AsHash_t':
        return 'PyIndex_As'
    return conv


# the driver keeps at most this many mismatch records per chunk; the default (400) is exceeded by the known findings alone
NO_CAP = {'max_mismatch_records': 2000000}


def truncated(ck, res, where):
    """mismatch records lost to the driver's cap would hide discrepancies: never silently"""
    if res.nmismatch > len(res.mismatches):
        ck.inconclusive_if(True, '%d of %d mismatch records of %s were not stored by the driver' % (
            res.nmismatch - len(res.mismatches), res.nmismatch, where))


def split_hangs(ck, crashes, where):
    """a fired watchdog (timeout of the driver process) is never judged: it makes the run inconclusive"""
    real = []
    for c in crashes:
        if str(c.get('kind', '')).startswith('HANG'):
            ck.inconclusive_if(True, 'watchdog fired in %s on case %s (not judged)' % (where, str(c.get('case'))[:160]))
        else:
            real.append(c)
    return real


class State:
    def __init__(self):
        self.lock = threading.Lock()
        self.n = 0
        self.distinct = 0
        self.samples = []
        self.hist = {}
        self.per_type = {}
        self.digit_cells = {}
        self.converters = {}
        self.topy = {}
        self.trivial = []
        self.skipped_build = 0
        self.sweep_eval = 0
        self.gcov = {}


def run_config(ck, st, tree, cfgname, cflags, pool, built):
    """built: (d, info, modsrc, refs, funcsets), (d2, info2, swsrc, swrefs)"""
    (d, info, mods, refs, funcsets), (d2, info2, swmods, swrefs) = built
    cmp = {'exc_args': False, 'log': False}
    for mname, funcs in funcsets.items():
        inf = info[mname]
        if not inf['ok']:
            st.skipped_build += 1
            ck.note('build failure %s/%s at %s: %s' % (cfgname, mname, inf['stage'], inf['errors'][-700:]))
            continue
        refpath = inf['src'][:-4] + '_ref.py'
        with open(refpath, 'w') as fh:
            fh.write(refs[mname])
        ctext = open(inf['c'], encoding='utf-8', errors='replace').read()
        bodies = creach.bodies_by_token(ctext, [f['name'] for f in funcs])
        fb = creach.function_bodies(ctext)
        wb = wrapper_bodies(ctext)
        fam = {}
        cases = []
        for f in funcs:
            body = bodies.get(f['name'], '') + wb.get(f['name'], '')
            if f['form'] == 'pyattr':
                body = '\n'.join(b for n, b in fb.items() if ('fq%sq' % f['type']) in n)
            convs = set(CONVERTER_RE.findall(body))
            tops = set(TOPY_RE.findall(body))
            if not convs or not tops:
                st.trivial.append('%s:%s:%s' % (cfgname, f['type'], f['form']))
                fam[f['name']] = 'none'
            else:
                c = sorted(convs)[0]
                fam[f['name']] = family_of(c)
                for x in convs:
                    st.converters[x] = st.converters.get(x, 0) + 1
                for x in tops:
                    st.topy[x] = st.topy.get(x, 0) + 1
            tag = '%s/%s' % (f['type'], f['form'])
            for expr, kind, val in pool:
                cases.append({'f': f['name'], 'a': '(%s,)' % expr, 't': tag, 'kind': kind})
                if val is not None and kind == 'int' and f['form'] == 'arg' and cfgname == 'default':
                    dk = '%s:%d%s' % (f['type'], ndigits30(val), '-' if val < 0 else '+')
                    st.digit_cells[dk] = st.digit_cells.get(dk, 0) + 1
            if fam[f['name']] != 'none' and cfgname == 'default':
                st.distinct += len(pool)
        cases.append({'x': 'M.typeinfo()', 't': 'typeinfo'})
        if 'gcov' in cfgname:
            cases.append({'x': 'M.gcov_dump()', 't': 'gcov'})
        res = diff.run_cases(tree, d, mname, cases, spec_extra=NO_CAP, ref=refpath, compare=cmp, setup='from props.C05_env import *',
                             tagdir='run_%s_%s' % (cfgname, mname), timeout=3600, nproc=1 if 'gcov' in cfgname else max(1, min(6, core.NCPU)))
        fmap = {f['name']: f for f in funcs}
        vmap = {expr: val for expr, kind, val in pool}
        with st.lock:
            st.n += res.n
            st.samples.extend(res.samples[:1])
            truncated(ck, res, 'a module run')
            for k, v in res.hist.items():
                st.hist[k] = st.hist.get(k, 0) + v
                tag, cls = k.split('|')
                if '/' in tag:
                    t = tag.split('/')[0]
                    pt = st.per_type.setdefault(t, {})
                    pt[cls] = pt.get(cls, 0) + v
            for m in res.mismatches:
                case = m['case']
                if case.get('t') == 'typeinfo':
                    ck.inconclusive_if(True, 'the C compiler disagrees with the type table of the check (%s): %s vs %s' % (
                        mname, m['exp'], m['got']))
                    continue
                f = fmap[case['f']]
                expr = case['a'][1:-2]
                key = classify(f, case['kind'], fam[f['name']], cfgname, m['exp'], m['got'], vmap.get(expr))
                ck.discrepancy(key, '%s %s conversion of %s (%s build): statement %s, compiled %s' % (
                    TMAP[f['type']][1], f['form'], expr, cfgname, m['exp'], m['got']),
                    {'module_source': mods[mname], 'module_name': mname, 'ext': '.pyx', 'case': {'f': case['f'], 'a': case['a']},
                     'cflags': cflags, 'directives': {}, 'ref_source': refs[mname], 'setup': 'from props.C05_env import *',
                     'function_source_excerpt': f['src'], 'compare': cmp, 'expected': m['exp'], 'observed': m['got'],
                     'config': cfgname})
            for c in split_hangs(ck, res.crashes, '%s/%s' % (cfgname, mname)):
                f = fmap.get(c['case'].get('f'))
                ck.discrepancy('crash:%s:%s' % (f['form'] if f else '?', c['case'].get('kind', '?')),
                               'crash/hang %s converting %s (%s build)' % (c['kind'], c['case'].get('a'), cfgname),
                               {'module_source': mods[mname], 'module_name': mname, 'ext': '.pyx', 'case': c['case'], 'cflags': cflags,
                                'ref_source': refs[mname], 'setup': 'from props.C05_env import *', 'stderr': c['stderr'][-1500:]})
            for ft in res.fatal:
                ck.inconclusive_if(True, 'driver failed for %s/%s: %s' % (cfgname, mname, str(ft)[-300:]))
    if 'gcov' in cfgname:
        try:
            st.gcov = gcov_summary(d)
        except Exception as e:          # reach evidence only: never decides the verdict
            ck.note('gcov summary failed: %r' % (e,))
        return
    # sweeps
    for swname, group in swmods['groups'].items():
        inf = info2[swname]
        if not inf['ok']:
            st.skipped_build += 1
            ck.note('build failure %s/%s at %s: %s' % (cfgname, swname, inf['stage'], inf['errors'][-700:]))
            continue
        refpath = inf['src'][:-4] + '_ref.py'
        with open(refpath, 'w') as fh:
            fh.write(swrefs[swname])
        # all 2**32 values of the 32-bit types only in the default configuration (13 CPU-minutes per configuration)
        sw = sweep_cases(ck, group, full32=(cfgname == 'default'))
        res = diff.run_cases(tree, d2, swname, [c for c, _ in sw], spec_extra=NO_CAP, ref=refpath, compare=cmp,
                             tagdir='run_%s_%s' % (cfgname, swname), timeout=5400)
        nmap = {(c['f'], c['a']): n for c, n in sw}
        done = sum(n for _, n in sw)
        with st.lock:
            truncated(ck, res, 'a module run')
            for k, v in res.hist.items():
                st.hist[k] = st.hist.get(k, 0) + v
            st.samples.extend(res.samples[:1])
            for m in res.mismatches:
                k = m['case']['f'].split('_', 1)[1]
                got = m['got']
                what = '?'
                try:
                    what = eval(got[1][1][-1][1][0][1][0][1])
                except Exception:
                    if got[0] == 'exc':
                        what = 'raised-' + got[1]
                _, decl, bits, signed = TMAP[k]
                ck.discrepancy('sweep:%s:%s%d' % (what, 's' if signed else 'u', bits),
                               'in-C sweep %s%s (%s build) for %s: %s' % (m['case']['f'], m['case']['a'], cfgname, decl, got),
                               {'module_source': SWEEP_HEAD + sweep_fn_source(k), 'ext': '.pyx', 'case': m['case'], 'cflags': cflags,
                                'directives': {}, 'ref_source': swrefs[swname], 'compare': cmp, 'expected': m['exp'], 'observed': got})
            for c in res.crashes:
                done -= nmap.get((c['case']['f'], c['case']['a']), 0)
            for c in split_hangs(ck, res.crashes, '%s/%s' % (cfgname, swname)):
                k = c['case']['f'].split('_', 1)[1]
                ck.discrepancy('sweep:crash:%s' % k, 'in-C sweep %s%s crashed (%s build): %s' % (c['case']['f'], c['case']['a'], cfgname, c['kind']),
                               {'module_source': SWEEP_HEAD + sweep_fn_source(k), 'ext': '.pyx', 'case': c['case'], 'cflags': cflags,
                                'ref_source': swrefs[swname], 'stderr': c['stderr'][-1500:]})
            for ft in res.fatal:
                ck.inconclusive_if(True, 'sweep driver failed for %s/%s: %s' % (cfgname, swname, str(ft)[-300:]))
            if not res.fatal:
                st.sweep_eval += max(0, done)


def main(ck):
    tree = cy.Tree('C05')
    st = State()
    pool = inputs(ck)
    mods, refs, funcsets = {}, {}, {}
    start = 0
    for gi, group in enumerate(GROUPS):
        name = 'c05m%d' % gi
        src, ref, funcs = gen_module(group, start)
        start += len(funcs)
        mods[name], refs[name], funcsets[name] = src, ref, funcs
    swsrc, swrefs, swgroups = {}, {}, {}
    for gi, group in enumerate(GROUPS):
        name = 'c05sw%d' % gi
        swsrc[name], swrefs[name] = sweep_module(group)
        swgroups[name] = group
    configs = [('default', [])]
    if not ck.quick:
        configs += [('no-pylong-internals', ['-DCYTHON_USE_PYLONG_INTERNALS=0']),
                    ('no-safe-macros', ['-DCYTHON_ASSUME_SAFE_MACROS=0']),
                    ('type-slots-off', ['-DCYTHON_USE_TYPE_SLOTS=0']),
                    ('limited-api', ['-DPy_LIMITED_API=0x030C0000', '-DCYTHON_LIMITED_API=1']),
                    ('gcov', ['--coverage', '-DVX_GCOV=1'])]
    t0 = ck.elapsed()
    # translate once (and build the default configuration); the other configurations recompile the same C files
    with ThreadPoolExecutor(2) as ex:
        fu1 = ex.submit(tree.build_sources, mods, subdir='b_default', ext='.pyx')
        fu2 = ex.submit(tree.build_sources, swsrc, subdir='s_default', ext='.pyx', opt='-O2')
        d, info = fu1.result()
        d2, info2 = fu2.result()
    built = {'default': ((d, info, mods, refs, funcsets), (d2, info2, {'groups': swgroups}, swrefs))}
    for cfgname, cflags in configs[1:]:
        bd, sd = tree.subdir('b_' + cfgname), tree.subdir('s_' + cfgname)
        items, slots = [], []
        bi, si = {}, {}
        for (src_info, dst_info, ddir, opt) in ((info, bi, bd, '-O0'), (info2, si, sd, '-O2')):
            for mname, inf in src_info.items():
                ni = dict(inf)
                dst_info[mname] = ni
                if cfgname == 'gcov' and src_info is info2:
                    continue            # coverage is collected from the conversion-site modules only
                if not inf.get('c') or inf['stage'] == 'translate':
                    ni['ok'] = False
                    continue
                so = os.path.join(ddir, os.path.basename(inf['so']))
                ni['src'] = os.path.join(ddir, os.path.basename(inf['src']))
                items.append((inf['c'], {'so': so, 'cflags': cflags, 'opt': opt}))
                slots.append(ni)
        for ni, b in zip(slots, tree.cbuild_many(items)):
            ni['so'], ni['ok'], ni['stage'] = b['so'], b['ok'], 'cc'
            if not b['ok']:
                ni['errors'] = b['err']
        built[cfgname] = ((bd, bi, mods, refs, funcsets), (sd, si, {'groups': swgroups}, swrefs))
    ck.cov['build_wall_s'] = round(ck.elapsed() - t0, 1)
    t0 = ck.elapsed()
    for cfgname, cflags in configs:
        run_config(ck, st, tree, cfgname, cflags, pool, built[cfgname])
    ck.cov['run_wall_s'] = round(ck.elapsed() - t0, 1)

    # floors: every type sees accept, OverflowError and TypeError; every type reaches its converters
    missing = []
    for k, _, _, _ in TYPES:
        pt = st.per_type.get(k, {})
        for cls in ('ok:int', 'exc:OverflowError', 'exc:TypeError'):
            if pt.get(cls, 0) <= 0:
                missing.append('%s:%s' % (k, cls))
    ck.inconclusive_if(bool(missing), 'outcome classes not observed: %s' % missing[:10])
    ck.inconclusive_if(st.skipped_build > 0, '%d module build(s) failed' % st.skipped_build)
    ck.inconclusive_if(len(st.trivial) > 0, 'conversion helper not found in the generated C of: %s' % st.trivial[:10])
    digit_missing = [k for k, _, bits, signed in TYPES for nd in range(0, 6) for sg in '+-'
                     if not (nd == 0 and sg == '-') and st.digit_cells.get('%s:%d%s' % (k, nd, sg), 0) <= 0]
    ck.inconclusive_if(bool(digit_missing), 'digit-count cells without an input: %s' % digit_missing[:10])
    return ck.finish(
        st.n + st.sweep_eval, st.distinct,
        'for each of %d C integer types (char..long long, size_t, Py_ssize_t, Py_hash_t, ssize_t, ptrdiff_t, stdint types, '
        'extern ctypedefs of a different real width, cdef/extern enums) four conversion sites (typed argument, local '
        'assignment, cdef attribute, Python-level public attribute) are called on ints at every 30-bit digit-count boundary '
        'and type bound, bools, int subclasses, __index__/__int__ objects, floats, Decimal/Fraction, str/bytes, None; expected '
        'outcome from the statement (operator.index defines "integer"; value if it fits, else OverflowError; else TypeError), '
        'round trip must give an exact int. In-C sweeps judge every Python int of a window / random digit-boundary magnitudes. '
        'evaluations = conversions judged. distinct_nontrivial = distinct (function, input expression) pairs whose function '
        'body in the generated C calls a from-Python converter and a to-Python converter' % len(TYPES),
        st.samples,
        extra={'types': len(TYPES), 'functions': start, 'inputs': len(pool), 'configs': [c[0] for c in configs],
               'converters_reached': st.converters, 'to_python_converters_reached': st.topy,
               'per_type_outcomes': st.per_type, 'int_inputs_by_type_digits_sign': st.digit_cells,
               'sweep_evaluations': st.sweep_eval, 'gcov': st.gcov,
               'input_kinds': sorted({k for _, k, _ in pool})},
        assumptions=['operator.index() of CPython 3.12.1 defines which objects are integers (property statement / DESIGN C05 FA)',
                     'x86-64 / gcc type widths; the C compiler confirms sizeof and signedness of every type at run time (typeinfo)',
                     'exception messages are not compared'])


def replay(ck, data):
    """re-run one witness (the generic replay has no setup hook for the operand classes of C05_env)"""
    w = data.get('witness', data)
    tree = cy.Tree('C05replay')
    name = w.get('module_name', 'replaymod')
    d, info = tree.build_sources({name: w['module_source']}, subdir='r', ext='.pyx', cflags=w.get('cflags') or ())
    inf = info[name]
    if not inf['ok']:
        print('build failed at', inf['stage'], inf['errors'][-2000:])
        return 2
    refpath = inf['src'][:-4] + '_ref.py'
    with open(refpath, 'w') as fh:
        fh.write(w['ref_source'])
    res = diff.run_cases(tree, d, name, [w['case']], spec_extra=NO_CAP, ref=refpath, compare=w.get('compare') or {'log': False},
                         setup=w.get('setup'), nproc=1)
    for m in res.mismatches:
        print('expected', m['exp'])
        print('observed', m['got'])
    for c in res.crashes:
        print('crash', c['kind'], c['stderr'][-1500:])
    if res.mismatches or res.crashes:
        print('VIOLATION property=%s replay=<replayed>' % ck.pid)
        return 1
    print('replay: case now agrees with the reference (%d evaluated)' % res.n)
    return 0
