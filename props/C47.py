"""C47 Source literal stripping is lossless and complete (DESIGN.md section 5, C47).

The real Cython.Build.Dependencies.strip_string_literals (interpreted, from the source mirror) is run on seeded
generated source texts (all string prefixes/quote kinds, escapes, f-strings with nested expressions / format specs /
same-quote nesting, comments, adjacent quotes, unterminated literals) and on the .py/.pyx/.pxd/.pxi files of the tree.
Lossless + label rules: one left-to-right alignment of the stripped text with the input.  Complete: every character
position that `tokenize` assigns to a STRING / f-string literal part / COMMENT body must be covered by a label.
A contract (icontract postcondition) checks lossless + labels on every call made by the real parse_dependencies."""
import json
import os
from concurrent.futures import ThreadPoolExecutor

from vlib import core, cy


def run_worker(tree, spec, tag, timeout, deps=None):
    d = tree.subdir('w')
    sf = os.path.join(d, tag + '.spec.json')
    of = os.path.join(d, tag + '.out.json')
    spec = dict(spec)
    spec['mirror'] = tree.mirror
    with open(sf, 'w') as f:
        json.dump(spec, f)
    env = tree.env(deps) if deps else tree.env()
    r = core.run([core.PY, '-m', 'props.C47_worker', sf, of], env=env, timeout=timeout, as_gb=4)
    if r.rc != 0 or not os.path.exists(of):
        return {'failed': 'rc=%s timed_out=%s stderr=%s' % (r.rc, r.timed_out, (r.err or '')[-800:])}
    return core.read_json(of)


def repo_files(ck, limit):
    out = []
    for sub in ('Cython', 'tests', 'Demos', 'Tools', 'docs/examples', 'pyximport'):
        base = os.path.join(core.REPO, sub)
        for dp, dn, fn in os.walk(base):
            dn[:] = sorted(d for d in dn if d != '__pycache__')
            for n in sorted(fn):
                if n.endswith(('.py', '.pyx', '.pxd', '.pxi')):
                    p = os.path.join(dp, n)
                    if os.path.getsize(p) < 400000:
                        out.append(p)
    if limit and len(out) > limit:
        rng = ck.rng('files')
        out = sorted(rng.sample(out, limit))
    return out


def merge(dst, src):
    for k, v in src.items():
        if isinstance(v, dict):
            merge(dst.setdefault(k, {}), v)
        elif isinstance(v, (int, float)):
            dst[k] = dst.get(k, 0) + v


def main(ck):
    tree = cy.Tree('C47')
    n_gen = ck.pick(12000, 400000)
    files = repo_files(ck, ck.pick(400, 0))
    nshards = ck.pick(16, 64)
    tasks = []
    for i in range(nshards):
        tasks.append(('g%d' % i, {'mode': 'generated', 'seed': 'C47:%d:%d' % (ck.seed, i),
                                  'count': n_gen // nshards + (1 if i < n_gen % nshards else 0)}, None))
    nf = ck.pick(4, 16)
    for i in range(nf):
        tasks.append(('f%d' % i, {'mode': 'files', 'files': files[i::nf], 'root': core.REPO}, None))
    deps = None
    try:
        deps = core.ensure_deps()
    except Exception as ex:   # the differential part does not need it
        ck.note('icontract unavailable, live contract skipped: %r' % (ex,))
    if deps:
        live_files = [p for p in files if p.endswith(('.pyx', '.py'))][:ck.pick(150, 1500)]
        tasks.append(('live', {'mode': 'live', 'files': live_files}, deps))
    timeout = ck.pick(900, 2400)
    with ThreadPoolExecutor(core.NCPU) as ex:
        outs = list(ex.map(lambda t: (t[0], run_worker(tree, t[1], t[0], timeout, t[2])), tasks))
    n, tok_hist, gen_stats = {}, {}, {}
    samples = []
    live = {}
    files_n = {}
    for tag, o in outs:
        if 'failed' in o:
            ck.inconclusive_if(True, 'worker %s failed: %s' % (tag, o['failed']))
            continue
        if not o.get('mirror_ok'):
            ck.inconclusive_if(True, 'Dependencies.py not imported from the source mirror: %r' % o.get('module_file'))
            continue
        if tag.startswith('f'):
            merge(files_n, o['n'])
        if tag == 'live':
            live = o.get('live', {})
        else:
            merge(n, o['n'])
        merge(tok_hist, o['tok_hist'])
        merge(gen_stats, o['gen_stats'])
        if len(samples) < 4:
            samples.extend(o['samples'][:1])
        for key, d in o['disc'].items():
            w = {'text': d['text'], 'origin': d['origin'], 'detail': d['detail'],
                 'expected': 'every string/comment character replaced by a label; labels put back reproduce the text',
                 'observed': d['detail']}
            isv = ck.discrepancy(key, '%s input %r: %s' % (d['origin'], d['text'][:200], json.dumps(d['detail'])[:300]), w)
            book = ck.violations if isv else ck.known_hits
            book[key]['count'] += d['count'] - 1
            if isv and d['len'] < book[key].get('len', 1 << 60):
                book[key]['len'] = d['len']
                book[key]['witness'] = w
    for v in ck.violations.values():
        v.pop('len', None)
    texts = max(1, n.get('texts', 0))
    tokd = max(1, n.get('tokenized', 0))
    nested_share = n.get('texts_with_nested_fstring_expr', 0) / tokd
    ck.inconclusive_if(n.get('tokenized', 0) * 2 < texts, 'tokenize accepted only %d of %d texts' % (n.get('tokenized', 0), texts))
    ck.inconclusive_if(nested_share < 0.20, 'only %.2f of the texts contain strings nested in f-string expressions' % nested_share)
    for k in ('string', 'fstring', 'fstring-middle', 'format-spec', 'comment'):
        ck.inconclusive_if(tok_hist.get(k, 0) == 0, 'token kind %s never seen' % k)
    for k in ('backslash_before_close', 'backslash_newline', 'same_quote_inside_triple', 'adjacent_quotes', 'unterminated',
              'format_spec_nested_field', 'comment_in_field', 'expr_dict', 'expr_lambda', 'expr_nested_fstring', 'doubled_brace'):
        ck.inconclusive_if(gen_stats.get(k, 0) == 0, 'generator feature %s never produced' % k)
    ck.inconclusive_if(files_n.get('texts', 0) == 0, 'no repository file was read')
    if deps:
        ck.inconclusive_if(live.get('contract_evaluations', 0) == 0, 'live contract on strip_string_literals never evaluated')
    prefixes = sorted(k for k in gen_stats if k.startswith(('string:', 'fstring:')))
    extra = {
        'texts': n.get('texts', 0), 'generated_texts': n_gen, 'repository_files': files_n.get('texts', 0),
        'lossless_checked': n.get('lossless_ok', 0), 'tokenize_accepted': n.get('tokenized', 0),
        'tokenize_rejected_lossless_only': n.get('tokenize_rejected', 0), 'complete_ok': n.get('complete_ok', 0),
        'labels_checked': n.get('labels', 0), 'string_positions': n.get('string_positions', 0),
        'comment_positions': n.get('comment_positions', 0), 'format_spec_positions': n.get('spec_positions', 0),
        'format_spec_positions_kept': n.get('spec_positions_kept', 0),
        'code_positions_inside_labels': n.get('code_positions_in_labels', 0),
        'texts_with_code_inside_labels': n.get('texts_with_code_in_labels', 0),
        'share_texts_with_nested_fstring_expression': round(nested_share, 3), 'token_kind_histogram': tok_hist,
        'generator_features': {k: v for k, v in gen_stats.items() if not k.startswith(('string:', 'fstring:'))},
        'literal_kinds_generated': {k: gen_stats[k] for k in prefixes},
        'live_contract': live,
    }
    return ck.finish(
        n.get('texts', 0), n.get('nontrivial', 0),
        'seeded generated texts of 1-6 lines (see generator_features / literal_kinds_generated) plus repository source '
        'files; evaluations = texts whose stripped form was aligned with the input (lossless, label rules) and, when '
        'tokenize accepts the text, whose string/comment character positions were all checked; distinct_nontrivial = distinct '
        'tokenizable texts containing at least one string, f-string or comment',
        samples, extra=extra,
        assumptions=['tokenize (CPython 3.12.1, PEP 701) decides which characters belong to string literals and comments; '
                     'prefixes, quotes and the # are delimiters, not content',
                     'inputs do not contain the label prefix __Pyx_L themselves (repository files: replaced before the run)',
                     'characters of code that end up inside a label are counted, not judged: the statement only forbids '
                     'string/comment characters in the stripped text and demands reversibility'])


def replay(ck, data):
    w = data.get('witness', data)
    tree = cy.Tree('C47r')
    o = run_worker(tree, {'mode': 'replay', 'text': w['text']}, 'replay', 120)
    if 'failed' in o:
        print('replay worker failed', o['failed'])
        return 2
    print('input:', repr(w['text'][:500]))
    known = {f.get('key') for f in ck.known}
    rc = 0
    for key, d in o['disc'].items():
        print('discrepancy', key, json.dumps(d['detail'])[:600])
        if key not in known:
            rc = 1
    if rc:
        print('VIOLATION property=C47 replay=<replayed>')
    elif o['disc']:
        print('replay: only known findings reproduced')
    else:
        print('replay: stripping is lossless and complete on this text')
    return rc
