"""C23 Generators and coroutines follow CPython's protocol on every history (DESIGN.md section 5, C23).

Generated generator / coroutine / async-generator / generator-expression bodies are compiled by the
working-tree compiler; every (body, operation history) is driven through `props.C23_drive.drive` on the
compiled object and on CPython executing the same source, and the whole traces are compared.
"""
import ast
import glob
import json
import os
from concurrent.futures import ThreadPoolExecutor

from vlib import cy, diff
from vlib.gen import gengen
from props import C23_drive

COMPARE = {'exc_args': True, 'exc_chain': True, 'log': True}
ENV_MODS = ['vlib.values', 'props.C23_drive']


# ------------------------------------------------------------------------------------ classifier
def _cls(out):
    if out[0] == 'exc':
        return 'exc:' + out[1]
    if out[0] == 'steps':
        last = out[1][-1] if out[1] else ['?']
        return 'steps%d:%s' % (len(out[1]), _cls(last) if last[0] != 'steps' else '?')
    return out[0]


def _opkey(op):
    return op[2:] if op.startswith('H!') else op


def first_diff(te, tg):
    n = min(len(te), len(tg))
    for k in range(n):
        if te[k] != tg[k]:
            return k
    return n if len(te) != len(tg) else None


def leaf_diffs(a, b, path=(), owner=None):
    """yield (path, owner exception name, a, b) for the innermost differing positions of two sig-like structures.
    path items are (label of the enclosing list, index)."""
    if a == b:
        return
    if _is_context_slot(path):
        yield (path, owner, a, b)
        return
    if isinstance(a, list) and isinstance(b, list) and len(a) == len(b) and \
            (not a or not isinstance(a[0], str) or a[0] == b[0]) and \
            not (a and a[0] == 'exc' and len(a) > 1 and isinstance(a[1], str) and a[1] != b[1]):
        label = a[0] if a and isinstance(a[0], str) else None
        if label == 'exc' and len(a) > 1 and isinstance(a[1], str) and a[1] == b[1]:
            owner = _owner_name(a)
        elif label in ('stop', 'astop'):
            owner = 'StopIteration' if label == 'stop' else 'StopAsyncIteration'
        elif label == 'tuple' and len(a) > 1 and isinstance(a[1], list) and a[1] and a[1][0] == ['str', "'caught'"]:
            label = 'caught-log'
        for i, (x, y) in enumerate(zip(a, b)):
            yield from leaf_diffs(x, y, path + ((label, i),), owner)
    else:
        yield (path, owner, a, b)


def _is_context_slot(path):
    """does the path end in the __context__ slot of an exception sig or of a stop chain"""
    if not path:
        return False
    if path[-1] == ('context', 1):
        return True
    if len(path) >= 2 and path[-2][0] in ('stop', 'astop') and path[-2][1] == 2 and path[-1][1] == 1:
        return True
    return False


def _excinfo_entry_diff(ea, eb):
    """two log entries that differ only in an exc-info name slot -> (exp name, got name) else None"""
    try:
        if ea[0] != 'tuple' or eb[0] != 'tuple' or len(ea[1]) != len(eb[1]):
            return None
        head = ea[1][0]
        if head != eb[1][0] or head[0] != 'str':
            return None
        tag = ast.literal_eval(head[1])
        slot = {'ei': 1, 'exit': 3, 'caught': 3}.get(tag, 1 if tag.startswith('fin') else None)
        if slot is None or slot >= len(ea[1]):
            return None
        for i, (x, y) in enumerate(zip(ea[1], eb[1])):
            if i != slot and x != y:
                return None
        x, y = ea[1][slot], eb[1][slot]
        if x[0] == 'str' and y[0] == 'str' and x != y:
            return ast.literal_eval(x[1]), ast.literal_eval(y[1])
    except Exception:
        return None
    return None


OUTER = ['exc', 'KeyError', ['tuple', [['str', "'outer'"]]]]
THROWN_NAME = {'V': 'ValueError', 'Vi': 'ValueError', 'GE': 'GeneratorExit', 'GEi': 'GeneratorExit', 'SI': 'StopIteration',
               'SIi': 'StopIteration', 'SAI': 'StopAsyncIteration', 'MB': 'MyBase', 'ME': 'MyErr', 'KE': 'KeyError',
               '2arg': 'ValueError'}
THROWLESS = ('PlainIter', 'CloseRaises', 'list', 'tuple_iter', 'ItAw')


def _has_outer(x):
    if isinstance(x, list):
        if x[:3] == OUTER or x[:3] == ['exc', 'KeyError', ['tuple', [['<deep>']]]]:
            return True
        return any(_has_outer(e) for e in x)
    return False


def _ctx_of(x):
    if x and x[0] == 'exc' and len(x) > 4:
        return x[3][1], x[4][1]
    return None, None


def _owner_name(e):
    """class name of an exception sig; exceptions raised by the `chk` helper inside a delegate (ValueError('chk<i>'))
    are marked, so that they are not mistaken for a ValueError thrown in by the history"""
    return e[1] + ('#delegate' if "'chk" in json.dumps(e[2]) else '')


def _ctx_kind(a, b, owner=None):
    """a, b: differing contents of a __context__ slot (exception sig or None) of reference / compiled run, slot owned by
    exception `owner` -> (kind, name of the exception whose __context__ differs)"""
    if a is not None and b is None:
        return 'ctx-missing', owner
    if _has_outer(b) and not _has_outer(a):
        return 'ctx-outer', owner
    if a is not None and b is not None and a[:3] == b[:3]:
        # same exception in the slot: look where their own chains differ (context first, then cause)
        (ca, ka), (cb, kb) = _ctx_of(a), _ctx_of(b)
        if ka != kb:
            return _ctx_kind(ka, kb, _owner_name(a))
        if ca != cb and ca is not None and cb is not None and ca[:3] == cb[:3]:
            (_, kca), (_, kcb) = _ctx_of(ca), _ctx_of(cb)
            if kca != kcb:
                return _ctx_kind(kca, kcb, _owner_name(ca))
    return 'ctx-other', owner


def diff_features(ent_e, ent_g):
    """classify every innermost difference between two trace entries [op, outcome, log, unraisable]:
    ctx-missing  : a __context__ / sys.exc_info() observation is empty in the compiled run, set in CPython's
    ctx-outer    : the compiled run shows the exception the *caller* was handling (KeyError('outer')), CPython does not
    ctx-other    : both show a context, but a different one
    other        : anything else"""
    feats = []
    # outcome and unraisable records: structural leaf diffs
    for idx in (1, 3):
        for p, owner, a, b in leaf_diffs(ent_e[idx], ent_g[idx]):
            if _is_context_slot(p):
                feats.append(_ctx_kind(a, b, owner))
            else:
                feats.append(('other', 'outcome' if idx == 1 else 'unraisable'))
    # logs: entry-wise
    le, lg = ent_e[2], ent_g[2]
    if le != lg:
        if len(le) != len(lg):
            feats.append(('other', 'log'))
        else:
            for x, y in zip(le, lg):
                if x == y:
                    continue
                d = _excinfo_entry_diff(x, y)
                if d is None:
                    feats.append(('other', 'log'))
                elif d[1] == 'NoneType':
                    feats.append(('ctx-missing', 'log'))
                elif d[1] == 'KeyError' and d[0] != 'KeyError':
                    feats.append(('ctx-outer', 'log'))
                else:
                    feats.append(('ctx-other', 'log'))
    return feats


def mechanism(body, hist, te, tg):
    """Mechanism key of a trace discrepancy. te/tg: raw traces (reference, compiled).
    Only structural features are used: object kind, abstract state in which the first differing operation
    arrived (from the reference trace), the operation, and where the two observations differ."""
    kind = body['kind']
    ctx = {int(k): v for k, v in body.get('ctx', {}).items()}
    coro_msg = False
    if kind == 'coro' and 'coroutine raised StopIteration' in json.dumps(te):
        # PEP 479 conversion inside a coroutine: CPython says "coroutine raised StopIteration", compiled code "generator
        # raised ...". Classify what remains after putting the wording aside (the reference is rewritten, because a
        # compiled generator inside the coroutine legitimately says "generator raised" on both sides).
        te2 = json.loads(json.dumps(te).replace('coroutine raised StopIteration', 'generator raised StopIteration'))
        if te2 == tg:
            return 'pep479-message-coroutine', {}
        te = te2
        coro_msg = True
    k = first_diff(te, tg)
    if k is None:
        return kind + ':no-diff', {}
    if k == 0 or k >= len(te) or k >= len(tg):
        return '%s:trace-shape' % kind, {'k': k}
    state = 'created'
    nonnone_send_unstarted = False
    for ent in te[1:k]:
        o = _opkey(ent[0])
        if state == 'created' and o.split('/')[0] in ('send:1', 'send:b', 'send:x', 'asend:1', 'asend:b', 'asend:x') \
                and _cls(ent[1]).endswith('exc:TypeError'):
            nonnone_send_unstarted = True
        state = C23_drive._state_after(ctx, kind, state, o, ent[1])
    op = te[k][0]
    inh = op.startswith('H!')
    inh_before = inh or any(ent[0].startswith('H!') for ent in te[1:k])
    inh_throw_before = any(ent[0].startswith('H!') and _opkey(ent[0]).split(':')[0].split('/')[0] in
                           ('throw', 'athrow', 'close', 'aclose') for ent in te[1:k + 1])
    inh_throw_before = inh_throw_before or any(ent[0].startswith('H!') and ent[0].endswith('/t') for ent in te[1:k + 1])
    o = _opkey(op)
    oe, og = te[k][1], tg[k][1]
    if state in ('finished', 'closed') and (_cls(oe) == 'yield' or (kind == 'agen' and _cls(oe).endswith(':stop')
                                                                   and not o.startswith(('aclose', 'athrow')))):
        # the bookkeeping thought the object was done, but the reference resumes it (e.g. an async generator that
        # swallowed an athrow(GeneratorExit)): the suspension point is simply not known
        state = 'susp-unknown'
    info = {'k': k, 'state': state, 'op': op}
    if state == 'agen-op-pending':
        # an operation issued while the awaitable of the previous one is still unfinished: CPython 3.12 answers
        # "asynchronous generator is already running", 3.13 (which AsyncGen.c follows) does not - not demanded (notes)
        return 'fa:agen-operation-while-previous-awaitable-pending', info
    opk = o.split(':')[0].split('/')[0]
    oparg = o.split(':')[1].split('/')[0] if ':' in o else ''
    pre = '%s:%s:%s' % (kind, state_class(state), opk)
    is_throw = opk in ('throw', 'athrow')
    is_exit = opk in ('close', 'aclose', 'del', '(drop)')
    lex = state.split('|')[0]
    unknown = state == 'susp-unknown'     # resumed after close() was ignored: suspension point not observable
    in_finally = lex.endswith('-finally') or '+f' in lex
    in_handler = in_finally or lex.endswith('-except') or '+x' in lex or unknown
    is_resume = opk in ('next', 'send', 'anext', 'asend', 'await-next')
    deleg_kind = state.split('|d=')[1] if '|d=' in state else None
    feats = diff_features(te[k], tg[k])
    info['features'] = sorted(set('%s/%s' % f for f in feats))
    kinds = {f[0] for f in feats}
    got_pep479 = 'RuntimeError' in _cls(og) and 'raised Stop' in json.dumps(og)
    exp_pep479 = 'RuntimeError' in _cls(oe) and 'raised Stop' in json.dumps(oe)
    got_finished = _cls(og).split(':', 1)[-1] in ('stop', 'astop') or 'cannot reuse already awaited' in json.dumps(og)
    got_ignored = 'ignored GeneratorExit' in json.dumps([og, tg[k][3]])
    exp_ignored = 'ignored GeneratorExit' in json.dumps([oe, te[k][3]])
    # (C) throw(StopIteration)/athrow(StopAsyncIteration) into a not-yet-started object: CPython raises it unchanged
    if is_throw and oparg in ('SI', 'SIi', 'SAI') and state == 'created' and got_pep479 and not exp_pep479:
        return 'throw-stopiteration-unstarted-pep479', info
    # (A) the first resume was a rejected send(non-None): CPython leaves the object startable, compiled object is finished
    if state == 'created' and nonnone_send_unstarted and not tg[k][2] and (got_finished or 'other' in kinds):
        # (no body code ran in the compiled object: it behaves like a finished one)
        return 'send-nonnone-unstarted-finishes', info
    # (C5) StopIteration thrown while delegating to an iterator without throw(): CPython 3.12 lets `yield from`/`await`
    # take it as the delegate's result, compiled code raises it at the delegation point
    throwless_somewhere = unknown and any(('deleg:' + x) in body.get('feat', ()) or ('await:' + x) in body.get('feat', ())
                                          for x in THROWLESS)
    if is_throw and oparg in ('SI', 'SIi') and (deleg_kind in THROWLESS or throwless_somewhere):
        return 'throw-stopiteration-into-throwless-delegate', info
    # (K) close()/finalisation of a generator that answers GeneratorExit by *returning a value*
    if is_exit and got_ignored and not exp_ignored and 'return-value-in-handler' in body.get('feat', ()):
        return 'close-return-value-raises-ignored-exit', info
    mode_t = o.endswith('/t')
    # an async-generator operation can pass through several awaits: the suspension that matters may lie inside the
    # operation, not before it
    multi_step = oe[0] == 'steps' and len(oe[1]) > 1
    finally_somewhere = any('finally' in c or '+f' in c for c in ctx.values())
    deleg_in_handler_somewhere = any('|d=' in c and ('finally' in c or 'except' in c or '+f' in c or '+x' in c)
                                     for c in ctx.values())
    thrown_before = set()
    for ent in te[1:k]:
        eo = _opkey(ent[0])
        ek = eo.split(':')[0].split('/')[0]
        if ek in ('throw', 'athrow'):
            thrown_before.add(THROWN_NAME.get(eo.split(':')[1].split('/')[0]))
        elif ek in ('close', 'aclose'):
            thrown_before.add('GeneratorExit')
        if eo.endswith('/t'):
            thrown_before.add('ValueError')
    if feats and kinds <= {'ctx-missing', 'ctx-outer', 'ctx-other'}:
        # differences confined to __context__ / sys.exc_info() observations: explain every one of them
        def explain(f):
            fk, owner = f
            if fk == 'ctx-outer':
                # (B2) throw()/close() issued while the caller handles an exception: the thrown exception is chained to
                # it (seen at once, or later when the thrown exception resurfaces)
                if inh_throw_before:
                    return 'throw-context-from-caller'
                # (G) try/finally 'return' paths put the exception the caller was handling at first entry back into the
                # generator's own exception state
                if inh_before:
                    return 'caller-exc-info-leaks-into-generator'
                return None
            if mode_t:
                # ValueError thrown into the half-driven asend()/athrow() awaitable, i.e. into an async generator that
                # is awaiting: it reaches the async generator through its delegate, see (M)
                return 'throw-context-in-handler-via-delegate'
            if in_handler and (deleg_kind or unknown):
                # (M) throw()/close() while delegating inside an except/finally block and the delegate lets the
                # exception out: CPython re-chains it to the outer generator's handled exception
                if is_throw or is_exit:
                    return 'throw-context-in-handler-via-delegate'
                # (N) the delegate raises on a plain resume: it is called outside the generator's exception context
                if is_resume and fk == 'ctx-missing':
                    return 'delegate-exception-context-in-handler'
            if fk == 'ctx-missing' and owner != 'log' and deleg_in_handler_somewhere and \
                    (str(owner).endswith('#delegate') or owner not in thrown_before) \
                    and ('ctx-missing', 'log') not in feats and not (is_throw and owner == THROWN_NAME.get(oparg)):
                # (N, delayed) an exception that came out of a delegate while the generator was handling another one
                # was parked by a finally clause that yields, and surfaces now: sys.exc_info() observations of this
                # operation are all right, only that exception still lacks the context CPython gave it
                return 'delegate-exception-context-in-handler'
            if fk == 'ctx-missing':
                # (F) suspended by a yield inside a finally clause that runs because of an exception
                if in_finally or unknown or (multi_step and finally_somewhere):
                    return 'yield-in-finally-clears-exc-info'
                # (B1) the exception thrown in (or GeneratorExit) does not get the generator's handled exception as context
                if (is_throw or is_exit) and owner in (THROWN_NAME.get(oparg), 'GeneratorExit', 'log'):
                    return 'throw-context-in-handler'
            if fk in ('ctx-missing', 'ctx-other') and owner in thrown_before:
                # (B1/M, delayed) an exception thrown in by an earlier operation was parked (e.g. by an __aexit__ that
                # awaits) and resurfaces now, still without the context CPython gave it
                return 'throw-context-in-handler'
            if fk == 'ctx-other' and got_pep479 and exp_pep479 and owner == 'RuntimeError':
                return 'pep479-runtimeerror-context-detail'
            return None
        keys = [explain(f) for f in feats]
        info['explained'] = sorted({x for x in keys if x})
        if all(keys):
            order = ['yield-in-finally-clears-exc-info', 'throw-context-in-handler', 'throw-context-in-handler-via-delegate',
                     'delegate-exception-context-in-handler', 'pep479-runtimeerror-context-detail',
                     'throw-context-from-caller', 'caller-exc-info-leaks-into-generator']
            return min(set(keys), key=order.index), info
        return '%s:context-%s' % (pre, '+'.join(sorted(x[4:] for x in kinds))), info
    if _cls(oe) != _cls(og):
        return '%s:%s:outcome:%s->%s' % (pre, oparg, _cls(oe), _cls(og)), info
    where = sorted({f[1] for f in feats if f[0] == 'other'})
    return '%s:%s:%s:%s' % (pre, oparg, '+'.join(where), _cls(oe)), info


def state_class(st):
    lex = st.split('|')[0]
    if st == 'created':
        return 'created'
    if lex.startswith('deleg'):
        return 'in-delegation'
    if st in ('closed', 'finished', 'running'):
        return st
    if st == 'agen-op-pending':
        return 'agen-op-pending'
    if lex.startswith('susp-plain'):
        return 'suspended-plain'
    if lex.startswith(('susp-except', 'susp-finally')) or '+x' in lex or '+f' in lex:
        return 'suspended-in-handler'
    if lex.startswith(('susp-try', 'susp-with')):
        return 'suspended-in-try'
    return 'suspended-other'


# ------------------------------------------------------------------------------------ workload
def histories_for(ck, rng, body, nrand, exh_len):
    kind = body['kind']
    out = []
    seen = set()
    for _ in range(nrand):
        flags = ''
        if kind == 'coro' and rng.random() < 0.15:
            flags = 'w'
        if kind == 'agen' and rng.random() < 0.2:
            flags = 'h'
        h = gengen.random_history(rng, kind)
        if flags == 'w':
            h = [('next' if (o == 'send:N' and rng.random() < 0.5) else o) for o in h]
        key = (tuple(h), flags)
        if key in seen:
            continue
        seen.add(key)
        out.append((h, flags, 'rand'))
    if exh_len:
        for h in gengen.exhaustive_histories(kind, exh_len):
            key = (tuple(h), '')
            if key in seen:
                continue
            seen.add(key)
            out.append((h, '', 'exh'))
    return out


def case_for(body, h, flags, hk):
    return {'x': 'drive(M, log, %r, %r, %r, %r)' % (body['name'], 'gen' if body['kind'] == 'genexpr' else body['kind'], h, flags),
            't': '%s/%s' % (body['kind'], hk), 'b': body['name'], 'h': h, 'fl': flags}


def raw_trace(obs):
    """observation ['ok', sig(trace), ['log', ...]] -> the trace as drive() returned it (nested lists)"""
    if not obs or obs[0] != 'ok':
        return None
    return _unsig(obs[1])


def _unsig(s):
    t = s[0]
    if t == 'list':
        return [_unsig(e) for e in s[1]]
    if t == 'str':
        return ast.literal_eval(s[1])
    if t == 'NoneType':
        return None
    if t == 'bool':
        return s[1] == 'True'
    if t == 'int':
        return int(s[1])
    return s


def main(ck):
    tree = cy.Tree('C23')
    rng = ck.rng('bodies')
    nbodies = ck.pick(72, 360)
    per_mod = ck.pick(9, 15)
    nrand = ck.pick(40, 200)
    n_exh_bodies = ck.pick(6, 18)
    exh_len = ck.pick(3, 4)
    mods = {}
    bodies = {}
    for mi in range(0, nbodies, per_mod):
        name = 'c23m%d' % (mi // per_mod)
        src, bl = gengen.gen_module(rng, min(per_mod, nbodies - mi), start=mi)
        mods[name] = src
        for b in bl:
            b['mod'] = name
            bodies[b['name']] = b
    d, info = tree.build_sources(mods, subdir='b', ext='.py')
    ck.cov['build_wall_s'] = round(ck.elapsed(), 1)
    skipped_build = 0
    covdir = tree.subdir('cov')
    covprefix = os.path.join(covdir, 'cov')
    total_n = 0
    samples = []
    hist_all = {}
    hrng = ck.rng('histories')
    exh_left = {'gen': (n_exh_bodies + 2) // 3, 'coro': n_exh_bodies // 3, 'agen': n_exh_bodies // 3}
    exh_done = 0
    ncases_by_kind = {}
    not_demanded = {}
    jobs = []
    for mname, inf in info.items():
        if not inf['ok']:
            skipped_build += 1
            ck.note('build failure %s at %s: %s' % (mname, inf['stage'], inf['errors'][-800:]))
            continue
        cases = []
        for b in [b for b in bodies.values() if b['mod'] == mname]:
            do_exh = 0
            if exh_left.get(b['kind'], 0) > 0 and b['nsusp'] >= 2:
                do_exh = exh_len
                exh_left[b['kind']] -= 1
                exh_done += 1
            for h, flags, hk in histories_for(ck, hrng, b, nrand, do_exh):
                cases.append(case_for(b, h, flags, hk))
                ncases_by_kind[b['kind']] = ncases_by_kind.get(b['kind'], 0) + 1
        jobs.append((mname, inf, cases))

    def run_module(job):
        mname, inf, cases = job
        return diff.run_cases(tree, d, mname, cases, ref=inf['src'], compare=COMPARE, env_mods=ENV_MODS,
                              preset=gengen.PRESET, tagdir='run_' + mname, timeout=1800, nproc=ck.pick(1, 2),
                              extra_env={'C23_COV': covprefix}, spec_extra={'catch_base': True, 'nsample': 2})

    with ThreadPoolExecutor(8) as ex:
        results = list(ex.map(run_module, jobs))
    for (mname, inf, cases), res in zip(jobs, results):
        total_n += res.n
        samples.extend(res.samples[:1])
        for k, v in res.hist.items():
            hist_all[k] = hist_all.get(k, 0) + v
        for m in res.mismatches:
            b = bodies[m['case']['b']]
            te, tg = raw_trace(m['exp']), raw_trace(m['got'])
            if te is None or tg is None:
                key, inf2 = '%s:driver-exception' % b['kind'], {}
            elif te == tg:
                key, inf2 = '%s:residual-log' % b['kind'], {}
            else:
                key, inf2 = mechanism(b, m['case']['h'], te, tg)
 
            if key.startswith('fa:'):
                not_demanded[key] = not_demanded.get(key, 0) + 1
                continue
            k = inf2.get('k')
            what = '%s %s history %s%s: at operation #%s (%s, arriving in state %s) CPython %s, compiled %s' % (
                b['kind'], b['name'], m['case']['h'], (' flags=' + m['case']['fl']) if m['case']['fl'] else '', k,
                inf2.get('op'), inf2.get('state'),
                json.dumps(te[k][1:] if te and k is not None and k < len(te) else m['exp'])[:300],
                json.dumps(tg[k][1:] if tg and k is not None and k < len(tg) else m['got'])[:300])
            ck.discrepancy(key, what, witness(b, m['case'], m['exp'], m['got'], inf2))
        for c in res.crashes:
            b = bodies[c['case']['b']]
            if c['kind'].startswith('HANG'):
                # a watchdog firing is never a verdict (the machine may simply be overloaded)
                ck.inconclusive_if(True, 'watchdog fired while driving %s with %s' % (b['name'], c['case']['h']))
                continue
            ckey = 'crash:%s' % b['kind']
            if 'bare-raise' in b['feat'] and any(x in b['feat'] for x in ('return-in-finally', 'return', 'break', 'continue')):
                # see C22 (crash-jump-out-of-except-clause-after-bare-raise): a bare 'raise' hands the handler's exception
                # variables over; a later return/break/continue out of that except clause DECREFs them again
                ckey = 'crash-jump-out-of-except-clause-after-bare-raise'
            ck.discrepancy(ckey, 'crash/hang %s driving %s with %s' % (c['kind'], b['name'], c['case']['h']),
                           dict(witness(b, c['case'], None, None, {}), stderr=c['stderr']))
        for ft in res.fatal:
            ck.inconclusive_if(True, 'driver failed for %s: %s' % (mname, str(ft)[-400:]))
    # ------------------------------------------------------------------ reach evidence from the reference side
    cells = {}
    distinct = set()
    unr = 0
    for p in glob.glob(covprefix + '.*'):
        with open(p) as f:
            for ln in f:
                try:
                    r = json.loads(ln)
                except ValueError:
                    continue
                for c in r['cells']:
                    cells[c] = cells.get(c, 0) + 1
                if r['nt']:
                    distinct.add(r['h'])
                unr += r['unr']
    states = {}
    for c, n in cells.items():
        kind, st, op = c.split('~')
        stc = state_class(st)
        states.setdefault(stc, {})
        opc = op.split(':')[0]
        states[stc][opc] = states[stc].get(opc, 0) + n
    nonempty = sum(len(v) for v in states.values())
    required = ['created', 'suspended-in-try', 'suspended-in-handler', 'in-delegation', 'running', 'closed', 'finished']
    for st in required:
        ck.inconclusive_if(not states.get(st), 'no operation arrived in state %r' % st)
    ck.inconclusive_if(nonempty < 35, 'only %d state x operation cells observed' % nonempty)
    ck.inconclusive_if(skipped_build * 5 > len(mods), '%d of %d modules failed to build' % (skipped_build, len(mods)))
    ck.inconclusive_if(unr == 0, 'no unraisable-hook record was produced by any abandonment/cleanup case')
    feat = {}
    for b in bodies.values():
        for f in b['feat']:
            feat[f] = feat.get(f, 0) + 1
    return ck.finish(
        total_n, len(distinct),
        'random bodies (generators with yield/yield from, coroutines awaiting hand-written awaitables, async generators, '
        'generator expressions) x random operation histories of length <= 8 plus exhaustive histories of length <= %d over 7 '
        'operations for %d bodies; every history ends with dropping the object + gc.collect() under an unraisable hook. '
        'A case is non-trivial when at least one operation arrives in a state other than "created" and the history has >= 2 '
        'operations; distinct = distinct (body, reference trace).' % (exh_len, exh_done),
        samples,
        extra={'bodies': len(bodies), 'modules': len(mods), 'modules_failed_build': skipped_build,
               'cases_by_kind': ncases_by_kind, 'state_x_operation': states, 'cells_nonempty': nonempty,
               'unraisable_records': unr, 'body_features': feat, 'not_demanded_by_fa_rules': not_demanded,
               'outcome_hist': dict(sorted(hist_all.items(), key=lambda kv: -kv[1])[:20])},
        assumptions=['CPython 3.12.1 executing the identical source is the reference',
                     'gi_frame/gi_code/cr_await internals and warnings are not compared (DESIGN C23 FA)',
                     'the type name reported for the created object is compared (generator/coroutine/async_generator)'])


def witness(b, case, exp, got, info):
    src = gengen.HEADER + '\n\n' + b['src'] + '\n\nCTXS = {%r: %r}\n' % (b['name'], b.get('ctx', {}))
    return {'module_source': src, 'ext': '.py', 'case': case, 'compare': COMPARE, 'env_mods': ENV_MODS,
            'preset': gengen.PRESET, 'expected': exp, 'observed': got, 'cflags': [], 'directives': {},
            'first_difference': info}


def replay(ck, data):
    w = data.get('witness', data)
    tree = cy.Tree('C23r')
    d, info = tree.build_sources({'replaymod': w['module_source']}, subdir='r', ext='.py')
    inf = info['replaymod']
    if not inf['ok']:
        print('build failed at', inf['stage'], inf['errors'][-2000:])
        return 2
    res = diff.run_cases(tree, d, 'replaymod', [w['case']], ref=inf['src'], compare=COMPARE, env_mods=ENV_MODS,
                         preset=gengen.PRESET, nproc=1, spec_extra={'catch_base': True})
    for m in res.mismatches:
        te, tg = raw_trace(m['exp']), raw_trace(m['got'])
        print('expected', json.dumps(te))
        print('observed', json.dumps(tg))
    for c in res.crashes:
        print('crash', c['kind'], c['stderr'][-1500:])
    if res.mismatches or res.crashes:
        print('VIOLATION property=%s replay=<replayed>' % ck.pid)
        return 1
    print('replay: case now agrees with the reference (%d evaluated)' % res.n)
    return 0
