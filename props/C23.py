"""C23 Generators and coroutines follow CPython's protocol on every history (DESIGN.md section 5, C23).

Generated generator / coroutine / async-generator / generator-expression bodies are compiled by the
working-tree compiler; every (body, operation history) is driven through `props.C23_drive.drive` on the
compiled object and on CPython executing the same source, and the whole traces are compared.
"""
import ast
import glob
import json
import os

from vlib import cy, diff
from vlib.gen import gengen
from props import C23_drive

COMPARE = {'exc_args': True, 'exc_chain': True, 'log': True}
ENV_MODS = ['vlib.values', 'props.C23_drive']


# ------------------------------------------------------------------------------------ classifier
def _cls(out):
    if out[0] == 'exc':
        return 'exc:' + out[1]
    if out[0] == 'steps':
        last = out[1][-1] if out[1] else ['?']
        return 'steps%d:%s' % (len(out[1]), _cls(last) if last[0] != 'steps' else '?')
    return out[0]


def _opkey(op):
    return op[2:] if op.startswith('H!') else op


def first_diff(te, tg):
    n = min(len(te), len(tg))
    for k in range(n):
        if te[k] != tg[k]:
            return k
    return n if len(te) != len(tg) else None


def leaf_diffs(a, b, path=(), owner=None):
    """yield (path, owner exception name, a, b) for the innermost differing positions of two sig-like structures.
    path items are (label of the enclosing list, index)."""
    if a == b:
        return
    if isinstance(a, list) and isinstance(b, list) and len(a) == len(b) and \
            (not a or not isinstance(a[0], str) or a[0] == b[0]):
        label = a[0] if a and isinstance(a[0], str) else None
        if label == 'exc' and len(a) > 1 and isinstance(a[1], str) and a[1] == b[1]:
            owner = a[1]
        elif label in ('stop', 'astop'):
            owner = 'StopIteration' if label == 'stop' else 'StopAsyncIteration'
        elif label == 'tuple' and len(a) > 1 and isinstance(a[1], list) and a[1] and a[1][0] == ['str', "'caught'"]:
            label = 'caught-log'
        for i, (x, y) in enumerate(zip(a, b)):
            yield from leaf_diffs(x, y, path + ((label, i),), owner)
    else:
        yield (path, owner, a, b)


def _is_context_slot(path):
    """does the path end in the __context__ slot of an exception sig or of a stop chain"""
    if not path:
        return False
    if path[-1] == ('context', 1):
        return True
    if len(path) >= 2 and path[-2][0] in ('stop', 'astop') and path[-2][1] == 2 and path[-1][1] == 1:
        return True
    return False


def _is_caught_ctx(path):
    # the body logs ('caught', name, args, type(__context__).__name__): -> (..., ('caught-log', 1), (None, 3), ...)
    for i in range(len(path) - 1):
        if path[i] == ('caught-log', 1) and path[i + 1][1] == 3:
            return True
    return False


OUTER = ['exc', 'KeyError', ['tuple', [['str', "'outer'"]]]]
THROWN_NAME = {'V': 'ValueError', 'Vi': 'ValueError', 'GE': 'GeneratorExit', 'GEi': 'GeneratorExit', 'SI': 'StopIteration',
               'SIi': 'StopIteration', 'SAI': 'StopAsyncIteration', 'MB': 'MyBase', 'ME': 'MyErr', 'KE': 'KeyError',
               '2arg': 'ValueError'}


def _has_outer(x):
    if isinstance(x, list):
        if x[:3] == OUTER or x == ['str', "'KeyError'"]:
            return True
        return any(_has_outer(e) for e in x)
    return False


def _text(out):
    return json.dumps(out[:3] if out and out[0] == 'exc' else out)


def mechanism(body, hist, te, tg):
    """Mechanism key of a trace discrepancy. te/tg: raw traces (reference, compiled).
    Only structural features are used: object kind, abstract state in which the first differing operation
    arrived (from the reference trace), the operation, and where the two observations differ."""
    kind = body['kind']
    ctx = {int(k): v for k, v in body.get('ctx', {}).items()}
    k = first_diff(te, tg)
    if k is None:
        return kind + ':no-diff', {}
    if k == 0 or k >= len(te) or k >= len(tg):
        return '%s:trace-shape' % kind, {'k': k}
    state = 'created'
    nonnone_send_unstarted = False
    for ent in te[1:k]:
        o = _opkey(ent[0])
        if state == 'created' and o.split('/')[0] in ('send:1', 'send:b', 'send:x', 'asend:1', 'asend:b', 'asend:x') \
                and _cls(ent[1]).endswith('exc:TypeError'):
            nonnone_send_unstarted = True
        state = C23_drive._state_after(ctx, kind, state, o, ent[1])
    op = te[k][0]
    inh = op.startswith('H!')
    o = _opkey(op)
    oe, og = te[k][1], tg[k][1]
    info = {'k': k, 'state': state, 'op': op}
    opk = o.split(':')[0].split('/')[0]
    oparg = o.split(':')[1].split('/')[0] if ':' in o else ''
    pre = '%s:%s:%s' % (kind, state_class(state), o)
    is_throw = opk in ('throw', 'athrow')
    is_exit = opk in ('close', 'aclose', 'del', '(drop)')
    # (A) the first resume was a rejected send(non-None): CPython leaves the object startable
    if state == 'created' and nonnone_send_unstarted:
        return 'send-nonnone-unstarted-finishes', info
    diffs = list(leaf_diffs(te[k][1:], tg[k][1:]))
    info['diffs'] = [[[list(x) for x in p], ow, json.dumps(a)[:120], json.dumps(b)[:120]] for p, ow, a, b in diffs[:4]]
    got_pep479 = 'RuntimeError' in _cls(og) and 'raised Stop' in json.dumps(og)
    exp_pep479 = 'RuntimeError' in _cls(oe) and 'raised Stop' in json.dumps(oe)
    # (C) throw(StopIteration)/athrow(StopAsyncIteration) into a not-yet-started object: CPython raises it unchanged
    if is_throw and oparg in ('SI', 'SIi', 'SAI') and state == 'created' and got_pep479 and not exp_pep479:
        return 'throw-stopiteration-unstarted-pep479', info
    # (C5) StopIteration thrown while delegating: CPython 3.12 lets `yield from` take it as the delegate's result
    if is_throw and oparg in ('SI', 'SIi') and state == 'deleg' and got_pep479 and not exp_pep479:
        return 'throw-stopiteration-in-delegation-pep479', info
    # chain-only differences
    if diffs and all(_is_context_slot(p) or _is_caught_ctx(p) for p, _, _, _ in diffs):
        missing = [d for d in diffs if (d[3] is None or d[3] == ['str', "'NoneType'"]) and d[2] is not None]
        extra_outer = [d for d in diffs if _has_outer(d[3]) and not _has_outer(d[2])]
        if len(missing) == len(diffs) and (is_throw or is_exit):
            # the exception thrown in (or GeneratorExit) did not get the generator's own handled exception as context
            if all(_is_caught_ctx(d[0]) or d[1] in (THROWN_NAME.get(oparg), 'GeneratorExit') for d in missing):
                return 'throw-context-in-handler', info
        if len(extra_outer) == len(diffs) and inh and (is_throw or is_exit):
            return 'throw-context-from-caller', info
        return '%s:chain:%s' % (pre, 'missing' if missing else 'extra' if extra_outer else 'other'), info
    if _cls(oe) != _cls(og):
        return '%s:outcome:%s->%s' % (pre, _cls(oe), _cls(og)), info
    d0 = diffs[0][0] if diffs else ()
    where = 'outcome' if d0 and d0[0][1] == 0 else 'log' if d0 and d0[0][1] == 1 else 'unraisable'
    if where == 'unraisable':
        return '%s:unraisable:%s->%s' % (pre, [u[0] for u in te[k][3]], [u[0] for u in tg[k][3]]), info
    return '%s:%s:%s' % (pre, where, _cls(oe)), info


def state_class(st):
    if st == 'created':
        return 'created'
    if st == 'deleg':
        return 'in-delegation'
    if st in ('closed', 'finished', 'running'):
        return st
    if st == 'agen-op-pending':
        return 'agen-op-pending'
    if st.startswith('susp-plain'):
        return 'suspended-plain'
    if st.startswith(('susp-except', 'susp-finally')) or '+h' in st:
        return 'suspended-in-handler'
    if st.startswith(('susp-try', 'susp-with')):
        return 'suspended-in-try'
    return 'suspended-other'


# ------------------------------------------------------------------------------------ workload
def histories_for(ck, rng, body, nrand, exh_len):
    kind = body['kind']
    out = []
    seen = set()
    for _ in range(nrand):
        flags = ''
        if kind == 'coro' and rng.random() < 0.15:
            flags = 'w'
        if kind == 'agen' and rng.random() < 0.2:
            flags = 'h'
        h = gengen.random_history(rng, kind)
        if flags == 'w':
            h = [('next' if (o == 'send:N' and rng.random() < 0.5) else o) for o in h]
        key = (tuple(h), flags)
        if key in seen:
            continue
        seen.add(key)
        out.append((h, flags, 'rand'))
    if exh_len:
        for h in gengen.exhaustive_histories(kind, exh_len):
            key = (tuple(h), '')
            if key in seen:
                continue
            seen.add(key)
            out.append((h, '', 'exh'))
    return out


def case_for(body, h, flags, hk):
    return {'x': 'drive(M, log, %r, %r, %r, %r)' % (body['name'], 'gen' if body['kind'] == 'genexpr' else body['kind'], h, flags),
            't': '%s/%s' % (body['kind'], hk), 'b': body['name'], 'h': h, 'fl': flags}


def raw_trace(obs):
    """observation ['ok', sig(trace), ['log', ...]] -> the trace as drive() returned it (nested lists)"""
    if not obs or obs[0] != 'ok':
        return None
    return _unsig(obs[1])


def _unsig(s):
    t = s[0]
    if t == 'list':
        return [_unsig(e) for e in s[1]]
    if t == 'str':
        return ast.literal_eval(s[1])
    if t == 'NoneType':
        return None
    if t == 'bool':
        return s[1] == 'True'
    if t == 'int':
        return int(s[1])
    return s


def main(ck):
    tree = cy.Tree('C23')
    rng = ck.rng('bodies')
    nbodies = ck.pick(96, 1440)
    per_mod = ck.pick(6, 24)
    nrand = ck.pick(40, 200)
    n_exh_bodies = ck.pick(9, 50)
    exh_len = ck.pick(3, 4)
    mods = {}
    bodies = {}
    for mi in range(0, nbodies, per_mod):
        name = 'c23m%d' % (mi // per_mod)
        src, bl = gengen.gen_module(rng, min(per_mod, nbodies - mi), start=mi)
        mods[name] = src
        for b in bl:
            b['mod'] = name
            bodies[b['name']] = b
    d, info = tree.build_sources(mods, subdir='b', ext='.py')
    skipped_build = 0
    covdir = tree.subdir('cov')
    covprefix = os.path.join(covdir, 'cov')
    total_n = 0
    samples = []
    hist_all = {}
    hrng = ck.rng('histories')
    exh_left = {'gen': (n_exh_bodies + 2) // 3, 'coro': n_exh_bodies // 3, 'agen': n_exh_bodies // 3}
    exh_done = 0
    ncases_by_kind = {}
    for mname, inf in info.items():
        if not inf['ok']:
            skipped_build += 1
            ck.note('build failure %s at %s: %s' % (mname, inf['stage'], inf['errors'][-800:]))
            continue
        cases = []
        for b in [b for b in bodies.values() if b['mod'] == mname]:
            do_exh = 0
            if exh_left.get(b['kind'], 0) > 0 and b['nsusp'] >= 2:
                do_exh = exh_len
                exh_left[b['kind']] -= 1
                exh_done += 1
            for h, flags, hk in histories_for(ck, hrng, b, nrand, do_exh):
                cases.append(case_for(b, h, flags, hk))
                ncases_by_kind[b['kind']] = ncases_by_kind.get(b['kind'], 0) + 1
        res = diff.run_cases(tree, d, mname, cases, ref=inf['src'], compare=COMPARE, env_mods=ENV_MODS,
                             preset=gengen.PRESET, tagdir='run_' + mname, timeout=900, nproc=ck.pick(2, 8),
                             extra_env={'C23_COV': covprefix}, spec_extra={'catch_base': True, 'nsample': 2})
        total_n += res.n
        samples.extend(res.samples[:1])
        for k, v in res.hist.items():
            hist_all[k] = hist_all.get(k, 0) + v
        for m in res.mismatches:
            b = bodies[m['case']['b']]
            te, tg = raw_trace(m['exp']), raw_trace(m['got'])
            if te is None or tg is None:
                key, inf2 = '%s:driver-exception' % b['kind'], {}
            elif te == tg:
                key, inf2 = '%s:residual-log' % b['kind'], {}
            else:
                key, inf2 = mechanism(b, m['case']['h'], te, tg)
            k = inf2.get('k')
            what = '%s %s history %s%s: at operation #%s (%s, arriving in state %s) CPython %s, compiled %s' % (
                b['kind'], b['name'], m['case']['h'], (' flags=' + m['case']['fl']) if m['case']['fl'] else '', k,
                inf2.get('op'), inf2.get('state'),
                json.dumps(te[k][1:] if te and k is not None and k < len(te) else m['exp'])[:300],
                json.dumps(tg[k][1:] if tg and k is not None and k < len(tg) else m['got'])[:300])
            ck.discrepancy(key, what, witness(b, m['case'], m['exp'], m['got'], inf2))
        for c in res.crashes:
            b = bodies[c['case']['b']]
            ck.discrepancy('crash:%s' % b['kind'], 'crash/hang %s driving %s with %s' % (c['kind'], b['name'], c['case']['h']),
                           dict(witness(b, c['case'], None, None, {}), stderr=c['stderr']))
        for ft in res.fatal:
            ck.inconclusive_if(True, 'driver failed for %s: %s' % (mname, str(ft)[-400:]))
    # ------------------------------------------------------------------ reach evidence from the reference side
    cells = {}
    distinct = set()
    unr = 0
    for p in glob.glob(covprefix + '.*'):
        with open(p) as f:
            for ln in f:
                try:
                    r = json.loads(ln)
                except ValueError:
                    continue
                for c in r['cells']:
                    cells[c] = cells.get(c, 0) + 1
                if r['nt']:
                    distinct.add(r['h'])
                unr += r['unr']
    states = {}
    for c, n in cells.items():
        kind, st, op = c.split('|')
        stc = state_class(st)
        states.setdefault(stc, {})
        opc = op.split(':')[0]
        states[stc][opc] = states[stc].get(opc, 0) + n
    nonempty = sum(len(v) for v in states.values())
    required = ['created', 'suspended-in-try', 'suspended-in-handler', 'in-delegation', 'running', 'closed', 'finished']
    for st in required:
        ck.inconclusive_if(not states.get(st), 'no operation arrived in state %r' % st)
    ck.inconclusive_if(nonempty < 35, 'only %d state x operation cells observed' % nonempty)
    ck.inconclusive_if(skipped_build * 5 > len(mods), '%d of %d modules failed to build' % (skipped_build, len(mods)))
    ck.inconclusive_if(unr == 0, 'no unraisable-hook record was produced by any abandonment/cleanup case')
    feat = {}
    for b in bodies.values():
        for f in b['feat']:
            feat[f] = feat.get(f, 0) + 1
    return ck.finish(
        total_n, len(distinct),
        'random bodies (generators with yield/yield from, coroutines awaiting hand-written awaitables, async generators, '
        'generator expressions) x random operation histories of length <= 8 plus exhaustive histories of length <= %d over 7 '
        'operations for %d bodies; every history ends with dropping the object + gc.collect() under an unraisable hook. '
        'A case is non-trivial when at least one operation arrives in a state other than "created" and the history has >= 2 '
        'operations; distinct = distinct (body, reference trace).' % (exh_len, exh_done),
        samples,
        extra={'bodies': len(bodies), 'modules': len(mods), 'modules_failed_build': skipped_build,
               'cases_by_kind': ncases_by_kind, 'state_x_operation': states, 'cells_nonempty': nonempty,
               'unraisable_records': unr, 'body_features': feat,
               'outcome_hist': dict(sorted(hist_all.items(), key=lambda kv: -kv[1])[:20])},
        assumptions=['CPython 3.12.1 executing the identical source is the reference',
                     'gi_frame/gi_code/cr_await internals and warnings are not compared (DESIGN C23 FA)',
                     'the type name reported for the created object is compared (generator/coroutine/async_generator)'])


def witness(b, case, exp, got, info):
    src = gengen.HEADER + '\n\n' + b['src'] + '\n\nCTXS = {%r: %r}\n' % (b['name'], b.get('ctx', {}))
    return {'module_source': src, 'ext': '.py', 'case': case, 'compare': COMPARE, 'env_mods': ENV_MODS,
            'preset': gengen.PRESET, 'expected': exp, 'observed': got, 'cflags': [], 'directives': {},
            'first_difference': info}


def replay(ck, data):
    w = data.get('witness', data)
    tree = cy.Tree('C23r')
    d, info = tree.build_sources({'replaymod': w['module_source']}, subdir='r', ext='.py')
    inf = info['replaymod']
    if not inf['ok']:
        print('build failed at', inf['stage'], inf['errors'][-2000:])
        return 2
    res = diff.run_cases(tree, d, 'replaymod', [w['case']], ref=inf['src'], compare=COMPARE, env_mods=ENV_MODS,
                         preset=gengen.PRESET, nproc=1, spec_extra={'catch_base': True})
    for m in res.mismatches:
        te, tg = raw_trace(m['exp']), raw_trace(m['got'])
        print('expected', json.dumps(te))
        print('observed', json.dumps(tg))
    for c in res.crashes:
        print('crash', c['kind'], c['stderr'][-1500:])
    if res.mismatches or res.crashes:
        print('VIOLATION property=%s replay=<replayed>' % ck.pid)
        return 1
    print('replay: case now agrees with the reference (%d evaluated)' % res.n)
    return 0
