"""C12 worker (runs with the source mirror first on PYTHONPATH).

  python -m props.C12_worker extract <mirror> <out.inc>
      writes proto+impl of utility code section DecompressString_LZSS (Cython's own UtilityCode.load).
  python -m props.C12_worker run <spec.json>
      real Cython.LZSS.lzss_compress (interpreted) -> real C decompressor (ASan/UBSan harness) and the
      independent reference decoder; spec = {mirror, harness_dir, seed, tier, chunk, nchunks, start, out, progress,
      files: [...], explicit_hex: [...]}
"""
import itertools
import json
import os
import random
import sys

VOCAB = ('self value result index name items append __init__ __pyx_ cython compile module error print return '
         'lambda import from class def None True False int float str bytes list dict tuple set object type '
         'Exception ValueError TypeError KeyError range len enumerate zip map filter sorted node pos scope entry '
         'code env analyse generate_result_code put_ declare temp cname utility buffer memoryview').split()

GAPS = sorted(set(
    [0, 1, 2, 3] + [0x7F + d for d in range(-3, 4)] + [0x27F + d for d in range(-3, 5)] +
    [0x17F, 0x180, 0x181, 0xFF, 0x100, 0x101, 0x1FF, 0x200, 0x201] +
    [0x407F + d for d in range(-3, 6)] + [0x2000, 0x3FFF, 0x4000, 0x4001, 0x40FF, 0x4100, 0x4200]))
LENS = [3, 4, 5, 33, 34, 35, 36, 37, 66, 257, 258, 259, 260, 261, 516, 600]


def descriptors(seed, tier):
    """Deterministic list of case descriptors (small tuples); data are materialised lazily."""
    if tier == 'replay':
        return []
    q = tier == 'quick'
    out = [('empty',)]
    # exhaustive small strings
    for alpha, maxlen in ((b'ab\x00', 4), (b'abcde', 3), (b'ab', 10 if q else 14), (b'a\x00\xff', 7 if q else 9),
                          (b'abcd', 5 if q else 7)):
        for n in range(1, maxlen + 1):
            out.append(('exh', alpha.hex(), n))        # expands to all strings of that length (one descriptor)
    # periodic strings, every period 1..300
    for p in range(1, 301):
        for n in (2 * p + 3, 2 * p + 37, 3 * p + 300) + (() if q else (5 * p + 1000,)):
            out.append(('period', p, n))
    # a block repeated after a gap of fresh bytes: every encoding limit +-3, match lengths at the limits
    for gap in GAPS:
        for ln in LENS:
            # variant 1: the gap is a run that itself compresses to a few tokens (cheap for the interpreted compressor);
            # variant 0: the gap is fresh random bytes (one literal token per byte)
            out.append(('far', gap, ln, 1))
            if gap <= 0x1000 or (not q) or (ln in (4, 35, 258) and gap in (0x407F, 0x4080, 0x4081)):
                out.append(('far', gap, ln, 0))
    for gap in GAPS:
        if gap >= 6:
            out.append(('far3', gap, 40, 1))
    # random text over small alphabets
    rng = random.Random('C12:desc:%s' % seed)
    n_small = 21000 if q else 1400000
    for i in range(n_small):
        k = rng.choice([1, 2, 2, 3, 3, 4, 5, 8, 16])
        n = rng.choice([6, 7, 8, 9, 10, 12, 16, 20, 24, 33, 40, 64, 100]) if rng.random() < 0.9 else rng.randint(100, 700)
        out.append(('rand', k, n, i))
    n_mid = 200 if q else 6000
    for i in range(n_mid):
        k = rng.choice([2, 3, 4, 16, 64, 256])
        n = rng.randint(700, 4000 if k < 16 else 12000)
        out.append(('rand', k, n, 10 ** 7 + i))
    n_text = 24 if q else 500
    for i in range(n_text):
        out.append(('text', rng.choice([500, 2000, 8000, 20000, 30000] if q else [2000, 20000, 60000, 100000]), i))
    n_large = 3 if q else 500
    for i in range(n_large):
        out.append(('large', rng.choice([256, 256, 200]), rng.choice([40000, 100000] if q else [100000, 300000, 1048576]), i))
    return out


def materialise(d, seed):
    """descriptor -> list of byte strings"""
    kind = d[0]
    if kind == 'empty':
        return [b'']
    if kind == 'exh':
        alpha = bytes.fromhex(d[1])
        return [bytes(t) for t in itertools.product(alpha, repeat=d[2])]
    rng = random.Random('C12:%s:%r' % (seed, d))
    if kind == 'period':
        _, p, n = d
        k = rng.choice([2, 3, 256, 256])
        unit = bytes(rng.randrange(k) + (97 if k < 10 else 0) for _ in range(p))
        return [(unit * (n // p + 1))[:n]]
    if kind in ('far', 'far3'):
        gap, ln, variant = d[1], d[2], d[3]
        a = bytes(rng.randrange(0, 128) for _ in range(ln))
        if variant == 0:
            filler = bytes(rng.randrange(128, 256) for _ in range(gap))
        else:
            unit = bytes(rng.randrange(128, 256) for _ in range(rng.choice([1, 2, 5])))
            filler = (unit * (gap // len(unit) + 1))[:gap]
        pre = bytes(rng.randrange(128, 256) for _ in range(rng.choice([0, 1, 5, 8])))
        if kind == 'far':
            tail = bytes(rng.randrange(128, 256) for _ in range(rng.choice([0, 0, 1, 7])))
            return [pre + a + filler + a + tail]
        f2 = bytes(rng.randrange(128, 256) for _ in range(rng.choice([0, 3, 0x90, 0x300])))
        return [pre + a + filler + a[:ln // 2] + f2 + a]
    if kind == 'rand':
        _, k, n, _i = d
        base = rng.choice([0, 97, 250]) if k <= 5 else 0
        return [bytes((base + rng.randrange(k)) & 255 for _ in range(n))]
    if kind == 'text':
        _, n, _i = d
        words = []
        size = 0
        voc = VOCAB + ['w%d' % rng.randrange(10 ** 4) for _ in range(rng.choice([5, 50, 400]))]
        while size < n:
            w = rng.choice(voc) + rng.choice(['', '', '_', '.', '\x00', ' '])
            if rng.random() < 0.1:
                w += rng.choice(voc)
            words.append(w)
            size += len(w)
        return [''.join(words).encode('utf-8')[:n]]
    if kind == 'large':
        _, k, n, _i = d
        blocks = []
        size = 0
        while size < n:
            if blocks and rng.random() < 0.3:
                b = rng.choice(blocks)
                b = b[:rng.randint(3, len(b))]
            else:
                b = bytes(rng.randrange(k) for _ in range(rng.randint(3, 400)))
            blocks.append(b)
            size += len(b)
        return [b''.join(blocks)[:n]]
    raise ValueError(d)


def gap_class(g):
    return '<=0x7f' if g <= 0x7F else '0x80-0x27f' if g <= 0x27F else '0x280-0x407f' if g <= 0x407F else '>0x407f'


def len_class(n):
    return '3' if n == 3 else '4-34' if n <= 34 else '35-258' if n <= 258 else '>258'


def token_at(tokens, i):
    for (start, form, gap, ln) in reversed(tokens):
        if start <= i:
            if form == 'literal':
                return 'literal'
            return 'form-%s:gap%s:len%s' % (form, gap_class(gap), len_class(ln))
    return 'none'


def decode_tokens(comp, n):
    """token list of a stream per the format (lenient: stops at stream end) -> [(out_start, form, gap, ln)]"""
    toks = []
    pos = 0
    outlen = 0
    try:
        while outlen < n and pos < len(comp):
            flags = comp[pos]
            pos += 1
            for bit in range(8):
                if (flags >> bit) & 1:
                    toks.append((outlen, 'literal', 0, 1))
                    pos += 1
                    outlen += 1
                else:
                    lo, hi = comp[pos], comp[pos + 1]
                    pos += 2
                    if lo < 0x80:
                        gap, ln, form = lo, hi + 3, 'A'
                    elif hi < 0x80:
                        gap, ln, form = 0x80 + (((hi & 0x60) << 2) | (lo & 0x7F)), (hi & 0x1F) + 3, 'B'
                    else:
                        gap, ln, form = 0x80 + (((hi & 0x7F) << 7) | (lo & 0x7F)), comp[pos] + 3, 'C'
                        pos += 1
                    toks.append((outlen, form, gap, ln))
                    outlen += ln
                if outlen >= n:
                    break
    except IndexError:
        pass
    return toks


def first_diff(a, b):
    for i, (x, y) in enumerate(zip(a, b)):
        if x != y:
            return i
    return min(len(a), len(b))


def extract(mirror, out):
    import Cython.Compiler.Code as Code
    assert Code.__file__.endswith('.py') and os.path.realpath(Code.__file__).startswith(os.path.realpath(mirror)), Code.__file__
    u = Code.UtilityCode.load('DecompressString_LZSS', 'StringTools.c')
    with open(out, 'w') as f:
        f.write('/* extracted from %s by UtilityCode.load */\n' % os.path.join(os.path.dirname(Code.__file__), '..', 'Utility', 'StringTools.c'))
        f.write(u.proto or '')
        f.write('\n')
        f.write(u.impl or '')
    return 0


class Child:
    """The sanitizer side: a child process (LD_PRELOAD=libasan, PYTHONMALLOC=malloc) that loads the harness and
    decompresses every (compressed, n) pair it is sent.  A sanitizer abort kills only the child."""

    def __init__(self, spec):
        self.spec = spec
        self.p = None

    def start(self):
        import subprocess
        env = dict(os.environ)
        env.update(self.spec['san_env'])
        # UBSan of a combined ASan+UBSan build reports on fd 2 only: keep it next to the ASan log files
        self.n = getattr(self, 'n', 0) + 1
        err = open(os.path.join(self.spec['san_logdir'], 'ubsan.stderr.%d.%d' % (os.getpid(), self.n)), 'wb')
        self.p = subprocess.Popen([sys.executable, '-m', 'props.C12_worker', 'decomp', self.spec['harness_dir']],
                                  stdin=subprocess.PIPE, stdout=subprocess.PIPE, stderr=err, env=env)
        err.close()

    def ask(self, data, comp, timeout=180):
        """-> dict from the child, or {'died': rc} / {'hang': True}"""
        import select
        import struct
        if self.p is None or self.p.poll() is not None:
            self.start()
        try:
            self.p.stdin.write(struct.pack('<QQ', len(data), len(comp)) + data + comp)
            self.p.stdin.flush()
        except (BrokenPipeError, OSError):
            rc = self.p.wait()
            self.p = None
            return {'died': rc}
        r, _, _ = select.select([self.p.stdout], [], [], timeout)
        if not r:
            self.p.kill()
            self.p.wait()
            self.p = None
            return {'hang': True}
        line = self.p.stdout.readline()
        if not line:
            rc = self.p.wait()
            self.p = None
            return {'died': rc}
        return json.loads(line)

    def close(self):
        if self.p is not None and self.p.poll() is None:
            try:
                self.p.stdin.close()
                self.p.wait(timeout=30)
            except Exception:
                self.p.kill()


def decomp(harness_dir):
    """child main loop (runs under ASan/UBSan)"""
    import struct
    sys.path.insert(0, harness_dir)
    import c12_lzss_harness as H
    inp, out = sys.stdin.buffer, sys.stdout.buffer
    while True:
        h = inp.read(16)
        if len(h) < 16:
            return 0
        n, cl = struct.unpack('<QQ', h)
        data = inp.read(n)
        comp = inp.read(cl)
        c_out, c_used = H.raw(comp, n)
        rec = {'used': c_used, 'equal': c_out == data, 'diff': None, 'full': 'ok'}
        if c_out != data:
            rec['diff'] = first_diff(c_out, data)
        try:
            f_out = H.full(comp, n)
            if f_out != data:
                rec['full'] = 'differs'
        except RuntimeError as e:
            rec['full'] = 'error: %s' % e
        out.write(json.dumps(rec).encode() + b'\n')
        out.flush()


def run(specfile):
    spec = json.load(open(specfile))
    import Cython.LZSS as LZ
    from vlib.ref import lzss_ref
    ok = LZ.__file__.endswith('.py') and os.path.realpath(LZ.__file__).startswith(os.path.realpath(spec['mirror']))
    out = open(spec['out'], 'a')

    def emit(rec):
        out.write(json.dumps(rec) + '\n')
        out.flush()
    if not ok:
        emit({'fatal': 'Cython.LZSS not loaded from the mirror: %r' % LZ.__file__})
        return 3
    child = Child(spec)
    descs = descriptors(spec['seed'], spec['tier'])
    for p in spec.get('files', []):
        descs.append(('file', p))
    for h in spec.get('explicit_hex', []):
        descs.append(('hex', h))
    pfd = os.open(spec['progress'], os.O_WRONLY | os.O_CREAT, 0o644)
    st = {'cases': 0, 'bytes_in': 0, 'bytes_out': 0, 'stats': {}, 'by_kind': {}, 'distinct_with_backref': 0,
          'samples': [], 'maxsize': 0, 'child_aborts': 0}
    start = spec.get('start', [0, 0])
    nch, ch = spec['nchunks'], spec['chunk']
    for di in range(ch, len(descs), nch):
        if di < start[0]:
            continue
        d = descs[di]
        if d[0] == 'file':
            datas = [open(d[1], 'rb').read()]
        elif d[0] == 'hex':
            datas = [bytes.fromhex(d[1])]
        else:
            datas = materialise(d, spec['seed'])
        for si, data in enumerate(datas):
            if di == start[0] and si < start[1]:
                continue
            os.pwrite(pfd, b'%10d %10d' % (di, si), 0)
            n = len(data)
            comp = LZ.lzss_compress(data)
            st['cases'] += 1
            st['bytes_in'] += n
            st['bytes_out'] += len(comp)
            st['maxsize'] = max(st['maxsize'], n)
            st['by_kind'][d[0]] = st['by_kind'].get(d[0], 0) + 1
            problems = []
            toks = None
            # independent reference decoder (oracle for the compressor)
            try:
                r_out, r_used, stats = lzss_ref.decode(comp, n)
                for k, v in stats.items():
                    st['stats'][k] = st['stats'].get(k, 0) + v
                if stats['A'] + stats['B'] + stats['C']:
                    st['distinct_with_backref'] += 1
                if r_out != data:
                    toks = decode_tokens(comp, n)
                    problems.append(('compressor:wrong-stream:' + token_at(toks, first_diff(r_out, data)),
                                     'reference decoder output differs from the input at byte %d' % first_diff(r_out, data)))
                elif r_used != len(comp):
                    problems.append(('compressor:stream-length', 'reference decoder consumed %d of %d compressed bytes' % (r_used, len(comp))))
            except lzss_ref.BadStream as e:
                problems.append(('compressor:bad-stream', str(e)))
            # the real C decompressor on exact-size heap blocks, in the sanitizer child
            c = child.ask(data, comp)
            rec_extra = {}
            if 'died' in c or 'hang' in c:
                st['child_aborts'] += 1
                logs = []
                import glob
                for lp in sorted(glob.glob(os.path.join(spec['san_logdir'], '*san.*'))):
                    try:
                        t = open(lp, errors='replace').read()[:4000]
                        os.unlink(lp)
                        if t.strip():
                            logs.append(t)
                    except OSError:
                        pass
                rec_extra = {'abort': c, 'logs': logs}
                problems.append(('ABORT', 'sanitizer child %s' % c))
                if st['child_aborts'] > spec.get('max_aborts', 8):
                    emit({'problem': problems, 'desc': list(d), 'sub': si, 'n': n, 'abort': c,
                          'data_hex': data.hex() if n <= 70000 else None, 'comp_hex': comp.hex() if len(comp) <= 70000 else None})
                    emit({'fatal': 'more than %d sanitizer aborts in one worker' % spec.get('max_aborts', 8)})
                    return 5
            else:
                side = 'decompressor' if not problems else 'both'
                if not c['equal']:
                    toks = toks or decode_tokens(comp, n)
                    problems.append(('%s:wrong-output:%s' % (side, token_at(toks, c['diff'])),
                                     'C decompressor output differs from the input at byte %d' % c['diff']))
                elif c['used'] != len(comp):
                    problems.append(('%s:consumed-length' % side, 'C decompressor consumed %d of %d compressed bytes' % (c['used'], len(comp))))
                if c['full'] == 'differs' and c['equal']:
                    problems.append(('decompressor:wrapper-output', '__Pyx_DecompressString_LZSS returned other bytes'))
                elif c['full'].startswith('error') and c['used'] == len(comp):
                    problems.append(('decompressor:wrapper-error', '__Pyx_DecompressString_LZSS raised %s' % c['full']))
            if problems:
                rec = {'problem': problems, 'desc': list(d), 'sub': si, 'n': n,
                       'data_hex': data.hex() if n <= 70000 else None, 'comp_hex': comp.hex() if len(comp) <= 70000 else None}
                rec.update(rec_extra)
                emit(rec)
            elif len(st['samples']) < 3 and 8 <= n <= 40 and comp and len(comp) < n:
                st['samples'].append({'input': repr(data), 'compressed_hex': comp.hex(), 'consumed': c['used']})
    child.close()
    os.pwrite(pfd, b'%10d %10d' % (len(descs), 0), 0)
    emit({'done': True, 'summary': st, 'ndesc': len(descs)})
    out.close()
    return 0


if __name__ == '__main__':
    if sys.argv[1] == 'extract':
        rc = extract(sys.argv[2], sys.argv[3])
    elif sys.argv[1] == 'decomp':
        rc = decomp(sys.argv[2])
    else:
        rc = run(sys.argv[2])
    sys.stdout.flush()
    os._exit(rc)
