"""C12 worker (runs with the source mirror first on PYTHONPATH).

  python -m props.C12_worker extract <mirror> <out.inc>
      writes proto+impl of utility code section DecompressString_LZSS (Cython's own UtilityCode.load).
  python -m props.C12_worker run <spec.json>
      real Cython.LZSS.lzss_compress (interpreted) -> real C decompressor (ASan/UBSan harness) and the
      independent reference decoder; spec = {mirror, harness_dir, seed, tier, chunk, nchunks, start, out, progress,
      files: [...], explicit_hex: [...]}
"""
import itertools
import json
import os
import random
import sys

VOCAB = ('self value result index name items append __init__ __pyx_ cython compile module error print return '
         'lambda import from class def None True False int float str bytes list dict tuple set object type '
         'Exception ValueError TypeError KeyError range len enumerate zip map filter sorted node pos scope entry '
         'code env analyse generate_result_code put_ declare temp cname utility buffer memoryview').split()

GAPS = sorted(set(
    [0, 1, 2, 3] + [0x7F + d for d in range(-3, 4)] + [0x27F + d for d in range(-3, 5)] +
    [0x17F, 0x180, 0x181, 0xFF, 0x100, 0x101, 0x1FF, 0x200, 0x201] +
    [0x407F + d for d in range(-3, 6)] + [0x2000, 0x3FFF, 0x4000, 0x4001, 0x40FF, 0x4100, 0x4200]))
LENS = [3, 4, 5, 33, 34, 35, 36, 37, 66, 257, 258, 259, 260, 261, 516, 600]


def descriptors(seed, tier):
    """Deterministic list of case descriptors (small tuples); data are materialised lazily."""
    if tier == 'replay':
        return []
    q = tier == 'quick'
    out = [('empty',)]
    # exhaustive small strings
    for alpha, maxlen in ((b'ab\x00', 4), (b'abcde', 3), (b'ab', 10 if q else 14), (b'a\x00\xff', 7 if q else 9),
                          (b'abcd', 5 if q else 7)):
        for n in range(1, maxlen + 1):
            out.append(('exh', alpha.hex(), n))        # expands to all strings of that length (one descriptor)
    # periodic strings, every period 1..300
    for p in range(1, 301):
        for n in (2 * p + 3, 2 * p + 37, 3 * p + 300) + (() if q else (5 * p + 1000,)):
            out.append(('period', p, n))
    # a block repeated after a gap of fresh bytes: every encoding limit +-3, match lengths at the limits
    for gap in GAPS:
        for ln in LENS:
            if q and gap > 0x1000 and ln not in (3, 4, 34, 35, 258, 259):
                continue
            out.append(('far', gap, ln, 0))
    for gap in GAPS:
        if gap >= 6:
            out.append(('far3', gap, 40))
    # random text over small alphabets
    rng = random.Random('C12:desc:%s' % seed)
    n_small = 21000 if q else 1400000
    for i in range(n_small):
        k = rng.choice([1, 2, 2, 3, 3, 4, 5, 8, 16])
        n = rng.choice([6, 7, 8, 9, 10, 12, 16, 20, 24, 33, 40, 64, 100]) if rng.random() < 0.9 else rng.randint(100, 700)
        out.append(('rand', k, n, i))
    n_mid = 300 if q else 6000
    for i in range(n_mid):
        k = rng.choice([2, 3, 4, 16, 64, 256])
        n = rng.randint(700, 4000 if k < 16 else 12000)
        out.append(('rand', k, n, 10 ** 7 + i))
    n_text = 40 if q else 1500
    for i in range(n_text):
        out.append(('text', rng.choice([500, 2000, 8000, 20000, 30000] if q else [2000, 20000, 60000, 100000]), i))
    n_large = 6 if q else 500
    for i in range(n_large):
        out.append(('large', rng.choice([256, 256, 200]), rng.choice([40000, 70000, 100000] if q else [100000, 300000, 1048576]), i))
    return out


def materialise(d, seed):
    """descriptor -> list of byte strings"""
    kind = d[0]
    if kind == 'empty':
        return [b'']
    if kind == 'exh':
        alpha = bytes.fromhex(d[1])
        return [bytes(t) for t in itertools.product(alpha, repeat=d[2])]
    rng = random.Random('C12:%s:%r' % (seed, d))
    if kind == 'period':
        _, p, n = d
        k = rng.choice([2, 3, 256, 256])
        unit = bytes(rng.randrange(k) + (97 if k < 10 else 0) for _ in range(p))
        return [(unit * (n // p + 1))[:n]]
    if kind in ('far', 'far3'):
        gap, ln = d[1], d[2]
        a = bytes(rng.randrange(0, 128) for _ in range(ln))
        filler = bytes(rng.randrange(128, 256) for _ in range(gap))
        pre = bytes(rng.randrange(128, 256) for _ in range(rng.choice([0, 1, 5, 8])))
        if kind == 'far':
            tail = bytes(rng.randrange(128, 256) for _ in range(rng.choice([0, 0, 1, 7])))
            return [pre + a + filler + a + tail]
        f2 = bytes(rng.randrange(128, 256) for _ in range(rng.choice([0, 3, 0x90, 0x300])))
        return [pre + a + filler + a[:ln // 2] + f2 + a]
    if kind == 'rand':
        _, k, n, _i = d
        base = rng.choice([0, 97, 250]) if k <= 5 else 0
        return [bytes((base + rng.randrange(k)) & 255 for _ in range(n))]
    if kind == 'text':
        _, n, _i = d
        words = []
        size = 0
        voc = VOCAB + ['w%d' % rng.randrange(10 ** 4) for _ in range(rng.choice([5, 50, 400]))]
        while size < n:
            w = rng.choice(voc) + rng.choice(['', '', '_', '.', '\x00', ' '])
            if rng.random() < 0.1:
                w += rng.choice(voc)
            words.append(w)
            size += len(w)
        return [''.join(words).encode('utf-8')[:n]]
    if kind == 'large':
        _, k, n, _i = d
        blocks = []
        size = 0
        while size < n:
            if blocks and rng.random() < 0.3:
                b = rng.choice(blocks)
                b = b[:rng.randint(3, len(b))]
            else:
                b = bytes(rng.randrange(k) for _ in range(rng.randint(3, 400)))
            blocks.append(b)
            size += len(b)
        return [b''.join(blocks)[:n]]
    raise ValueError(d)


def gap_class(g):
    return '<=0x7f' if g <= 0x7F else '0x80-0x27f' if g <= 0x27F else '0x280-0x407f' if g <= 0x407F else '>0x407f'


def len_class(n):
    return '3' if n == 3 else '4-34' if n <= 34 else '35-258' if n <= 258 else '>258'


def token_at(tokens, i):
    for (start, form, gap, ln) in reversed(tokens):
        if start <= i:
            if form == 'literal':
                return 'literal'
            return 'form-%s:gap%s:len%s' % (form, gap_class(gap), len_class(ln))
    return 'none'


def decode_tokens(comp, n):
    """token list of a stream per the format (lenient: stops at stream end) -> [(out_start, form, gap, ln)]"""
    toks = []
    pos = 0
    outlen = 0
    try:
        while outlen < n and pos < len(comp):
            flags = comp[pos]
            pos += 1
            for bit in range(8):
                if (flags >> bit) & 1:
                    toks.append((outlen, 'literal', 0, 1))
                    pos += 1
                    outlen += 1
                else:
                    lo, hi = comp[pos], comp[pos + 1]
                    pos += 2
                    if lo < 0x80:
                        gap, ln, form = lo, hi + 3, 'A'
                    elif hi < 0x80:
                        gap, ln, form = 0x80 + (((hi & 0x60) << 2) | (lo & 0x7F)), (hi & 0x1F) + 3, 'B'
                    else:
                        gap, ln, form = 0x80 + (((hi & 0x7F) << 7) | (lo & 0x7F)), comp[pos] + 3, 'C'
                        pos += 1
                    toks.append((outlen, form, gap, ln))
                    outlen += ln
                if outlen >= n:
                    break
    except IndexError:
        pass
    return toks


def first_diff(a, b):
    for i, (x, y) in enumerate(zip(a, b)):
        if x != y:
            return i
    return min(len(a), len(b))


def extract(mirror, out):
    import Cython.Compiler.Code as Code
    assert Code.__file__.endswith('.py') and os.path.realpath(Code.__file__).startswith(os.path.realpath(mirror)), Code.__file__
    u = Code.UtilityCode.load('DecompressString_LZSS', 'StringTools.c')
    with open(out, 'w') as f:
        f.write('/* extracted from %s by UtilityCode.load */\n' % os.path.join(os.path.dirname(Code.__file__), '..', 'Utility', 'StringTools.c'))
        f.write(u.proto or '')
        f.write('\n')
        f.write(u.impl or '')
    return 0


def run(specfile):
    spec = json.load(open(specfile))
    import Cython.LZSS as LZ
    from vlib.ref import lzss_ref
    ok = LZ.__file__.endswith('.py') and os.path.realpath(LZ.__file__).startswith(os.path.realpath(spec['mirror']))
    out = open(spec['out'], 'a')

    def emit(rec):
        out.write(json.dumps(rec) + '\n')
        out.flush()
    if not ok:
        emit({'fatal': 'Cython.LZSS not loaded from the mirror: %r' % LZ.__file__})
        return 3
    sys.path.insert(0, spec['harness_dir'])
    import c12_lzss_harness as H
    descs = descriptors(spec['seed'], spec['tier'])
    for p in spec.get('files', []):
        descs.append(('file', p))
    for h in spec.get('explicit_hex', []):
        descs.append(('hex', h))
    pfd = os.open(spec['progress'], os.O_WRONLY | os.O_CREAT, 0o644)
    st = {'cases': 0, 'bytes_in': 0, 'bytes_out': 0, 'stats': {}, 'by_kind': {}, 'distinct_with_backref': 0,
          'samples': [], 'maxsize': 0}
    start = spec.get('start', [0, 0])
    nch, ch = spec['nchunks'], spec['chunk']
    for di in range(ch, len(descs), nch):
        if di < start[0]:
            continue
        d = descs[di]
        if d[0] == 'file':
            datas = [open(d[1], 'rb').read()]
        elif d[0] == 'hex':
            datas = [bytes.fromhex(d[1])]
        else:
            datas = materialise(d, spec['seed'])
        for si, data in enumerate(datas):
            if di == start[0] and si < start[1]:
                continue
            os.pwrite(pfd, b'%10d %10d' % (di, si), 0)
            n = len(data)
            comp = LZ.lzss_compress(data)
            st['cases'] += 1
            st['bytes_in'] += n
            st['bytes_out'] += len(comp)
            st['maxsize'] = max(st['maxsize'], n)
            st['by_kind'][d[0]] = st['by_kind'].get(d[0], 0) + 1
            problems = []
            toks = None
            # independent reference decoder (oracle for the compressor)
            try:
                r_out, r_used, stats = lzss_ref.decode(comp, n)
                for k, v in stats.items():
                    st['stats'][k] = st['stats'].get(k, 0) + v
                if stats['A'] + stats['B'] + stats['C']:
                    st['distinct_with_backref'] += 1
                if r_out != data:
                    toks = decode_tokens(comp, n)
                    problems.append(('compressor:wrong-stream:' + token_at(toks, first_diff(r_out, data)),
                                     'reference decoder output differs from the input at byte %d' % first_diff(r_out, data)))
                elif r_used != len(comp):
                    problems.append(('compressor:stream-length', 'reference decoder consumed %d of %d compressed bytes' % (r_used, len(comp))))
            except lzss_ref.BadStream as e:
                problems.append(('compressor:bad-stream', str(e)))
            # the real C decompressor on exact-size heap blocks
            if True:
                c_out, c_used = H.raw(comp, n)
                if c_out != data:
                    toks = toks or decode_tokens(comp, n)
                    side = 'decompressor' if not problems else 'both'
                    problems.append(('%s:wrong-output:%s' % (side, token_at(toks, first_diff(c_out, data))),
                                     'C decompressor output differs from the input at byte %d' % first_diff(c_out, data)))
                elif c_used != len(comp):
                    problems.append(('decompressor:consumed-length' if not problems else 'both:consumed-length',
                                     'C decompressor consumed %d of %d compressed bytes' % (c_used, len(comp))))
                try:
                    f_out = H.full(comp, n)
                    if f_out != data and c_out == data:
                        problems.append(('decompressor:wrapper-output', '__Pyx_DecompressString_LZSS returned other bytes'))
                except RuntimeError as e:
                    if c_used == len(comp):
                        problems.append(('decompressor:wrapper-error', '__Pyx_DecompressString_LZSS raised %s' % e))
            if problems:
                emit({'problem': problems, 'desc': list(d), 'sub': si, 'n': n,
                      'data_hex': data.hex() if n <= 70000 else None, 'comp_hex': comp.hex() if len(comp) <= 70000 else None})
            elif len(st['samples']) < 3 and 8 <= n <= 40 and comp and len(comp) < n:
                st['samples'].append({'input': repr(data), 'compressed_hex': comp.hex(), 'consumed': c_used})
    os.pwrite(pfd, b'%10d %10d' % (len(descs), 0), 0)
    emit({'done': True, 'summary': st, 'ndesc': len(descs)})
    out.close()
    return 0


if __name__ == '__main__':
    if sys.argv[1] == 'extract':
        rc = extract(sys.argv[2], sys.argv[3])
    else:
        rc = run(sys.argv[2])
    sys.stdout.flush()
    os._exit(rc)
