"""C50 The lexer engine recognises exactly its regular-expression rules (DESIGN.md section 5, C50).

Seeded random lexicons (1-4 user rules per scanner state over Str/Any/AnyBut/AnyChar/Range/Seq/Alt/Rep/Rep1/Opt/
Bol/Eol/Eof/Empty/NoCase/Case, all action kinds, optional second scanner state with Begin switching, always the
line-structure rule Eol+Opt(Str("\\n"))) are built with the real, interpreted Cython.Plex from the source mirror;
every string of length <= 5 over the lexicon's 4-symbol alphabet (and long random inputs across the 4096-char
buffer refill) is scanned token by token and compared with two independent longest-match/earliest-rule matchers
over the BOL/EOL/EOF symbol stream (CPython `re` and a Brzozowski-derivative matcher).  See props/C50_worker.py."""
import json
import os
from concurrent.futures import ThreadPoolExecutor

from vlib import core, cy


def run_worker(tree, spec, tag, timeout):
    d = tree.subdir('w')
    sf = os.path.join(d, tag + '.spec.json')
    of = os.path.join(d, tag + '.out.json')
    spec = dict(spec)
    spec['mirror'] = tree.mirror
    with open(sf, 'w') as f:
        json.dump(spec, f)
    r = core.run([core.PY, '-m', 'props.C50_worker', sf, of], env=tree.env(), timeout=timeout, as_gb=4)
    if r.rc != 0 or not os.path.exists(of):
        return {'failed': 'rc=%s timed_out=%s stderr=%s' % (r.rc, r.timed_out, (r.err or '')[-800:])}
    o = core.read_json(of)
    o['wall'] = round(r.wall, 1)
    return o


def merge(dst, src):
    for k, v in src.items():
        if isinstance(v, dict):
            merge(dst.setdefault(k, {}), v)
        elif isinstance(v, (int, float)):
            dst[k] = dst.get(k, 0) + v


def main(ck):
    tree = cy.Tree('C50')
    n_lex = ck.pick(300, 12000)
    n_long = ck.pick(40, 2000)
    nshards = ck.pick(16, 96)
    tasks = []
    for i in range(nshards):
        n = n_lex // nshards + (1 if i < n_lex % nshards else 0)
        nl = n_long // nshards + (1 if i < n_long % nshards else 0)
        tasks.append(('s%d' % i, {'seed': 'C50:%d:%d' % (ck.seed, i), 'lexicons': n, 'maxlen': 5, 'long_inputs': nl}))
    timeout = ck.pick(900, 3000)
    with ThreadPoolExecutor(core.NCPU) as ex:
        outs = list(ex.map(lambda t: (t[0], run_worker(tree, t[1], t[0], timeout)), tasks))
    stats, contracts = {}, {}
    samples = []
    oracle_dis = []
    for tag, o in outs:
        if 'failed' in o:
            ck.inconclusive_if(True, 'worker %s failed: %s' % (tag, o['failed']))
            continue
        if not o.get('mirror_ok'):
            ck.inconclusive_if(True, 'Plex not imported from the source mirror as .py: %r' % o.get('module_files'))
            continue
        merge(stats, o['stats'])
        merge(contracts, o['contracts'])
        if len(samples) < 3:
            samples.extend(o['samples'][:1])
        oracle_dis.extend(o['oracle_disagreement_examples'][:2])
        for key, d in o['disc'].items():
            w = {'lexicon': d['lexicon'], 'input': d['input'], 'mode': d['mode'], 'detail': d['detail'],
                 'expected': d['detail'].get('expected'), 'observed': d['detail'].get('observed')}
            isv = ck.discrepancy(key, 'lexicon %s on input %r (%s): %s' % (json.dumps(d['lexicon']['states'])[:600], d['input'][:80],
                                                                            d['mode'], json.dumps(d['detail'])[:300]), w)
            book = ck.violations if isv else ck.known_hits
            book[key]['count'] += d['count'] - 1
            if isv and d['size'] < book[key].get('size', 1 << 60):
                book[key]['size'] = d['size']
                book[key]['witness'] = w
        for cf in o['contract_failures']:
            ck.discrepancy('contract:' + cf['contract'], 'structural contract failed: %s' % json.dumps(cf)[:400], cf)
    for v in ck.violations.values():
        v.pop('size', None)
    pos = max(1, stats.get('positions', 0))
    tie_share = stats.get('positions_tie', 0) / pos
    backup_share = stats.get('positions_backup', 0) / pos
    # two references disagreeing with each other decide nothing
    ck.inconclusive_if(stats.get('oracle_disagreements', 0) > 0,
                       're and derivative reference matchers disagree on %d positions, e.g. %s' % (
                           stats.get('oracle_disagreements', 0), json.dumps(oracle_dis[:1])[:500]))
    ck.inconclusive_if(tie_share < 0.05, 'share of positions with ties only %.3f' % tie_share)
    ck.inconclusive_if(backup_share < 0.05, 'share of positions with back-up only %.3f' % backup_share)
    cons = stats.get('constructors', {})
    for k in ('str', 'strs', 'any', 'anybut', 'anychar', 'range', 'range2', 'seq', 'alt', 'rep', 'rep1', 'opt', 'bol', 'eol',
              'eof', 'empty', 'nocase', 'case'):
        ck.inconclusive_if(cons.get(k, 0) == 0, 'constructor %s never generated' % k)
    for k in ('ret', 'text', 'ignore', 'begin', 'call', 'callbegin'):
        ck.inconclusive_if(stats.get('actions', {}).get(k, 0) == 0, 'action kind %s never generated' % k)
    ck.inconclusive_if(stats.get('long_inputs', 0) == 0, 'no input crossed the buffer refill boundary')
    ck.inconclusive_if(stats.get('end_error', 0) == 0, 'no case with unmatched input')
    ck.inconclusive_if(contracts.get('transitionmap_mutations', 0) == 0, 'TransitionMap contract never evaluated')
    ck.inconclusive_if(stats.get('lexicon_build_errors', 0) * 5 > max(1, stats.get('lexicons', 0)), 'many lexicons failed to build')
    extra = {
        'lexicons': stats.get('lexicons', 0), 'cases': stats.get('cases', 0), 'tokens_compared': stats.get('tokens', 0),
        'positions': stats.get('positions', 0), 'share_positions_with_tie': round(tie_share, 4),
        'share_positions_with_backup': round(backup_share, 4), 'cases_ending_in_unmatched_input': stats.get('end_error', 0),
        'cases_ending_after_last_character': stats.get('end_free', 0),
        'after_last_character_real_outcomes': {'UnrecognizedInput': stats.get('end_free_real_ERR', 0),
                                               'end_of_file': stats.get('end_free_real_EOF', 0)},
        'read_api_cases': stats.get('read_api_cases', 0), 'long_inputs': stats.get('long_inputs', 0),
        'buffer_refills_crossed': stats.get('refills_crossed', 0), 'constructor_histogram': cons,
        'action_histogram': stats.get('actions', {}), 'lexicon_features': stats.get('features', {}),
        'dfa_states_built': stats.get('dfa_states', 0), 'contract_evaluations': contracts,
        'reference_disagreements': stats.get('oracle_disagreements', 0), 'lexicon_build_errors': stats.get('lexicon_build_errors', 0),
    }
    return ck.finish(
        stats.get('cases', 0), stats.get('nontrivial_cases', 0),
        'seeded random lexicons x all strings of length <= 5 over the 4-symbol alphabet of the lexicon (1365 each), every '
        '7th also through Scanner.read(), plus long random inputs (4096+-6, 8192+-6 characters, 7- and 1000-character '
        'stream chunks) for a subset; evaluations = (lexicon, input) scans whose complete token sequence was compared; '
        'distinct_nontrivial = token-level scans with a tie or a back-up position or >= 3 tokens',
        samples, extra=extra,
        assumptions=['Plex scans the symbol stream BOL c.. EOL \\n BOL .. EOL EOF; character primitives skip an optional BOL '
                     '(newline: optional BOL, optional EOL); longest match is measured in symbols (documented model)',
                     'NoCase = a character matches if it or its ASCII case counterpart is in the set',
                     'after the oracle finds no rule matching and no input character is left, both end-of-file and '
                     'UnrecognizedInput are accepted (no input text is involved)',
                     'CPython re and the derivative matcher are the references; they must agree with each other'])


def replay(ck, data):
    w = data.get('witness', data)
    tree = cy.Tree('C50r')
    d = tree.subdir('w')
    lf = os.path.join(d, 'lex.json')
    with open(lf, 'w') as f:
        json.dump({'lexicon': w['lexicon'], 'input': w['input'], 'mode': w.get('mode', 'scan'),
                   'stream_chunk': (w.get('detail') or {}).get('stream_chunk')}, f)
    r = core.run([core.PY, '-m', 'props.C50_replay', lf], env=tree.env(), timeout=300)
    print(r.out[-4000:])
    if r.rc not in (0, 1):
        print(r.err[-2000:])
        return 2
    return r.rc
