"""C07 Power operator follows the documented cpow rules (DESIGN.md section 5, C07).

Every generated function returns `(cython.typeof(a ** b), a ** b)` for one (base typing, exponent form, cpow
setting).  The type is judged against the transcription of docs/src/userguide/cpow_table.csv (re-read from the tree
at run time and compared with the transcription), the value against CPython `**` wherever the table's type is the
Python-equivalent one; C integer results are demanded exact when the exponent is non-negative and the result fits.
"""
import csv
import math
import os
import re

from vlib import core, creach, cy, diff
from vlib.gen import numblocks as nb
from vlib.gen import powcases
from vlib.ref import cnum

# ----------------------------------------------------------------------------- the table (transcribed)
# (base class, exponent class) -> {cpow: expected class of cython.typeof(a ** b)}
TABLE = {
    ('cint', 'negconst'): {True: 'double', False: 'double'},
    ('cint', 'nonneg'): {True: 'integer', False: 'integer'},
    ('cint', 'cint'): {True: 'integer', False: 'double'},
    ('cfloat', 'cint'): {True: 'floating', False: 'floating'},
    ('cnum', 'cfloat'): {True: 'floating', False: 'real-or-complex'},
}
ROW_OF = {('cint', 'negconst'): 1, ('cint', 'nonneg'): 2, ('cint', 'cint'): 3, ('cfloat', 'cint'): 4, ('cnum', 'cfloat'): 5}
# keywords that must appear in the csv cells for the transcription to be the documented table
CSV_EXPECT = [
    ('C integer', 'Negative integer compile-time constant', 'C double', 'C double'),
    ('C integer', '>= 0 at compile time', 'integer', 'integer'),
    ('C integer', 'may be negative', 'integer', 'C double'),
    ('C floating point', 'C integer', 'floating point', 'floating point'),
    ('C floating point (or C integer)', 'C floating point', 'NaN', 'real or complex'),
]


def check_csv():
    path = os.path.join(core.REPO, 'docs', 'src', 'userguide', 'cpow_table.csv')
    try:
        rows = list(csv.reader(open(path, encoding='utf-8')))
    except OSError as e:
        return 'cannot read %s: %s' % (path, e)
    body = rows[1:]
    if len(body) != len(CSV_EXPECT):
        return 'cpow_table.csv has %d rows, transcription has %d' % (len(body), len(CSV_EXPECT))
    for r, exp in zip(body, CSV_EXPECT):
        for cell, kw in zip(r, exp):
            if kw.lower() not in ' '.join(cell.split()).lower():
                return 'cpow_table.csv row %r does not mention %r: transcription out of date' % (r, kw)
    return None


BASES_Q = ['int', 'long', 'unsigned int', 'double']
BASES_T = BASES_Q + ['short', 'unsigned long', 'float', 'double complex']
NONNEG_Q = [0, 2, 3, 5, 10]
NONNEG_T = [0, 1, 2, 3, 4, 5, 6, 7, 10, 16, 31, 62]
NEG_Q = [-1, -2]
NEG_T = [-1, -2, -3, -7]
RT_Q = ['int', 'unsigned int', 'double']
RT_T = ['int', 'long', 'unsigned int', 'unsigned long', 'short', 'double']
FCONST_Q = ['2.0', '0.5', '-0.5']
FCONST_T = ['2.0', '0.5', '-0.5', '3.0', '-1.0', '-2.0', '1.5', '0.0']

BASE_CLASS = {'int': 'cint', 'long': 'cint', 'unsigned int': 'cint', 'short': 'cint', 'unsigned long': 'cint',
              'double': 'cfloat', 'float': 'cfloat', 'double complex': 'ccomplex'}
SIGNED_RANGE = {'int': (-2 ** 31, 2 ** 31 - 1), 'long': (-2 ** 63, 2 ** 63 - 1), 'unsigned int': (0, 2 ** 32 - 1),
                'short': (-2 ** 15, 2 ** 15 - 1), 'unsigned long': (0, 2 ** 64 - 1)}

REF_PRELUDE = '''
import math
def _dpow(a, b, nan_if_complex):
    """Python float power; with cpow=True semantics a negative base with a non-integral exponent gives NaN"""
    a = float(a); b = float(b)
    if nan_if_complex and a < 0 and b == b and abs(b) != math.inf and b != math.floor(b) and abs(a) != math.inf:
        return math.nan
    r = a ** b
    if isinstance(r, complex) and nan_if_complex:
        return math.nan
    return r
def _ipow(a, b):
    """C integer result: only non-negative exponents are constrained by the property"""
    return a ** b if b >= 0 else None
'''


def gen_functions(ck):
    """list of dicts: name, pyx, ref, meta (expect, row, cpow, const, value), sig kinds"""
    funcs = []
    bases = ck.pick(BASES_Q, BASES_T)
    nonneg = ck.pick(NONNEG_Q, NONNEG_T)
    neg = ck.pick(NEG_Q, NEG_T)
    rts = ck.pick(RT_Q, RT_T)
    fconsts = ck.pick(FCONST_Q, FCONST_T)

    def add(base, ekind, etext, cpow, form='expr'):
        """ekind: 'const' (int constant), 'fconst', 'rt:<ctype>', 'obj'"""
        name = 'fz%dz' % len(funcs)
        bc = BASE_CLASS.get(base, 'object')
        const = None
        if ekind == 'const':
            const = int(etext)
            ec = 'negconst' if const < 0 else 'nonneg'
        elif ekind == 'fconst':
            ec = 'cfloat'
        elif ekind == 'obj':
            ec = 'object'
        else:
            et = ekind[3:]
            ec = 'cfloat' if et in ('double', 'float') else ('nonneg' if et.startswith('unsigned') else 'cint')
        # table row
        if bc == 'object' or ec == 'object':
            expect, row = 'object', 0
        elif bc == 'ccomplex':
            expect, row = 'complex', 0
        elif ec == 'cfloat':
            expect, row = TABLE[('cnum', 'cfloat')][cpow], 5
        elif bc == 'cfloat':
            expect, row = TABLE[('cfloat', 'cint')][cpow], 4
        else:
            expect, row = TABLE[(bc, ec)][cpow], ROW_OF[(bc, ec)]
        two = ekind.startswith('rt:') or ekind == 'obj'
        bdecl = (base + ' a') if base != 'object' else 'a'
        if two:
            edecl = (ekind[3:] + ' b') if ekind != 'obj' else 'b'
            csig, psig, e = '%s, %s' % (bdecl, edecl), 'a, b', 'b'
        else:
            csig, psig, e = bdecl, 'a', ('(%s)' % etext)
        if form == 'expr':
            body = '    return cython.typeof(a ** %s), a ** %s' % (e, e)
        elif form == 'var':
            body = '    c = a ** %s\n    return cython.typeof(c), c' % e
        elif form == 'ip':
            body = '    c = a\n    c **= %s\n    return cython.typeof(a ** %s), c' % (e, e)
        pyx = '@cython.cpow(%s)\ndef %s(%s):\n%s\n' % (cpow, name, csig, body)
        # reference value
        value = 'python'
        if expect == 'integer':
            rexpr = '_ipow(a, %s)' % e
        elif expect == 'object':
            rexpr = 'a ** %s' % e
        elif expect == 'complex' or base == 'float' or ekind == 'rt:float':
            rexpr, value = 'None', 'none'          # complex values belong to C08; C float needs a float32 model
        elif expect in ('double', 'floating'):
            rexpr = '_dpow(a, %s, %s)' % (e, 'True' if (cpow and ec == 'cfloat') else 'False')
            if bc == 'cint' and ec in ('cint', 'nonneg') and not cpow:
                pass
        else:   # real-or-complex
            rexpr = 'float(a) ** float(%s)' % e
        ref = 'def %s(%s):\n    return ("=", %s)\n' % (name, psig, rexpr)
        if form == 'ip' and expect == 'object':
            ref = 'def %s(%s):\n    c = a\n    c **= %s\n    return ("=", c)\n' % (name, psig, e)
        funcs.append({'name': name, 'pyx': pyx, 'ref': ref, 'base': base, 'ekind': ekind, 'etext': etext, 'cpow': cpow,
                      'form': form, 'bc': bc, 'ec': ec, 'two': two,
                      'meta': {'expect': expect, 'row': row, 'cpow': cpow, 'const': const, 'value': value, 'ctype': None},
                      'tag': 'row%d/cpow=%s/%s**%s' % (row, cpow, bc, ec if ekind != 'fconst' else 'cfloat-const')})

    for cpow in (True, False):
        for base in bases:
            for c in nonneg + neg:
                add(base, 'const', str(c), cpow)
            for rt in rts:
                add(base, 'rt:' + rt, None, cpow)
            for fc in fconsts:
                add(base, 'fconst', fc, cpow)
        # variants of the statement form
        for base, ek in (('int', 'rt:int'), ('double', 'rt:double'), ('int', 'rt:unsigned int'), ('double', 'rt:int'),
                         ('long', 'rt:long')):
            add(base, ek, None, cpow, form='var')
        # object operands (PyNumber_Power / the 2 ** x fast path)
        for base, ek, et in (('object', 'obj', None), ('object', 'const', '2'), ('object', 'const', '-1'), ('object', 'fconst', '0.5'),
                             ('object', 'const', '0'), ('object', 'const', '3')):
            add(base, ek, et, cpow)
        add('object', 'obj', None, cpow, form='ip')
    # constant bases (2 ** x is special-cased for objects; C exponents follow the table with a constant base)
    n0 = len(funcs)
    for cpow in (True, False):
        for ctext, rows in (('2', 'cint'), ('(-3)', 'cint'), ('10', 'cint'), ('2.0', 'cfloat'), ('(-2.0)', 'cfloat')):
            for et in ('obj', 'rt:int', 'rt:unsigned int', 'rt:double'):
                name = 'fz%dz' % len(funcs)
                ec = 'object' if et == 'obj' else ('cfloat' if et == 'rt:double' else ('nonneg' if 'unsigned' in et else 'cint'))
                if ec == 'object':
                    expect, row = 'object', 0
                elif ec == 'cfloat':
                    expect, row = TABLE[('cnum', 'cfloat')][cpow], 5
                elif rows == 'cfloat':
                    expect, row = TABLE[('cfloat', 'cint')][cpow], 4
                else:
                    expect, row = TABLE[(rows, ec)][cpow], ROW_OF[(rows, ec)]
                edecl = 'b' if et == 'obj' else et[3:] + ' b'
                pyx = '@cython.cpow(%s)\ndef %s(%s):\n    return cython.typeof(%s ** b), %s ** b\n' % (cpow, name, edecl, ctext, ctext)
                if expect == 'integer':
                    rexpr = '_ipow(%s, b)' % ctext
                elif expect == 'object':
                    rexpr = '%s ** b' % ctext
                elif expect in ('double', 'floating'):
                    rexpr = '_dpow(%s, b, %s)' % (ctext, 'True' if (cpow and ec == 'cfloat') else 'False')
                else:
                    rexpr = 'float(%s) ** float(b)' % ctext
                ref = 'def %s(b):\n    return ("=", %s)\n' % (name, rexpr)
                funcs.append({'name': name, 'pyx': pyx, 'ref': ref, 'base': 'const:' + ctext, 'ekind': et, 'etext': None, 'cpow': cpow,
                              'form': 'constbase', 'bc': rows, 'ec': ec, 'two': False, 'constbase': eval(ctext),
                              'meta': {'expect': expect, 'row': row, 'cpow': cpow, 'const': None, 'value': 'python', 'ctype': None,
                                       'constbase': eval(ctext)},
                              'tag': 'row%d/cpow=%s/const-%s**%s' % (row, cpow, rows, ec)})
    return funcs


# ----------------------------------------------------------------------------- inputs
def int_specials(lo, hi):
    xs = [0, 1, -1, 2, -2, 3, -3, 5, 7, 10, -10, 15, 16, 181, 182, -181, 255, 256, 1290, 1291, 46340, 46341, -46340, -46341, 65535, 65536,
          2097151, 2097152, 3037000499, 3037000500, -3037000499, 2 ** 31 - 1, -2 ** 31, 2 ** 31, 2 ** 32 - 1, 2 ** 63 - 1, -2 ** 63,
          2 ** 64 - 1]
    return [x for x in xs if lo <= x <= hi]


EXP_SPECIALS = [0, 1, 2, 3, 4, 5, 6, 7, 8, 10, 15, 16, 19, 20, 21, 30, 31, 32, 39, 40, 41, 62, 63, 64, 65, 100, -1, -2, -3, -5, -64]
DBL_SPECIALS = [0.0, -0.0, 1.0, -1.0, 0.5, -0.5, 2.0, -2.0, 3.0, -8.0, 0.1, 1.5, -2.5, 10.0, 1e308, -1e308, 1e-300, 5e-324,
                1.7976931348623157e308, math.inf, -math.inf, math.nan, 1e154, 1e155, 9007199254740993.0, -27.0]
OBJ_BASES = ['0', '1', '-1', '2', '-2', '3', '10', '2**31', '-2**63', '2**64+1', '0.0', '-0.0', '2.0', '-8.0', '0.5', 'inf', 'nan', 'True',
             '2+1j', '0j', 'I(3)', 'F(2.5)', "'a'", 'None', 'Obj(1)', '[1]']
OBJ_EXPS = ['0', '1', '2', '3', '-1', '-2', '10', '62', '63', '64', '65', '100', '1000', '-1000', '0.5', '-0.5', '2.0', 'True', 'I(5)', 'F(0.5)',
            '0j', '1j', "'a'", 'None', 'inf', '-inf', 'nan', '2**15', '-(2**15)', 'Obj(1)']


def args_for(f, rng, n_random):
    """(special argument tuples, random argument tuples) honouring the C parameter ranges"""
    def rnd_int(lo, hi):
        k = rng.randrange(5)
        if k == 0:
            return rng.randrange(max(lo, -12), min(hi, 12) + 1)
        if k == 1:
            return rng.choice([x for x in (2, -2, 3, -3, 5, 7, 10, -10, 15, 16) if lo <= x <= hi])
        if k == 2:
            return rng.randrange(max(lo, -2 ** 31), min(hi, 2 ** 31) + 1)
        if k == 3:
            return rng.randrange(max(lo, -70000), min(hi, 70000) + 1)
        return rng.randrange(lo, hi + 1)

    def rnd_exp(lo, hi):
        k = rng.randrange(4)
        if k == 0:
            return rng.randrange(max(lo, 0), min(hi, 70) + 1)
        if k == 1:
            return rng.randrange(max(lo, -6), min(hi, 6) + 1)
        if k == 2:
            return rng.choice([x for x in EXP_SPECIALS if lo <= x <= hi])
        return rng.randrange(max(lo, -1000), min(hi, 1000) + 1)
    base, ek = f['base'], f['ekind']
    if base.startswith('const:'):
        if ek == 'obj':
            return [None], []
        if ek == 'rt:double':
            return [(x,) for x in DBL_SPECIALS], [(nb.rand_double(rng) if rng.random() < .3 else rng.uniform(-40, 40),) for _ in range(n_random)]
        lo, hi = SIGNED_RANGE[ek[3:]]
        return [(e,) for e in EXP_SPECIALS + [1000, -1000] if lo <= e <= hi], [(rnd_exp(lo, hi),) for _ in range(n_random)]
    if base == 'object':
        return [None], []
    if base in SIGNED_RANGE:
        lo, hi = SIGNED_RANGE[base]
        bs = int_specials(lo, hi)
        rb = lambda lo=lo, hi=hi: rnd_int(lo, hi)
    elif base == 'double complex':
        bs = [complex(2, 0), complex(0, 1), complex(-1.5, 2), complex(0, 0)]
        rb = lambda: nb.rand_complex(rng)
    else:
        bs = DBL_SPECIALS
        rb = lambda: rng.choice([nb.rand_double(rng), rng.uniform(-10, 10), float(rng.randrange(-9, 10))])
    if not f['two']:
        return [(b,) for b in bs], [(rb(),) for _ in range(n_random)]
    et = ek[3:]
    if et in SIGNED_RANGE:
        lo, hi = SIGNED_RANGE[et]
        es = [e for e in EXP_SPECIALS if lo <= e <= hi]
        re_ = lambda lo=lo, hi=hi: rnd_exp(lo, hi)
    else:
        es = DBL_SPECIALS
        re_ = lambda: rng.choice([nb.rand_double(rng), rng.uniform(-5, 5), float(rng.randrange(-9, 10)), rng.choice([0.5, -0.5, 1.5, 0.25])])
    return [(b, e) for b in bs for e in es], [(rb(), re_()) for _ in range(n_random)]


# ----------------------------------------------------------------------------- classification
def parse_out(s):
    """outcome text -> (type part, value type, value repr) / ('!', exc, None)"""
    if s.startswith('! '):
        return '!', s[2:], None
    parts = s.split(' ', 2)
    if len(parts) == 2:
        return parts[0], parts[1], None
    return parts[0], parts[1], parts[2]


def num_class(x):
    if isinstance(x, complex):
        return 'complex'
    x = float(x)
    if x != x:
        return 'nan'
    if x in (math.inf, -math.inf):
        return 'inf'
    if x == 0:
        return 'zero'
    return 'neg' if x < 0 else 'pos'


def exp_class(x):
    c = num_class(x)
    if c in ('neg', 'pos') and float(x) == math.floor(float(x)):
        return c + 'int'
    if c in ('neg', 'pos'):
        return c + 'frac'
    return c


def close(ev, gv):
    try:
        e = complex(eval(ev, {'inf': math.inf, 'nan': math.nan}))
        g = complex(eval(gv, {'inf': math.inf, 'nan': math.nan}))
    except Exception:
        return False
    for x, y in ((e.real, g.real), (e.imag, g.imag)):
        if x != x or y != y or abs(x) == math.inf or abs(y) == math.inf:
            if repr(x) != repr(y):
                return False
            continue
        if abs(x - y) > 1e-12 * max(abs(e.real), abs(e.imag), abs(g.real), abs(g.imag), 1e-300):
            return False
    return True


def classify_(f, args, exp, got, other_config_agrees=None, config='default'):
    """mechanism key.  other_config_agrees: for soft-complex results, True when the CYTHON_CCOMPLEX=0 build of the same
    function gives CPython's result for these arguments (None: not applicable / this *is* the ablation build)"""
    meta = f['meta']
    et, ety, ev = parse_out(exp)
    gt, gty, gv = parse_out(got)
    cell = '%s**%s:cpow=%s' % (f['bc'], f['ec'], f['cpow'])
    if gt.startswith('type:'):
        return 'cpow-type:%s:expected-%s-got-%s' % (cell, meta['expect'], powcases.type_class(gt[5:].replace('~', ' ')))
    base = args[0] if not f['base'].startswith('const:') else f['constbase']
    e = meta['const'] if meta['const'] is not None else (float(f['etext']) if f['ekind'] == 'fconst' else args[-1])
    if meta['expect'] in ('double', 'floating') or f.get('typeof') in powcases.FLOATING:
        if et == '!' and ety == 'OverflowError' and gt == '=' and gv in ('inf', '-inf'):
            return 'cpow-double:overflow-returns-inf-no-OverflowError'
        if et == '!' and ety == 'ZeroDivisionError' and gt == '=' and gv in ('inf', '-inf'):
            return 'cpow-double:zero-to-negative-power-returns-inf-no-ZeroDivisionError'
        if (meta['const'] is not None or f['ekind'] == 'fconst') and gt == '=' and et == '=' and gty == ety == 'float':
            # the C compiler may replace pow(x, c) for a literal c by an exactly rounded expression (gcc: pow(x, -1.0) -> 1.0 / x)
            x = float(base)
            folded = {-1.0: lambda: 1.0 / x, 2.0: lambda: x * x, 0.5: lambda: math.sqrt(x), 1.0: lambda: x}.get(float(e))
            try:
                if folded is not None and repr(folded()) == gv and close(ev, gv):
                    return 'cpow-double:c-compiler-folds-constant-exponent'
            except (ZeroDivisionError, ValueError, OverflowError):
                pass
        return 'cpow-double:unexplained:%s:%s**%s' % (cell, num_class(base), exp_class(e))
    if meta['expect'] == 'real-or-complex':
        if et == '!' and gt == '=':
            sym = {'OverflowError': 'overflow-no-OverflowError', 'ZeroDivisionError': 'zero-to-negative-power-no-ZeroDivisionError'}.get(ety, 'no-' + ety)
        elif gt == '!':
            sym = 'raises-' + gty
        elif ety != gty:
            sym = 'python-%s-returned-as-%s' % (ety, gty) + (':rounding' if close(ev, gv) else '')
        elif close(ev, gv):
            sym = 'rounding'
        else:
            sym = 'special:%s**%s' % (num_class(base), exp_class(e))
        # mechanism: is the observed value exactly what the C implementation of this configuration computes?
        impl = cnum.NATIVE if config == 'default' else cnum.HELPER
        try:
            z = cnum.soft(impl['pow'](impl['from_parts'](float(base), 0.0), impl['from_parts'](float(e), 0.0)))
            model = '= %s %r' % (type(z).__name__, z)
        except Exception as ex:      # noqa
            model = 'model failed: %r' % ex
        if model == got:
            if config == 'default':
                return 'cpow-softcomplex:ccomplex-native-cpow', sym + ('/CCOMPLEX=0-agrees-with-CPython' if other_config_agrees else '')
            return 'cpow-softcomplex:complex-helper-algorithm', sym
        return 'cpow-softcomplex:unexplained:%s:%s' % (config.replace('=', ''), sym), sym
    if meta['expect'] == 'integer':
        return 'intpow:unexplained:%s:%s' % (cell, f['base'])
    return 'objpow:unexplained:%s:%s->%s' % (f['tag'], exp.split(' ')[0] + ' ' + str(ety), got.split(' ')[0] + ' ' + str(gty))


def classify(f, args, exp, got, other_config_agrees=None, config='default'):
    """-> (mechanism key, symptom)"""
    r = classify_(f, args, exp, got, other_config_agrees, config)
    return r if isinstance(r, tuple) else (r, '')


def learn_types(tree, d, mods, funcs):
    """typeof(a ** b) string per function, observed by one safe call in a subprocess (never import in this process)"""
    prog = ['import json, sys', 'sys.path.insert(0, %r)' % d, 'out = {}']
    for m in mods:
        prog.append('import %s' % m)
    for f in funcs:
        if f['base'] == 'object' or f['ekind'] == 'obj':
            a = '(2, 2)' if f['two'] or f['form'] == 'ip' else '(2,)'
        elif f['base'] == 'double complex':
            a = '(1j, 2)' if f['two'] else '(1j,)'
        else:
            a = '(2, 2)' if f['two'] else '(2,)'
        prog.append('try:\n    out[%r] = %s.%s(*%s)[0]\nexcept Exception as e:\n    out[%r] = "!" + type(e).__name__' % (
            f['name'], f['mod'], f['name'], a, f['name']))
    prog.append('print("TYPES" + json.dumps(out))')
    r = core.run([core.PY, '-c', '\n'.join(prog)], env=tree.env(d), timeout=300)
    m = re.search(r'^TYPES(.*)$', r.out or '', re.M)
    if not m:
        return None, (r.err or '')[-600:]
    import json
    return json.loads(m.group(1)), None


NMOD = 4


def main(ck):
    from concurrent.futures import ThreadPoolExecutor
    tree = cy.Tree('C07')
    ck.cov['model_flags'] = dict(cnum.configure(core.REPO))
    csv_problem = check_csv()
    ck.inconclusive_if(bool(csv_problem), csv_problem or '')
    funcs = gen_functions(ck)
    fmap = {f['name']: f for f in funcs}
    mods = {}
    for i, f in enumerate(funcs):
        f['mod'] = 'c07m%d' % (i % NMOD)
        mods.setdefault(f['mod'], []).append(f)
    head = '# cython: language_level=3\ncimport cython\n'
    srcs = {m: head + '\n'.join(f['pyx'] for f in fs) for m, fs in mods.items()}
    soft = [f for f in funcs if f['meta']['expect'] == 'real-or-complex']
    soft_src = {'c07s': head + '\n'.join(f['pyx'] for f in soft)}
    with ThreadPoolExecutor(2) as ex:
        fa = ex.submit(tree.build_sources, srcs, subdir='default', ext='.pyx')
        fb = ex.submit(tree.build_sources, soft_src, subdir='noccomplex', ext='.pyx', cflags=['-DCYTHON_CCOMPLEX=0'])
        d, info = fa.result()
        d0, info0 = fb.result()
    failed = [m for m in info if not info[m]['ok']] + [m for m in info0 if not info0[m]['ok']]
    for m in failed:
        inf = info.get(m) or info0.get(m)
        ck.note('build failure %s at %s: %s' % (m, inf['stage'], inf['errors'][-800:]))
    ck.inconclusive_if(bool(failed), 'module(s) failed to build: %s' % failed)
    okfuncs = [f for f in funcs if info[f['mod']]['ok']]
    types, err = learn_types(tree, d, [m for m in mods if info[m]['ok']], okfuncs)
    if types is None:
        ck.inconclusive_if(True, 'could not observe typeof() strings: %s' % err)
        return ck.finish(0, 0, 'n/a', [])
    typeof_seen = {}
    for f in okfuncs:
        t = types.get(f['name'])
        f['meta']['ctype'] = t if t in powcases.CINT_RANGES else None
        f['typeof'] = t
        typeof_seen.setdefault('%s -> %s' % (f['tag'], t), 0)
        typeof_seen['%s -> %s' % (f['tag'], t)] += 1
    meta = {f['name']: f['meta'] for f in funcs}
    # static reach: which C helper implements the power in each function
    helpers = {}
    nontrivial = set()
    for m, fs in mods.items():
        if not info[m]['ok']:
            continue
        ctext = open(info[m]['c'], encoding='utf-8', errors='replace').read()
        bodies = creach.bodies_by_token(ctext, [f['name'] for f in fs])
        for f in fs:
            hs = creach.helpers_in(bodies.get(f['name'], ''),
                                   r'__Pyx_pow_\w+|\bpowf?\(|__Pyx_c_pow\w*|PyNumber_Power|PyNumber_InPlacePower|__Pyx_PyNumber_(?:InPlace)?PowerOf2|__Pyx_SoftComplexToPy|__pyx_Py_FromSoftComplex')
            f['helpers'] = sorted(hs)
            for h in hs:
                helpers[h] = helpers.get(h, 0) + 1
            if hs:
                nontrivial.add(f['name'])
    # ------------------------------------------------------------------ cases
    n_random = ck.pick(300, 5000)
    rng = ck.rng('args')
    pools = {}
    specials = {}
    for f in okfuncs:
        sp, rd = args_for(f, rng, n_random)
        specials[f['name']] = sp
        if rd:
            pools['p_' + f['name']] = rd
    poolspec = nb.dump_pools(pools, tree.work, 'poolC07')
    setup = 'from vlib.gen.powcases import *\nset_pools(%r)\nset_meta(%r)' % (poolspec, meta)

    def cases_for(fs, only_pools=None):
        cases = []
        for f in fs:
            name = f['name']
            if specials[name] == [None]:      # object operands: expression arguments
                if f['base'].startswith('const:') or not f['two'] and f['form'] != 'ip':
                    pool = OBJ_EXPS if f['base'].startswith('const:') else OBJ_BASES
                    if f['base'].startswith('const:') and abs(f['constbase']) > 3:
                        pool = [e for e in pool if e not in ('2**15', '1000')]
                    argl = ['(%s,)' % e for e in pool]
                else:
                    argl = ['(%s, %s)' % (b, e) for b in OBJ_BASES for e in OBJ_EXPS
                            if not (b in ('2**31', '-2**63', '2**64+1', '10') and e in ('2**15', '1000', '100'))]
                for a in argl:
                    cases.append({'x': 'powcall(M, %r, %s)' % (name, a), 't': f['tag'], 'pc': [name, a]})
            else:
                for args in specials[name]:
                    a = nb.args_lit(args)
                    cases.append({'x': 'powcall(M, %r, %s)' % (name, a), 't': f['tag'], 'pc': [name, a]})
                if 'p_' + name in pools:
                    cases += nb.block_cases(name, 'p_' + name, len(pools['p_' + name]), f['tag'] + '/random', bs=100, call='powmany')
        return cases

    runs = []
    for m, fs in sorted(mods.items()):
        if not info[m]['ok']:
            continue
        refpath = info[m]['src'] + '.ref.py'
        with open(refpath, 'w') as fh:
            fh.write(REF_PRELUDE + '\n'.join(f['ref'] for f in fs))
        runs.append({'label': m, 'dir': d, 'mod': m, 'ref': refpath, 'cases': cases_for(fs), 'config': 'default', 'cflags': []})
    if info0['c07s']['ok']:
        refpath = info0['c07s']['src'] + '.ref.py'
        with open(refpath, 'w') as fh:
            fh.write(REF_PRELUDE + '\n'.join(f['ref'] for f in soft))
        runs.insert(0, {'label': 'c07s_noccomplex', 'dir': d0, 'mod': 'c07s', 'ref': refpath, 'cases': cases_for(soft),
                        'config': 'CYTHON_CCOMPLEX=0', 'cflags': ['-DCYTHON_CCOMPLEX=0']})

    def go(r):
        return diff.run_cases(tree, r['dir'], r['mod'], r['cases'], ref=r['ref'], compare={'log': False},
                              env_mods=['vlib.values', 'vlib.gen.numblocks'], setup=setup, tagdir='run_' + r['label'],
                              timeout=1500, spec_extra={'max_mismatch_records': 20000},
                              nproc=max(1, min(core.NCPU, ck.pick(3, 8), (len(r['cases']) + 3999) // 4000)))
    with ThreadPoolExecutor(ck.pick(3, 3)) as ex:
        results = list(ex.map(go, runs))

    evaluations = distinct = 0
    samples = []
    cells = {}
    symptoms = {}
    ablation_mismatch = set()

    def items_of(m):
        if 'blk' in m['case']:
            return nb.explode(m, pools)
        name, a = m['case']['pc']
        try:
            args = eval(a, {'inf': math.inf, 'nan': math.nan})
        except Exception:
            args = a        # object expression
        return [(name, args, eval(m['exp'][1][1]) if m['exp'][0] == 'ok' else repr(m['exp']),
                 eval(m['got'][1][1]) if m['got'][0] == 'ok' else repr(m['got']))]

    order = sorted(range(len(runs)), key=lambda i: 0 if runs[i]['config'] != 'default' else 1)
    for i in order:
        r, res = runs[i], results[i]
        total = sum((c['blk'][3] - c['blk'][2]) if 'blk' in c else 1 for c in r['cases'])
        lost = 0
        for c in res.crashes:
            blk = c['case'].get('blk')
            lost += (blk[3] - blk[2]) if blk else 1
            name = blk[0] if blk else c['case']['pc'][0]
            f = fmap[name]
            ck.discrepancy('crash:%s' % f['tag'], 'crash/hang %s in %s' % (c['kind'], f['pyx']),
                           {'function_source': head + f['pyx'], 'ref_source': REF_PRELUDE + f['ref'], 'ext': '.pyx', 'case': c['case'],
                            'cflags': r['cflags'], 'stderr': c['stderr'], 'expected': 'no crash', 'observed': c['kind']})
        for ft in res.fatal:
            ck.inconclusive_if(True, 'driver failed (%s): %s' % (r['label'], str(ft)[-300:]))
        if not res.fatal:
            evaluations += total - lost
            distinct += res.distinct
        samples.extend(res.samples[:2])
        for k, v in res.hist.items():
            cells[k.split('|')[0]] = cells.get(k.split('|')[0], 0) + v
        for m in res.mismatches:
            for name, args, exp, got in items_of(m):
                f = fmap[name]
                akey = (name, repr(args))
                if r['config'] != 'default':
                    ablation_mismatch.add(akey)
                    agrees = None
                elif f['meta']['expect'] == 'real-or-complex':
                    agrees = akey not in ablation_mismatch
                else:
                    agrees = None
                key, sym = classify(f, args, exp, got, agrees, r['config']) if args is not None else ('block-evaluation-failed', '')
                sk = key + ('  [' + sym + ']' if sym else '')
                symptoms[sk] = symptoms.get(sk, 0) + 1
                alit = nb.args_lit(args) if isinstance(args, tuple) else args
                ck.discrepancy(key, '%s (%s) on %s [%s]: expected %s, compiled %s' % (
                    f['pyx'].strip().replace('\n', ' ; '), f['tag'], alit, r['config'], exp, got),
                    {'function_source': head + f['pyx'], 'ref_source': REF_PRELUDE + f['ref'], 'ext': '.pyx',
                     'case': {'f': name, 'a': alit}, 'compare': {'log': False}, 'cflags': r['cflags'], 'directives': {},
                     'expected': exp, 'observed': got, 'config': r['config'], 'meta': f['meta']})
    # ------------------------------------------------------------------ reach: 10 table cells
    if not failed:
        for row in (1, 2, 3, 4, 5):
            for cpow in (True, False):
                pre = 'row%d/cpow=%s/' % (row, cpow)
                ck.inconclusive_if(not any(k.startswith(pre) for k in cells), 'table cell row %d cpow=%s never observed' % (row, cpow))
        for pat, what in ((r'__Pyx_pow_', 'IntPow helper'), (r'pow', 'C pow()'), (r'__Pyx_c_pow', 'complex pow helper'),
                          (r'PowerOf2', 'PyNumberPow2 fast path'), (r'PyNumber_Power', 'generic object power')):
            ck.inconclusive_if(not any(pat in h for h in helpers), '%s never present in the generated functions' % what)
    ck.cov['typeof_observed'] = typeof_seen
    return ck.finish(
        evaluations, distinct,
        'one .pyx function per (base typing, exponent form, cpow setting) returning (cython.typeof(a ** b), a ** b); the type '
        'is judged against the transcribed cpow table (checked against docs/src/userguide/cpow_table.csv of the tree), the value '
        'against CPython ** where the table type is the Python one (C integer results only when exponent >= 0 and the result '
        'fits the observed C type; other calls are executed but their value is unconstrained). evaluations = calls judged; '
        'distinct = distinct (function or block, reference outcome); every function counted contains a pow helper call '
        '(__Pyx_pow_<T>, pow(), __Pyx_c_pow*, PyNumber_Power, __Pyx_PyNumber_PowerOf2) in its generated C',
        samples,
        extra={'functions': len(funcs), 'functions_with_pow_helper': len(nontrivial), 'helpers_reached': helpers, 'cells': cells,
               'symptoms_of_classified_discrepancies': symptoms, 'configs': sorted({r['config'] for r in runs}),
               'random_args_per_function': n_random},
        assumptions=['CPython 3.12.1 ** (float_pow / long_pow / complex_pow) is the value reference',
                     'values of double complex and C float operands are not judged here (C08 / float32 model); only their result type',
                     'C integer results that do not fit the C type or have a negative exponent are executed but not compared (C wrap / '
                     'type is not the Python one)',
                     'for C int ** C int under cpow=False (C double result) the reference is float(a) ** float(b), which is what CPython '
                     'computes for negative exponents'])


def replay(ck, data):
    """re-run one witness: rebuild the function, evaluate the normalised observation on reference and compiled module"""
    w = data.get('witness', data)
    tree = cy.Tree('C07replay')
    name = w['case']['f']
    d, info = tree.build_sources({'c07replay': w['function_source']}, subdir='r', ext='.pyx', cflags=w.get('cflags') or ())
    inf = info['c07replay']
    if not inf['ok']:
        print('build failed at', inf['stage'], inf['errors'][-2000:])
        return 2
    refpath = inf['src'] + '.ref.py'
    with open(refpath, 'w') as fh:
        fh.write(w['ref_source'])
    meta = dict(w.get('meta') or {})
    setup = 'from vlib.gen.powcases import *\nset_meta(%r)' % {name: meta}
    case = {'x': 'powcall(M, %r, %s)' % (name, w['case']['a']), 't': 'replay'}
    res = diff.run_cases(tree, d, 'c07replay', [case], ref=refpath, compare={'log': False}, nproc=1,
                         env_mods=['vlib.values', 'vlib.gen.numblocks'], setup=setup)
    for m in res.mismatches:
        print('expected', m['exp'])
        print('observed', m['got'])
    for c in res.crashes:
        print('crash', c['kind'], c['stderr'][-1500:])
    for f in res.fatal:
        print('driver failed', str(f)[-1500:])
        return 2
    if res.mismatches or res.crashes:
        print('VIOLATION property=%s replay=%s' % (ck.pid, '<replayed>'))
        return 1
    print('replay: case now agrees with the reference (%d evaluated)' % res.n)
    return 0
