"""C48: small project trees (three kinds) and the catalogue of one-factor changes.

A *project* is {files, patterns | extension, kwargs (baseline cythonize keyword arguments)}.
A *factor* is a named, pure function state -> state that changes exactly one input of the build:
family in {source, source-cosmetic, dep-pxd, dep-pxd-transitive, dep-pxi, dep-own-pxd, dep-header, include_path,
language_level, directive, option:<name>, global_option, module_name, ext_metadata, version, irrelevant:<what>}.
"""
import copy

# ----------------------------------------------------------------------------- tree kind A: flat .pyx project

A_MAIN = '''\
cimport cython
cimport dep
from dep cimport scale
cimport extra
include "inc.pxi"

cdef extern from "hdr.h":
    int HDR_CONST

K_MAIN = %(k)d

IF CTE_FLAG:
    CTE_VAL = "flag-on"
ELSE:
    CTE_VAL = "flag-off"


cdef class Acc:
    """Accumulator.

    >>> Acc(1).total
    1
    """
    cdef public long total
    cdef list items

    def __init__(self, long start):
        self.total = start
        self.items = []

    def __add__(self, other):
        return Acc(self.total + int(other))

    cpdef long push(self, long v) except -1:
        self.items.append(v)
        self.total += v
        return self.total

    def last(self, int i):
        return self.items[i]


cdef void quiet_fail(int x):
    if x > %(k)d:
        raise ValueError(x)


cdef int helper(int a, int b):
    return a // b + a %% b


def divmod_(int a, int b):
    """
    >>> divmod_(7, 2)
    (3, 1)
    """
    quiet_fail(a)
    return a // b, a %% b, helper(a, b)


def power(int a, int b):
    return a ** b, scale(a)


def index(list l, int i, Acc acc=None):
    return l[i], acc.total, dep.DEP_K + extra.EXTRA_K + INC_K + INC2_K + HDR_CONST


def switchy(int x):
    if x in (1, 2, %(k2)d):
        return 'small'
    elif x == 10:
        return u'ten'
    return b'bytes'


def typed(x: int, y: float = 1.5) -> float:
    z = x * y
    return z


def loop(n):
    total = 0
    for i in range(n):
        total += i * %(k)d
    return total


def strs(char* s):
    return s


def globs():
    return globals(), 1 / 2, 'abc', CTE_VAL


async def coro(x):
    return x


def gen(n):
    for i in range(n):
        yield i


def unreachable():
    return 1
    print("never")


def method_call(l):
    l.append(%(k2)d)
    return l.pop(), len(l)


def cplx(double complex z):
    return z * z
'''

A_DEP = '''\
cimport deep

cdef enum:
    DEP_K = %(k)d

cdef inline int scale(int x):
    return x * deep.DEEP_K
'''
A_DEEP = 'cdef enum:\n    DEEP_K = %(k)d\n'
A_INC = 'include "inc2.pxi"\nINC_K = %(k)d\n'
A_INC2 = 'INC2_K = %(k)d\n'
A_EXTRA = 'cdef enum:\n    EXTRA_K = %(k)d\n'
A_HDR = '#define HDR_CONST %(k)d\n'


def tree_a(rng):
    k = rng.randint(3, 90)
    files = {
        'main.pyx': A_MAIN % {'k': k, 'k2': k + 100},
        'dep.pxd': A_DEP % {'k': k + 1},
        'deep.pxd': A_DEEP % {'k': k + 2},
        'inc.pxi': A_INC % {'k': k + 3},
        'inc2.pxi': A_INC2 % {'k': k + 4},
        'inc_a/extra.pxd': A_EXTRA % {'k': k + 5},
        'inc_b/extra.pxd': A_EXTRA % {'k': k + 6},
        'hdr.h': A_HDR % {'k': k + 7},
    }
    ff = {
        'source:constant': ('source', edit('main.pyx', 'K_MAIN = %d' % k, 'K_MAIN = %d' % (k + 1000))),
        'source:comment-only': ('source-cosmetic', edit('main.pyx', 'K_MAIN = %d' % k, 'K_MAIN = %d  # a comment' % k)),
        'source:whitespace-only': ('source-cosmetic', edit('main.pyx', 'def loop(n):\n', 'def loop(n):   \n')),
        'source:blank-line': ('source-cosmetic', edit('main.pyx', '\ndef loop(n):\n', '\n\ndef loop(n):\n')),
        'dep:pxd-direct': ('dep-pxd', edit('dep.pxd', 'DEP_K = %d' % (k + 1), 'DEP_K = %d' % (k + 1001))),
        'dep:pxd-inline-body': ('dep-pxd', edit('dep.pxd', 'return x * deep.DEEP_K', 'return x + deep.DEEP_K')),
        'dep:pxd-transitive': ('dep-pxd-transitive', edit('deep.pxd', 'DEEP_K = %d' % (k + 2), 'DEEP_K = %d' % (k + 1002))),
        'dep:pxi': ('dep-pxi', edit('inc.pxi', 'INC_K = %d' % (k + 3), 'INC_K = %d' % (k + 1003))),
        'dep:pxi-nested': ('dep-pxi', edit('inc2.pxi', 'INC2_K = %d' % (k + 4), 'INC2_K = %d' % (k + 1004))),
        'dep:include-path-pxd': ('dep-pxd', edit('inc_a/extra.pxd', 'EXTRA_K = %d' % (k + 5), 'EXTRA_K = %d' % (k + 1005))),
        'source:compile-error': ('compile-error', edit('main.pyx', 'return a // b + a %% b'.replace('%%', '%'), 'return a // b + undefined_c48_name')),
        'dep:c-header': ('irrelevant:c-header', edit('hdr.h', 'HDR_CONST %d' % (k + 7), 'HDR_CONST %d' % (k + 1007))),
    }
    return {'kind': 'A-flat-pyx', 'files': files, 'patterns': ['main.pyx'], 'file_factors': ff,
            'kwargs': {'language_level': 3, 'quiet': True, 'include_path': ['.', 'inc_a'],
                       'compile_time_env': {'CTE_FLAG': 0}},
            'has': {'include_path_alt': ['.', 'inc_b'], 'cte': {'CTE_FLAG': 1},
                    'ext': {'name': 'main', 'sources': ['main.pyx']}, 'ext_other_name': 'othername'}}


# ----------------------------------------------------------------------------- tree kind B: package, 2 modules, .h/_api.h

B_SHAPES_PXD = '''\
cdef class Shape:
    cdef public double w, h
    cpdef double area(self)
    cdef double grow(self, double f)

cdef api double shape_area(double w, double h)
'''
B_SHAPES = '''\
from pkg cimport consts
from libc.math cimport sqrt

cdef class Shape:
    """A rectangle."""
    def __cinit__(self, double w=1, double h=%(k)d):
        self.w = w
        self.h = h

    cpdef double area(self):
        return self.w * self.h * consts.UNIT

    cdef double grow(self, double f):
        self.w *= f
        self.h *= f
        return self.area()

    def diag(self):
        return sqrt(self.w * self.w + self.h * self.h)

    def __eq__(self, other):
        return isinstance(other, Shape) and self.area() == other.area()


cdef api double shape_area(double w, double h):
    return Shape(w, h).area()

cdef public int shape_version = %(k)d


def make(n):
    return [Shape(i, i // %(k)d + 1) for i in range(n)]
'''
B_USER = '''\
from pkg.shapes cimport Shape
from pkg cimport consts
from pkg.consts cimport twice

def total_area(list shapes):
    cdef Shape s
    cdef double t = 0
    for s in shapes:
        t += s.area() + s.grow(1.0)
    return t, twice(%(k)d), consts.UNIT


def describe(Shape s not None, bint verbose=False):
    if verbose:
        return f"Shape({s.w!r}, {s.h!r}) area={s.area():.2f}"
    return "Shape"


class Registry(object):
    """
    >>> Registry().add(1)
    1
    """
    items = {}

    def add(self, x, key=None):
        self.items[key or x] = x
        return len(self.items)
'''
B_CONSTS = '''\
cdef enum:
    UNIT = %(k)d

cdef inline long twice(long x) nogil:
    return 2 * x + UNIT
'''


def tree_b(rng):
    k = rng.randint(2, 60)
    files = {
        'pkg/__init__.py': '',
        'pkg/shapes.pxd': B_SHAPES_PXD,
        'pkg/shapes.pyx': B_SHAPES % {'k': k},
        'pkg/user.pyx': B_USER % {'k': k + 1},
        'pkg/consts.pxd': B_CONSTS % {'k': k + 2},
    }
    ff = {
        'source:constant': ('source', edit('pkg/user.pyx', 'twice(%d)' % (k + 1), 'twice(%d)' % (k + 1001))),
        'source:other-module': ('source', edit('pkg/shapes.pyx', 'shape_version = %d' % k, 'shape_version = %d' % (k + 1000))),
        'source:comment-only': ('source-cosmetic', edit('pkg/user.pyx', 'cdef double t = 0', 'cdef double t = 0  # zero')),
        'source:compile-error': ('compile-error', edit('pkg/shapes.pyx', 'cdef public int shape_version', 'cdef public Shape shape_version')),
        'dep:own-pxd': ('dep-own-pxd', edit('pkg/shapes.pxd', 'cdef public double w, h', 'cdef public double h, w')),
        'dep:pxd-of-cimported-module': ('dep-pxd', edit('pkg/shapes.pxd', 'cdef double grow(self, double f)',
                                                        'cdef double grow(self, double f)\n    cdef double extra_method(self)',
                                                        also=('pkg/shapes.pyx', '    def diag(self):',
                                                              '    cdef double extra_method(self):\n        return 0\n\n'
                                                              '    def diag(self):'))),
        # consts.pxd is reached from shapes.pyx only through "from pkg cimport consts" (user.pyx also names pkg.consts)
        'dep:pxd-from-package-cimport': ('dep-pxd-via-from-package-cimport',
                                         edit('pkg/consts.pxd', 'UNIT = %d' % (k + 2), 'UNIT = %d' % (k + 1002))),
        'dep:pxd-from-package-cimport-inline-body': ('dep-pxd-via-from-package-cimport',
                                                     edit('pkg/consts.pxd', 'return 2 * x + UNIT', 'return 3 * x + UNIT')),
    }
    return {'kind': 'B-package-api', 'files': files, 'patterns': ['pkg/*.pyx'], 'file_factors': ff,
            'kwargs': {'language_level': 3, 'quiet': True},
            'has': {'ext': [{'name': 'pkg.shapes', 'sources': ['pkg/shapes.pyx']},
                            {'name': 'pkg.user', 'sources': ['pkg/user.pyx']}],
                    'ext_other_name': 'pkg.renamed_user'}}


# ----------------------------------------------------------------------------- tree kind C: pure Python mode

C_APP = '''\
import cython
from lib import helper


@cython.cfunc
@cython.returns(cython.long)
@cython.locals(a=cython.long, b=cython.long)
def _div(a, b):
    return a // b


@cython.cclass
class Counter:
    """Counter docs."""
    count: cython.int
    names: list

    def __init__(self, start: cython.int = %(k)d):
        self.count = start
        self.names = []

    @cython.ccall
    def bump(self, by: cython.int = 1) -> cython.int:
        self.count += by
        return self.count

    def name(self, i: cython.Py_ssize_t):
        return self.names[i]


def fast(x):
    """
    >>> fast(3)
    9
    """
    return x * x + K_APP


K_APP = %(k)d


def use(n: int, label: str = "x", *args, flag=False, **kw):
    c = Counter()
    total = 0
    for i in range(n):
        total += c.bump(i) + _div(i, 2) + i ** 2
    text = f"{label}:{total!r:>10}"
    if cython.compiled:
        text += " compiled"
    return text, helper(total), [a for a in args if a], {k: v for k, v in kw.items()}, 7 / 2


def closures(seq):
    acc = []
    def inner(x, _acc=acc):
        _acc.append(x)
        return lambda y: x + y + len(acc)
    return [inner(s)(1) for s in seq]


def tries(d, key):
    try:
        return d[key]
    except KeyError as exc:
        raise ValueError(key) from exc
    finally:
        d.clear()


def withs(cm):
    with cm as f:
        return f.read()[-1]
'''
C_APP_PXD = '''\
cimport cython

cpdef long fast(long x)
'''
C_LIB = '''\
def helper(x):
    return [x, str(x), x / %(k)d]


class Plain:
    attr = %(k)d

    def method(self, a, b=2):
        return a + b + self.attr

    @staticmethod
    def s(x):
        return x

    @property
    def p(self):
        return self.attr
'''


def tree_c(rng):
    k = rng.randint(2, 60)
    # lib.py is longer than one 65000-byte read of Cache.file_hash; LATE sits behind that boundary
    filler = ''.join('# filler line %04d %s\n' % (i, 'x' * 60) for i in range(900))
    files = {
        'app.py': C_APP % {'k': k},
        'app.pxd': C_APP_PXD,
        'lib.py': C_LIB % {'k': k + 1} + filler + 'LATE = %d\n' % (k + 2),
    }
    ff = {
        'source:constant': ('source', edit('app.py', 'K_APP = %d' % k, 'K_APP = %d' % (k + 1000))),
        'source:other-module': ('source', edit('lib.py', 'attr = %d' % (k + 1), 'attr = %d' % (k + 1001))),
        'source:comment-only': ('source-cosmetic', edit('app.py', 'K_APP = %d' % k, 'K_APP = %d  # note' % k)),
        'source:whitespace-only': ('source-cosmetic', edit('app.py', '    acc = []\n', '    acc = []  \n')),
        'source:compile-error': ('compile-error', edit('app.py', 'return x * x + K_APP', 'return x * x + undefined_c48_name')),
        'source:constant-beyond-64k': ('source', edit('lib.py', 'LATE = %d' % (k + 2), 'LATE = %d' % (k + 1002))),
        'dep:own-pxd': ('dep-own-pxd', edit('app.pxd', 'cpdef long fast(long x)', 'cpdef int fast(int x)')),
    }
    return {'kind': 'C-pure-python', 'files': files, 'patterns': ['app.py', 'lib.py'], 'file_factors': ff,
            'kwargs': {'language_level': 3, 'quiet': True},
            'has': {'ext': [{'name': 'app', 'sources': ['app.py']}, {'name': 'lib', 'sources': ['lib.py']}],
                    'ext_other_name': 'app2'}}


TREE_KINDS = [tree_a, tree_b, tree_c]


# ----------------------------------------------------------------------------- factors

def edit(rel, old, new, also=None):
    def fn(state):
        text = state['files'][rel]
        assert old in text, (rel, old)
        state['files'][rel] = text.replace(old, new, 1)
        if also:
            r2, o2, n2 = also
            assert o2 in state['files'][r2], (r2, o2)
            state['files'][r2] = state['files'][r2].replace(o2, n2, 1)
    return fn


def set_kw(name, value):
    def fn(state):
        state['kwargs'][name] = value
    return fn


def set_directive(name, value, extra=None):
    def fn(state):
        d = dict(state['kwargs'].get('compiler_directives') or {})
        d[name] = value
        d.update(extra or {})
        state['kwargs']['compiler_directives'] = d
    return fn


def set_global(name, value):
    def fn(state):
        state['global_options'][name] = value
    return fn


SKIP_DIRECTIVES = {
    # not a property of the module text being compiled / needs external files / would write side files
    'control_flow.dot_output', 'control_flow.dot_annotate_defs', 'test_assert_path_exists',
    'test_fail_if_path_exists', 'test_assert_c_code_has', 'test_fail_if_c_code_has',
    'test_body_needs_exception_handling', 'np_pythran', 'formal_grammar', 'language_level',
    # function/with-statement-only directives that cannot be given globally
    'nogil', 'gil', 'with_gil', 'callspec', 'warn', 'c_compile_guard',
}
DIRECTIVE_VALUES = {
    'auto_pickle': [False], 'cpow': [True], 'infer_types': [True, False], 'set_initial_path': ['SOURCEFILE'],
    'subinterpreters_compatible': ['shared_gil'],
    'embedsignature.format': [('python', {'embedsignature': True})],
    'c_string_type': [('str', {'c_string_encoding': 'utf8'})], 'c_string_encoding': ['utf8'],
}


def directive_factors(defaults):
    """defaults: {name: default value} as reported by the tree under observation."""
    out = {}
    for name, dv in sorted(defaults.items()):
        if name in SKIP_DIRECTIVES:
            continue
        if name in DIRECTIVE_VALUES:
            vals = DIRECTIVE_VALUES[name]
        elif isinstance(dv, bool):
            vals = [not dv]
        else:
            continue
        for v in vals:
            extra = None
            if isinstance(v, tuple):
                v, extra = v
            out['directive:%s=%r' % (name, v)] = ('directive', set_directive(name, v, extra))
    return out


def option_factors(proj):
    has = proj['has']
    f = {
        'language_level:2': ('language_level', set_kw('language_level', 2)),
        'language_level:3str': ('language_level', set_kw('language_level', '3str')),
        'option:cplus': ('option:cplus', set_kw('language', 'c++')),
        'option:emit_linenums': ('option:emit_linenums', set_kw('emit_linenums', True)),
        'option:c_line_in_traceback=True': ('option:c_line_in_traceback', set_kw('c_line_in_traceback', True)),
        'option:c_line_in_traceback=False': ('option:c_line_in_traceback', set_kw('c_line_in_traceback', False)),
        'option:gdb_debug': ('option:gdb_debug', set_kw('gdb_debug', True)),
        'option:annotate': ('option:annotate', set_kw('annotate', True)),
        'option:relative_path_in_code_position_comments': (
            'option:relative_path_in_code_position_comments', set_kw('relative_path_in_code_position_comments', False)),
        'option:evaluate_tree_assertions': ('option:evaluate_tree_assertions', set_kw('evaluate_tree_assertions', True)),
        'option:legacy_implicit_noexcept': ('option:legacy_implicit_noexcept', set_kw('legacy_implicit_noexcept', True)),
        'option:generate_pxi': ('option:generate_pxi', set_kw('generate_pxi', 1)),
        'option:use_listing_file': ('option:use_listing_file', set_kw('use_listing_file', 1)),
        'version:patched': ('version', lambda st: st.__setitem__('version', '99.0.1')),
        'irrelevant:quiet-off': ('irrelevant:verbosity', set_kw('quiet', False)),
        'irrelevant:verbose': ('irrelevant:verbosity', set_kw('verbose', 1)),
        'irrelevant:build_dir': ('irrelevant:output-path', set_kw('build_dir', 'bld')),
        'irrelevant:nthreads': ('irrelevant:nthreads', set_kw('nthreads', 2)),
        'irrelevant:mtime-only': ('irrelevant:mtime', lambda st: None),
        'irrelevant:depfile': ('irrelevant:depfile', set_kw('depfile', True)),
        'module_name:extension-same-name': ('irrelevant:extension-object',
                                            lambda st: st.__setitem__('extension', copy.deepcopy(
                                                has['ext'] if isinstance(has['ext'], list) else [has['ext']]))),
        'module_name:extension-renamed': ('module_name', lambda st: st.__setitem__('extension', _renamed(has))),
        'ext_metadata:define_macros': ('ext_metadata', lambda st: st.__setitem__('extension', _with_macros(has))),
    }
    if 'include_path_alt' in has:
        f['include_path:other-dir'] = ('include_path', set_kw('include_path', has['include_path_alt']))
    if 'cte' in has:
        f['option:compile_time_env'] = ('option:compile_time_env', set_kw('compile_time_env', has['cte']))
    for name, val in [('docstrings', False), ('embed_pos_in_docstring', True), ('generate_cleanup_code', True),
                      ('clear_to_none', False), ('cache_builtins', False), ('gcc_branch_hints', False),
                      ('convert_range', False), ('closure_freelist_size', 0), ('buffer_max_dims', 4),
                      ('lookup_module_cpdef', True)]:
        f['global_option:%s=%r' % (name, val)] = ('global_option', set_global(name, val))
    return f


def _renamed(has):
    e = copy.deepcopy(has['ext'] if isinstance(has['ext'], list) else [has['ext']])
    e[-1]['name'] = has['ext_other_name']
    return e


def _with_macros(has):
    e = copy.deepcopy(has['ext'] if isinstance(has['ext'], list) else [has['ext']])
    for x in e:
        x['define_macros'] = [['VERIF_MACRO', '1']]
    return e


def all_factors(proj, directive_defaults):
    f = {}
    f.update(proj['file_factors'])
    f.update(option_factors(proj))
    f.update(directive_factors(directive_defaults))
    return f


def base_state(proj):
    return {'files': dict(proj['files']), 'kwargs': copy.deepcopy(proj['kwargs']), 'version': None,
            'global_options': {}, 'extension': None}


def apply(proj, factors, names):
    st = base_state(proj)
    for n in names:
        factors[n][1](st)
    return st
