"""Replay one C50 witness: python -m props.C50_replay <file with {lexicon, input, mode, stream_chunk}>"""
import json
import sys

from props import C50_worker as W


def main():
    spec = json.load(open(sys.argv[1]))
    import Cython.Plex as P
    from Cython.Plex import Actions as A, Errors as E
    assert P.__file__.endswith('.py'), P.__file__
    lex, text = spec['lexicon'], spec['input']
    lexicon = W.build_lexicon(P, lex)
    orc = W.Oracle(lex)
    exp_toks, exp_end, flags, dis = W.oracle_tokens(lex, orc, text)
    maxtok = 3 * len(text) + 12
    if spec.get('mode') == 'read':
        got, end = W.real_read(P, E, lexicon, text, maxtok)
        exp = W.visible(lex, exp_toks, flags)
    else:
        k = spec.get('stream_chunk')
        got, end = W.real_tokens(P, A, E, lexicon, text, maxtok, W.SlowStream(text, k) if k else None)
        exp = exp_toks
    got = [tuple(t) for t in got]
    print('lexicon ', json.dumps(lex['states']))
    print('input   ', repr(text[:200]), '(%d chars)' % len(text))
    print('expected', exp[:30], exp_end)
    print('observed', got[:30], end)
    if dis:
        print('reference matchers disagree:', dis[:3])
        return 2
    bad = W.compare(exp, exp_end, got, end, flags)
    if bad:
        print('VIOLATION property=C50 replay=<replayed> (%s at token %d)' % bad)
        return 1
    print('replay: scanner agrees with the reference')
    return 0


if __name__ == '__main__':
    sys.exit(main())
