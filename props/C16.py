"""C16 Typed memoryview indexing and slicing match buffer semantics (DESIGN.md section 5, C16).

Generated .pyx modules hold (a) one typed function per slicing *shape* (which positions are int / slice with
compile-time presence of start, stop, step / ellipsis / None) and declared memoryview type, with run-time
Py_ssize_t bounds; (b) a twin "sweep" function per shape that runs whole index ranges inside a compiled loop
and reports only mismatches; (c) object-level entry points indexing cython.view.memoryview objects with
arbitrary index objects. The reference model applies the same index text to the NumPy view of the exporter."""
import itertools
import os
import re

from vlib import core, creach, cy, diff
from vlib.ref import c16ref

DTYPE_C = {'i': 'int', 'd': 'double', 's': 'S', 'B': 'unsigned char'}
SETUP = 'from vlib.ref.c16ref import *\nimport numpy as np\n'

PRE_PYX = '''# cython: language_level=3
cimport cython
from cython cimport view
from vlib.ref import c16ref as _r
NORM = _r.norm
CONV = _r.conv
DO = _r.DO
CK = _r.CK

cdef struct S:
    int a
    double b

'''

PRE_REF = '''from vlib.ref.c16ref import A, D
'''


# --------------------------------------------------------------------------------------------- declarations
class Decl:
    def __init__(self, dt, nd, mode='s', const=False):
        self.dt, self.nd, self.mode, self.const = dt, nd, mode, const
        self.key = '%s%d%s%s' % (dt, nd, mode, 'k' if const else '')

    def ctype(self, nd=None, mode=None):
        nd = self.nd if nd is None else nd
        mode = self.mode if mode is None else mode
        ax = [':'] * nd
        if mode == 'c':
            ax[-1] = '::1'
        elif mode == 'f':
            ax[0] = '::1'
        return '%s%s[%s]' % ('const ' if self.const else '', DTYPE_C[self.dt], ', '.join(ax))

    def layouts(self, shape):
        nd = self.nd
        zero = 0 in shape
        if self.mode == 'c':
            ls = ['C']
            if nd == 1 and self.dt in 'id' and not self.const:
                ls.append('ARR')
            if nd == 1 and self.dt == 'B':
                ls.append('BA')
        elif self.mode == 'f':
            ls = ['F'] if not zero else []
        else:
            ls = ['C', 'F', 'T', 'S', 'N', 'M']
            if nd == 1:
                ls = ['C', 'S', 'N', 'M']
                if self.dt in 'id':
                    ls.append('ARR')
                if self.dt == 'B':
                    ls.append('BA')
            if self.dt in 'idB' and not zero:
                ls.append('MVW')
        if self.const:
            ls.append('RO')
            if self.dt in 'idB' and not zero and self.mode != 'f':
                ls.append('MV')
        return ls


def decls(ck):
    ds = [Decl('i', 1), Decl('i', 2), Decl('i', 3), Decl('i', 1, 'c'), Decl('i', 2, 'c'), Decl('i', 2, 'f'),
          Decl('d', 1), Decl('d', 2), Decl('s', 1), Decl('s', 2), Decl('i', 1, 's', True), Decl('i', 2, 's', True),
          Decl('B', 1)]
    if not ck.quick:
        ds += [Decl('i', 3, 'c'), Decl('i', 3, 'f'), Decl('d', 3), Decl('s', 3), Decl('d', 2, 'c', True)]
    return ds


# --------------------------------------------------------------------------------------------- slicing shapes
# token: 'I' | 'E' | 'N' | 'S' + 3 presence flags ('S101' = start and step given)
def tok_valid(toks, nd):
    cons = sum(1 for t in toks if t[0] in 'IS')
    if cons > nd or toks.count('E') > 1:
        return False
    ni = toks.count('I')
    rd = nd - ni + toks.count('N')
    if rd == 0:
        return ni == nd and len(toks) == nd       # plain element access
    return 1 <= rd <= 3 and len(toks) >= 1


def src_dims(toks, nd):
    """source dimension of every consuming token (None for E/N)"""
    out = []
    cons_after = 0
    if 'E' in toks:
        e = toks.index('E')
        cons_after = sum(1 for t in toks[e + 1:] if t[0] in 'IS')
    d = 0
    seen_e = False
    for k, t in enumerate(toks):
        if t == 'E':
            seen_e = True
            d = nd - cons_after
            out.append(None)
        elif t == 'N':
            out.append(None)
        else:
            out.append(d)
            d += 1
    return out


class TF:
    """one typed function: declaration x slicing shape"""

    def __init__(self, n, decl, toks, nobc=False, contig_result=False, has_sweep=True):
        self.n, self.decl, self.toks, self.nobc = n, decl, tuple(toks), nobc
        self.has_sweep = has_sweep and not nobc
        self.name = 'fz%dz' % n
        self.sweep = 'sw%dz' % n
        nd = decl.nd
        dims = src_dims(self.toks, nd)
        parts, params = [], []          # params: (name, kind in 'iabc', source dim)
        for k, t in enumerate(self.toks):
            if t == 'I':
                parts.append('i%d' % k)
                params.append(('i%d' % k, 'i', dims[k]))
            elif t == 'E':
                parts.append('...')
            elif t == 'N':
                parts.append('None')
            else:
                hs, he, hc = t[1] == '1', t[2] == '1', t[3] == '1'
                s = ('a%d' % k if hs else '') + ':' + ('b%d' % k if he else '')
                if hc:
                    s += ':c%d' % k
                parts.append(s)
                for flag, nm, kd in ((hs, 'a', 'a'), (he, 'b', 'b'), (hc, 'c', 'c')):
                    if flag:
                        params.append(('%s%d' % (nm, k), kd, dims[k]))
        self.index = ', '.join(parts)
        self.params = params
        self.rd = nd - self.toks.count('I') + self.toks.count('N')
        self.contig_result = contig_result
        self.tag = '%s/%s' % (decl.key, ''.join(t if t[0] != 'S' else 's' + t[1:] for t in self.toks))

    def shape_key(self):
        return ''.join(t[0] for t in self.toks)

    def pyx(self, modname):
        d = self.decl
        sig = ''.join(', Py_ssize_t %s' % p[0] for p in self.params)
        deco = '@cython.boundscheck(False)\n' if self.nobc else ''
        out = []
        dk = d.dt + ('k' if d.const else '')
        if self.rd == 0:
            out.append('%sdef %s(obj%s):\n    cdef %s m = obj\n    return CONV(m[%s])\n' % (
                deco, self.name, sig, d.ctype(), self.index))
            body = ['got = CONV(m[%s])' % self.index]
            rdecl = None
        else:
            rt = d.ctype(self.rd, 'c' if self.contig_result else 's')
            out.append('%sdef %s(obj%s):\n    cdef %s m = obj\n    cdef %s r = m[%s]\n    return d_%s_%d(r)\n' % (
                deco, self.name, sig, d.ctype(), rt, self.index, dk, self.rd))
            body = ['r = m[%s]' % self.index, 'got = d_%s_%d(r)' % (dk, self.rd)]
            rdecl = '    cdef %s r' % rt
        if self.has_sweep and self.params:
            lines = ['def %s(obj, R):' % self.sweep, '    cdef %s m = obj' % d.ctype()]
            if rdecl:
                lines.append(rdecl)
            lines.append('    cdef Py_ssize_t %s' % ', '.join(p[0] for p in self.params))
            lines.append("    chk = CK(obj, '%s', '%s', '%s')" % (
                modname, self.name, ' '.join('%s%d' % (p[1], p[2]) for p in self.params)))
            ind = '    '
            for k, p in enumerate(self.params):
                lines.append('%sfor %s in R[%d]:' % (ind, p[0], k))
                ind += '    '
            lines.append(ind + 'try:')
            for bl in body:
                lines.append(ind + '    ' + bl)
            lines.append(ind + 'except IndexError:')
            lines.append(ind + "    got = 'IndexError'")
            lines.append(ind + 'except ValueError:')
            lines.append(ind + "    got = 'ValueError'")
            lines.append(ind + 'chk((%s,), got)' % ', '.join(p[0] for p in self.params))
            lines.append('    return chk.result()')
            out.append('\n'.join(lines) + '\n')
        return '\n'.join(out)

    def ref(self):
        sig = ''.join(', %s' % p[0] for p in self.params)
        out = 'def %s(obj%s):\n    return D(A(obj)[%s])\n' % (self.name, sig, self.index)
        if self.has_sweep and self.params:
            out += 'def %s(obj, R):\n    n = 1\n    for r in R:\n        n *= len(r)\n    return (n, [])\n' % self.sweep
        return out


def desc_helpers(dkeys):
    """cdef describers d_<dt>[k]_<rd>: shape, strides, suboffsets and elements read by typed indexing"""
    out = []
    for (dt, const) in sorted(dkeys):
        for rd in (1, 2, 3):
            v = 'ijk'[:rd]
            ty = '%s%s[%s]' % ('const ' if const else '', DTYPE_C[dt], ', '.join([':'] * rd))
            el = 'r[%s]' % ', '.join(v)
            for k in reversed(range(rd)):
                el = '[%s for %s in range(r.shape[%d])]' % (el, v[k], k)
            out.append('cdef object d_%s%s_%d(%s r):\n    cdef Py_ssize_t i, j, k\n    return NORM((%s,), (%s,), (%s,), %s)\n' % (
                dt, 'k' if const else '', rd, ty,
                ', '.join('r.shape[%d]' % q for q in range(rd)), ', '.join('r.strides[%d]' % q for q in range(rd)),
                ', '.join('r.suboffsets[%d]' % q for q in range(rd)), el))
    return '\n'.join(out) + '\n'


PRES7 = ['S100', 'S010', 'S001', 'S110', 'S101', 'S011', 'S111']


def gen_shapes(ck, decl, rng):
    """list of (toks, nobc, contig_result, sweep) for one declaration: a fixed core plus seeded random shapes.
    The strided int declarations get the rich set; other dtypes/layouts share the slicing code and get a small one."""
    nd = decl.nd
    rich = decl.dt == 'i' and decl.mode == 's' and not decl.const
    core_ = [['I'] * nd]
    if rich or (not ck.quick and decl.dt == 'i'):
        # every I / S111 arrangement, also partial (implicit trailing ':')
        for ln in range(1, nd + 1):
            for combo in itertools.product(['I', 'S111'], repeat=ln):
                core_.append(list(combo))
        for p in PRES7:
            t = ['S000'] * nd
            t[rng.randrange(nd)] = p
            core_.append(t)
        core_ += [['E'], ['E', 'S111'], ['S111', 'E'], ['N', 'S111'], ['S111', 'N'], ['N', 'E'], ['E', 'N'], ['N', 'S011', 'N']]
        if nd >= 2:
            core_ += [['I', 'E'], ['E', 'I'], ['S111', 'E', 'S111'], ['I', 'N', 'S111'], ['S101', 'N', 'I'], ['N', 'I', 'I'],
                      ['E', 'S110', 'N'], ['I', 'E', 'S011']]
        if nd >= 3:
            core_ += [['I', 'E', 'I'], ['S111', 'E', 'I'], ['I', 'S111', 'E'], ['E', 'I', 'S111'], ['I', 'N', 'I', 'S111'],
                      ['S111', 'S111', 'S111'], ['I', 'I', 'E']]
    else:
        core_ += [['S111'] * nd, ['S111'], ['E', 'S101'], ['N', 'S011'], ['S110', 'N']]
        if nd >= 2:
            core_ += [['I', 'S111'], ['S111', 'I'], ['I'], ['E', 'I']]
    shapes = []
    seen = set()
    for t in core_:
        if tok_valid(t, nd) and tuple(t) not in seen:
            seen.add(tuple(t))
            shapes.append(t)
    nrand = ck.pick({1: 3, 2: 8, 3: 8}, {1: 8, 2: 24, 3: 30})[nd]
    if not rich:
        nrand = ck.pick(1, max(2, nrand // 3))
    tries = 0
    while nrand > 0 and tries < 2000:
        tries += 1
        ln = rng.randint(1, nd + 2)
        t = [rng.choice(['I', 'S', 'S', 'S', 'E', 'N']) for _ in range(ln)]
        t = [x if x != 'S' else rng.choice(PRES7 + ['S000', 'S111']) for x in t]
        if not tok_valid(t, nd) or tuple(t) in seen or all(x in ('S000', 'E') for x in t):
            continue
        seen.add(tuple(t))
        shapes.append(t)
        nrand -= 1
    psweep = ck.pick(0.45 if rich else 0.25, 1.0 if rich else 0.5)
    out = [(t, False, False, any(x[0] == 'S' and x != 'S000' for x in t) and rng.random() < psweep) for t in shapes]
    # boundscheck(False) twins of a few shapes (driven with in-range integer indices only)
    for t in shapes:
        if 'I' in t and rng.random() < (0.2 if rich else 0.08):
            out.append((t, True, False, False))
    # contiguous result type where the compiler allows it: no step anywhere, leading ints then slices on c-contig
    if decl.mode == 'c' and nd <= 2:
        if nd == 1:
            out += [(['S110'], False, True, True), (['S100'], False, True, False), (['S010'], False, True, False)]
        else:
            out += [(['I', 'S110'], False, True, True), (['S110', 'S000'], False, True, False), (['I'], False, True, False)]
    return out


# --------------------------------------------------------------------------------------------- inputs
def array_shapes(ck, nd, rng):
    mx = ck.pick(4, 6)
    if nd == 1:
        return [(n,) for n in range(mx + 1)]
    if nd == 2:
        fixed = [(2, 3), (3, 1), (1, 4), (0, 3), (2, 0), (4, 4)]
        if not ck.quick:
            fixed += [(6, 5), (5, 6), (1, 1), (0, 0)]
        return fixed + [(rng.randint(0, mx), rng.randint(0, mx)) for _ in range(ck.pick(2, 6))]
    fixed = [(2, 3, 2), (1, 0, 2), (3, 1, 4)]
    if not ck.quick:
        fixed += [(6, 2, 3), (2, 6, 5), (4, 4, 4), (0, 2, 2), (2, 3, 6)]
    return fixed + [tuple(rng.randint(0, mx) for _ in range(3)) for _ in range(ck.pick(1, 5))]


def clamp_class(v, n):
    if v is None:
        return 'none'
    if v < -n:
        return 'below'
    if v >= n:
        return 'above' if v > n else 'at-len'
    return 'neg-inside' if v < 0 else 'inside'


class Hist:
    """per-dimension step sign x clamp class of start and stop (R line of DESIGN C16)"""

    def __init__(self):
        self.h = {}

    def add_group(self, dim, n, a, b, c, weight=1):
        sg = 'none' if c is None else ('zero' if c == 0 else ('neg' if c < 0 else 'pos'))
        for nm, v in (('start', a), ('stop', b)):
            k = 'dim%d|step:%s|%s:%s' % (dim, sg, nm, clamp_class(v, n))
            self.h[k] = self.h.get(k, 0) + weight

    def add_int(self, dim, n, v, weight=1):
        k = 'dim%d|int:%s' % (dim, 'out-below' if v < -n else 'out-above' if v >= n else 'neg' if v < 0 else 'in')
        self.h[k] = self.h.get(k, 0) + weight

    def missing(self, dims):
        miss = []
        for d in dims:
            for sg in ('neg', 'pos'):
                for nm in ('start', 'stop'):
                    for cl in ('below', 'inside', 'above'):
                        k = 'dim%d|step:%s|%s:%s' % (d, sg, nm, cl)
                        if not self.h.get(k):
                            miss.append(k)
        return miss


EXTREME_STEPS = [2 ** 63 - 1, -(2 ** 63 - 1), -(2 ** 63)]      # |step| far beyond any length, Py_ssize_t limits


def value_pool(kind, n, rng, in_range_only=False):
    if kind == 'i':
        if in_range_only:
            return list(range(-n, n))
        return list(range(-n - 2, n + 2))
    if kind == 'c':
        return [-3, -2, -1, 1, 2, 3, 0] + EXTREME_STEPS
    return list(range(-2 * n - 1, 2 * n + 2))


def gen_cases(ck, tf, shapes, rng, hist, ncase):
    """individual driver cases for one typed function"""
    cases = []
    for _ in range(ncase):
        shape = rng.choice(shapes)
        lays = tf.decl.layouts(shape)
        if not lays:
            continue
        lay = rng.choice(lays)
        vals = []
        nerr = 0
        ok = True
        for (nm, kind, dim) in tf.params:
            n = shape[dim]
            if kind == 'i':
                if tf.nobc:
                    if n == 0:
                        ok = False
                        break
                    v = rng.randrange(-n, n)
                else:
                    v = rng.randrange(-n, n) if (n and rng.random() < 0.8) else rng.choice([-n - 1, n, n + 1, -n - 2])
                if not (-n <= v < n):
                    nerr += 1
            elif kind == 'c':
                w = rng.random()
                v = rng.choice([-3, -2, -1, 1, 2, 3]) if w < 0.91 else (0 if w < 0.95 else rng.choice(EXTREME_STEPS + [7, -7, 2 ** 40]))
                if v == 0:
                    nerr += 1
            else:
                v = rng.randint(-2 * n - 1, 2 * n + 1)
            vals.append(v)
        if not ok:
            continue
        record_hist(tf, shape, vals, hist)
        c = {'f': tf.name, 'a': "(X('%s', '%s', %r),%s)" % (tf.decl.dt, lay, shape, ''.join(' %d,' % v for v in vals)),
             't': tf.tag + ('/nobc' if tf.nobc else '')}
        if nerr >= 2:
            c['me'] = 1
        cases.append(c)
    return cases


def record_hist(tf, shape, vals, hist, weight=1):
    byname = {p[0]: v for p, v in zip(tf.params, vals)}
    dims = src_dims(tf.toks, tf.decl.nd)
    for k, t in enumerate(tf.toks):
        if t == 'I':
            hist.add_int(dims[k], shape[dims[k]], byname['i%d' % k], weight)
        elif t[0] == 'S' and t != 'S000':
            hist.add_group(dims[k], shape[dims[k]], byname.get('a%d' % k), byname.get('b%d' % k), byname.get('c%d' % k), weight)


def gen_sweeps(ck, tf, shapes, rng, hist, budget):
    """sweep cases: full ranges for the parameters of one swept dimension, small samples for the others"""
    cases = []
    if not tf.has_sweep or not tf.params:
        return cases, 0
    total = 0
    slice_dims = sorted({p[2] for p in tf.params if p[1] in 'abc'})
    for rep in range(ck.pick(1, 2)):
        shape = rng.choice(shapes)
        lays = tf.decl.layouts(shape)
        if not lays:
            continue
        lay = rng.choice(lays)
        swept = rng.choice(slice_dims) if slice_dims else None
        R = []
        for (nm, kind, dim) in tf.params:
            n = shape[dim]
            pool = value_pool(kind, n, rng)
            if kind == 'i':
                r = pool if len(pool) <= 6 else sorted(set(rng.sample(pool, 4) + [-n - 1, n]))
            elif dim == swept:
                r = pool
            else:
                r = sorted(set(rng.sample(pool, min(len(pool), 3))))
            R.append(r)
        n = 1
        for r in R:
            n *= len(r)
        # shrink the non-swept ranges until the product fits the budget
        while n > budget:
            big = max(range(len(R)), key=lambda q: (tf.params[q][2] != swept or tf.params[q][1] == 'i', len(R[q])))
            if len(R[big]) <= 1:
                break
            R[big] = sorted(rng.sample(R[big], max(1, len(R[big]) // 2)))
            n = 1
            for r in R:
                n *= len(r)
        if n > budget * 4:
            continue
        # histogram: marginal counts per parameter group
        by = {p[0]: r for p, r in zip(tf.params, R)}
        dims = src_dims(tf.toks, tf.decl.nd)
        for k, t in enumerate(tf.toks):
            if t == 'I':
                for v in by['i%d' % k]:
                    hist.add_int(dims[k], shape[dims[k]], v, n // len(by['i%d' % k]))
            elif t[0] == 'S' and t != 'S000':
                A_, B_, C_ = by.get('a%d' % k, [None]), by.get('b%d' % k, [None]), by.get('c%d' % k, [None])
                w = n // (len(A_) * len(B_) * len(C_))
                for a in A_:
                    for b in B_:
                        for c in C_:
                            hist.add_group(dims[k], shape[dims[k]], a, b, c, w)
        cases.append({'f': tf.sweep, 'a': "(X('%s', '%s', %r), %r)" % (tf.decl.dt, lay, shape, R),
                      't': 'sweep/' + tf.tag, 'sw': n})
        total += n
    return cases, total


# --------------------------------------------------------------------------------------------- object level
OBJ_FUNCS = [('go_i1', Decl('i', 1)), ('go_i2', Decl('i', 2)), ('go_i3', Decl('i', 3)), ('go_i2c', Decl('i', 2, 'c')),
             ('go_i2f', Decl('i', 2, 'f')), ('go_d2', Decl('d', 2)), ('go_s1', Decl('s', 1)), ('go_s2', Decl('s', 2)),
             ('go_i2k', Decl('i', 2, 's', True)), ('go_B1', Decl('B', 1))]
GEN_FUNCS = [('gg_1', 1), ('gg_2', 2), ('gg_3', 3)]      # cython.view.memoryview(obj, flags): no dtype information


def obj_module():
    pyx = [PRE_PYX]
    ref = [PRE_REF]
    for name, d in OBJ_FUNCS:
        pyx.append('def %s(obj, idx):\n    cdef %s m = obj\n    return DO((<object>m)[idx], %d, idx)\n' % (name, d.ctype(), d.nd))
        pyx.append('def sw_%s(obj, idxs):\n    cdef %s m = obj\n    o = <object>m\n    return _osweep(o, obj, idxs, %d, %r)\n'
                   % (name, d.ctype(), d.nd, name))
        ref.append('def %s(obj, idx):\n    return D(A(obj)[idx])\n' % name)
        ref.append('def sw_%s(obj, idxs):\n    return (len(idxs), [])\n' % name)
    for name, nd in GEN_FUNCS:
        # 284 = PyBUF_RECORDS_RO (strides + format)
        pyx.append('def %s(obj, idx):\n    m = view.memoryview(obj, 284)\n    return DO(m[idx], %d, idx)\n' % (name, nd))
        pyx.append('def sw_%s(obj, idxs):\n    o = view.memoryview(obj, 284)\n    return _osweep(o, obj, idxs, %d, %r)\n'
                   % (name, nd, name))
        ref.append('def %s(obj, idx):\n    return D(A(obj)[idx])\n' % name)
        ref.append('def sw_%s(obj, idxs):\n    return (len(idxs), [])\n' % name)
    pyx.append('''
def _osweep(o, obj, idxs, nd, fname):
    import sys
    f = getattr(sys.modules['ref_c16obj'], fname)
    bad = []
    n = 0
    for idx in idxs:
        try:
            got = DO(o[idx], nd, idx)
        except IndexError:
            got = 'IndexError'
        except ValueError:
            got = 'ValueError'
        try:
            exp = f(obj, idx)
        except IndexError:
            exp = 'IndexError'
        except ValueError:
            exp = 'ValueError'
        n += 1
        if got != exp and len(bad) < 6:
            bad.append((repr(idx), exp, got))
    return (n, bad)
''')
    return '\n'.join(pyx), '\n'.join(ref)


def rand_index_obj(rng, shape, hist, allow_none=True, errs=None):
    """random index expression text for an array of the given shape (at most one ellipsis, <= ndim consuming items)"""
    nd = len(shape)
    ncons = rng.randint(0, nd)
    items = ['c'] * ncons
    if rng.random() < 0.35:
        items.insert(rng.randint(0, len(items)), 'E')
    if allow_none:
        while rng.random() < 0.2 and items.count('N') < 2:
            items.insert(rng.randint(0, len(items)), 'N')
    toks = [('I' if rng.random() < 0.4 else 'S111') if t == 'c' else t for t in items]
    dims = src_dims(toks, nd)
    parts = []
    nerr = 0
    for k, t in enumerate(toks):
        if t == 'E':
            parts.append('Ellipsis')
        elif t == 'N':
            parts.append('None')
        elif t == 'I':
            n = shape[dims[k]]
            v = rng.randrange(-n, n) if (n and rng.random() < 0.85) else rng.choice([-n - 1, n, n + 1])
            if not (-n <= v < n):
                nerr += 1
            hist.add_int(dims[k], n, v)
            w = rng.random()
            parts.append('%d' % v if w < 0.8 else 'np.int64(%d)' % v if w < 0.9 else 'Idx(%d)' % v)
        else:
            n = shape[dims[k]]
            a = rng.choice([None, rng.randint(-2 * n - 1, 2 * n + 1)]) if rng.random() < 0.4 else rng.randint(-2 * n - 1, 2 * n + 1)
            b = rng.choice([None, rng.randint(-2 * n - 1, 2 * n + 1)]) if rng.random() < 0.4 else rng.randint(-2 * n - 1, 2 * n + 1)
            c = rng.choice([None, -3, -2, -1, 1, 2, 3, -1, 1] + ([0] if rng.random() < 0.3 else []) + ([rng.choice(EXTREME_STEPS + [9, -9])] if rng.random() < 0.3 else []))
            if c == 0:
                nerr += 1
            hist.add_group(dims[k], n, a, b, c)
            if rng.random() < 0.08:
                parts.append('slice(%s, %s, %s)' % tuple('None' if q is None else 'Idx(%d)' % q for q in (a, b, c)))
            else:
                parts.append('slice(%r, %r, %r)' % (a, b, c))
    if len(parts) == 1 and rng.random() < 0.6:
        text = parts[0]
    else:
        text = '(%s)' % ''.join(p + ', ' for p in parts)
    return text, ('N' in toks), nerr


def obj_cases(ck, rng, hist):
    cases = []
    sweeps = []
    nper = ck.pick(60, 400)
    for name, d in OBJ_FUNCS + [(n, Decl('i', nd)) for n, nd in GEN_FUNCS]:
        generic = name.startswith('gg_')
        shapes = array_shapes(ck, d.nd, rng)
        for _ in range(nper):
            shape = rng.choice(shapes)
            lays = d.layouts(shape)
            dt = d.dt
            if generic:     # no dtype information: only formats the struct module understands
                dt = rng.choice('idB' if d.nd == 1 else 'id')
                lays = Decl(dt, d.nd, 's', True).layouts(shape)
            if not lays:
                continue
            lay = rng.choice(lays)
            text, has_none, nerr = rand_index_obj(rng, shape, hist)
            c = {'f': name, 'a': "(X('%s', '%s', %r), %s)" % (dt, lay, shape, text), 't': 'obj/%s' % name}
            if has_none:
                c['hn'] = 1
                c['t'] += '/none'
            if nerr >= 2:
                c['me'] = 1
            cases.append(c)
        # extension cells outside the stated index ranges: too many indices, huge integers
        shape = rng.choice([s for s in shapes if 0 not in s])
        dt = d.dt
        lay0 = d.layouts(shape)[0]
        for extra in (1, 2):
            cases.append({'f': name, 'a': "(X('%s', '%s', %r), (%s))" % (dt, lay0, shape, '0, ' * (d.nd + extra)),
                          't': 'obj/%s/toomany-int' % name, 'cat': 'toomany'})
            cases.append({'f': name, 'a': "(X('%s', '%s', %r), (%s))" % (dt, lay0, shape, 'slice(None), ' * (d.nd + extra)),
                          't': 'obj/%s/toomany-slice' % name, 'cat': 'toomany'})
        cases.append({'f': name, 'a': "(X('%s', '%s', %r), (Ellipsis, %s))" % (dt, lay0, shape, '0, ' * (d.nd + 1)),
                      't': 'obj/%s/toomany-ellipsis' % name, 'cat': 'toomany'})
        for big in ('2**70', '-2**70'):
            cases.append({'f': name, 'a': "(X('%s', '%s', %r), %s)" % (dt, lay0, shape, big), 't': 'obj/%s/bigint' % name,
                          'cat': 'bigint-index'})
            cases.append({'f': name, 'a': "(X('%s', '%s', %r), slice(%s, None, None))" % (dt, lay0, shape, big),
                          't': 'obj/%s/bigslice' % name, 'cat': 'bigint-slice'})
            cases.append({'f': name, 'a': "(X('%s', '%s', %r), slice(None, %s, -1))" % (dt, lay0, shape, big),
                          't': 'obj/%s/bigslice' % name, 'cat': 'bigint-slice'})
        # object-level sweep: every 1-D slice of one dimension, other dimensions full
        for rep in range(ck.pick(1, 3)):
            shape = rng.choice(shapes)
            lays = d.layouts(shape) if not generic else Decl('i', d.nd, 's', True).layouts(shape)
            if not lays:
                continue
            lay = rng.choice(lays)
            dim = rng.randrange(d.nd)
            n = shape[dim]
            cnt = 0
            for idx in c16ref.OSW(d.nd, dim, n):
                e = idx[dim]
                hist.add_group(dim, n, e.start, e.stop, e.step)
                cnt += 1
            sweeps.append({'f': 'sw_' + name, 'a': "(X('%s', '%s', %r), OSW(%d, %d, %d))" % (d.dt, lay, shape, d.nd, dim, n),
                           't': 'osweep/%s' % name, 'sw': cnt})
    return cases, sweeps


# --------------------------------------------------------------------------------------------- classification
def classify_case(case, exp, got, tfmap):
    """mechanism key of a discrepancy from structural features of the index, never from concrete values"""
    cat = case.get('cat')
    f = case['f']
    level = 'obj' if f.startswith(('go_', 'gg_', 'sw_')) else 'typed'
    ek = exp[0] + ':' + (exp[1][0] if exp[0] == 'ok' else exp[1])
    gk = got[0] + ':' + (got[1][0] if got[0] == 'ok' else got[1])
    if cat == 'toomany':
        return 'obj:too-many-indices:%s' % ('generic' if 'gg_' in f else 'typed-slice-object')
    if cat in ('bigint-index', 'bigint-slice'):
        return 'obj:%s:%s->%s' % (cat, ek, gk)
    return '%s:%s->%s' % (level, ek, gk)


def sim_slice(a, b, c, n, fix_clamp, fix_len):
    """The per-dimension algorithm of __pyx_memoryview_slice_memviewslice as found in the tree, with its two
    deviations from CPython individually switchable: returns (length, first index or None)."""
    neg = c is not None and c < 0
    step = 1 if c is None else c
    if a is not None:
        start = a
        if start < 0:
            start += n
            if start < 0:
                start = -1 if (neg and fix_clamp) else 0
        elif start >= n:
            start = n - 1 if neg else n
    else:
        start = n - 1 if neg else 0
    if b is not None:
        stop = b
        if stop < 0:
            stop += n
            if stop < 0:
                stop = -1 if (neg and fix_clamp) else 0
        elif stop > n:
            stop = n
    else:
        stop = -1 if neg else n
    if fix_len:
        length = len(range(start, stop, step))
    else:
        diff_ = stop - start
        q = abs(diff_) // abs(step) * (1 if diff_ * step >= 0 else -1)      # C division truncates
        if diff_ - step * q:
            q += 1
        length = max(q, 0)
    return (length, start if length else None)


def cpython_slice(a, b, c, n):
    r = range(*slice(a, b, c).indices(n))
    return (len(r), r[0] if len(r) else None)


def group_mechanisms(groups):
    """groups: [(start, stop, step, dim length)] of the slices in a mismatching index -> set of the known
    deviations ('clamp', 'length') whose model differs from CPython for at least one group"""
    feats = set()
    for a, b, c, n in groups:
        if c == 0:
            continue
        want = cpython_slice(a, b, c, n)
        if sim_slice(a, b, c, n, False, False) == want:
            continue        # the algorithm as found gives the CPython result for this group
        f = set()
        if sim_slice(a, b, c, n, False, True) != want:
            f.add('clamp')
        if sim_slice(a, b, c, n, True, False) != want:
            f.add('length')
        feats |= f or {'clamp', 'length'}       # only the two deviations together change this group
    return feats


def typed_groups(tf_params, shape, vals):
    by = {}
    for (nm, kind, dim), v in zip(tf_params, vals):
        by.setdefault(nm[1:], {})[kind] = (v, shape[dim])
    out = []
    for k, g in by.items():
        if 'i' in g:
            continue
        n = list(g.values())[0][1]
        out.append((g.get('a', (None,))[0], g.get('b', (None,))[0], g.get('c', (None,))[0], n))
    return out


def model_shape(toks, groups, shape):
    """result shape predicted by the slicing algorithm as found in the tree (both deviations present);
    toks: 'I' / 'N' / 'E' / 'S'; groups: (start, stop, step) per 'S' token in order"""
    nd = len(shape)
    dims = src_dims(['S111' if t == 'S' else t for t in toks], nd)
    cons = sum(1 for t in toks if t in 'IS')
    out = []
    gi = 0
    used = 0
    for t, d in zip(toks, dims):
        if t == 'I':
            used += 1
        elif t == 'N':
            out.append(1)
        elif t == 'E':
            free = nd - cons
            out.extend(shape[used:used + free])
            used += free
        else:
            a, b, c = groups[gi]
            gi += 1
            if c == 0:
                return None
            out.append(sim_slice(a, b, c, shape[d], False, False)[0])
            used += 1
    out.extend(shape[used:])
    return tuple(out)


def shape_from_sig(sg):
    try:
        return tuple(int(x[1]) for x in sg[1][0][1])
    except Exception:
        return None


KEY_CLAMP = 'slice:negative-step:bound-below-minus-len'
KEY_LEN = 'slice:length-rounding:start-stop-against-step-direction'
KEY_BOTH = 'slice:negative-step-clamp+length-rounding'


def key_for_slice_mismatch(feats):
    if feats == {'clamp'}:
        return KEY_CLAMP
    if feats == {'length'}:
        return KEY_LEN
    if feats == {'clamp', 'length'}:
        return KEY_BOTH
    return None


def self_test_models():
    """both deviations switched off must give CPython's slice semantics on the whole domain (guards the classifier)"""
    for n in range(0, 7):
        for a in [None] + list(range(-2 * n - 2, 2 * n + 3)):
            for b in [None] + list(range(-2 * n - 2, 2 * n + 3)):
                for c in (None, -3, -2, -1, 1, 2, 3):
                    if sim_slice(a, b, c, n, True, True) != cpython_slice(a, b, c, n):
                        return (a, b, c, n)
    return None


def parse_case_args(case):
    """(dt, layout, shape, rest) of a generated case argument text (generated by this module only)"""
    m = re.match(r"\(X\('(\w)', '(\w+)', (\([\d, ]*\))\),(.*)\)$", case['a'], re.S)
    if not m:
        return None
    shape = eval(m.group(3), {'__builtins__': {}})
    return m.group(1), m.group(2), shape, m.group(4).strip()


def attribute(toks, groups, shape, got_sig):
    """Key of a known slicing deviation iff the index holds a slice for which the algorithm as found deviates from
    CPython *and* the observed result shape is the one that algorithm predicts; else None (-> unknown mechanism)."""
    dims = src_dims(['S111' if t == 'S' else t for t in toks], len(shape))
    g4 = []
    gi = 0
    for t, d in zip(toks, dims):
        if t == 'S':
            g4.append(groups[gi] + (shape[d],))
            gi += 1
    feats = group_mechanisms(g4)
    if not feats:
        return None
    ms = model_shape(toks, groups, shape)
    if ms is None or shape_from_sig(got_sig) != ms:
        return None
    return key_for_slice_mismatch(feats)


def typed_attr(tf, shape, vals, got_sig):
    if len(vals) != len(tf.params):
        return None
    by = {p[0]: v for p, v in zip(tf.params, vals)}
    toks, groups = [], []
    for k, t in enumerate(tf.toks):
        if t[0] == 'S':
            toks.append('S')
            groups.append((by.get('a%d' % k), by.get('b%d' % k), by.get('c%d' % k)))
        else:
            toks.append(t)
    return attribute(toks, groups, shape, got_sig)


def obj_attr(rest, shape, got_sig):
    """same for an object-level index expression text"""
    try:
        idx = eval(rest.rstrip(', '), {'__builtins__': {}, 'slice': slice, 'Ellipsis': Ellipsis, 'None': None,
                                       'Idx': int, 'np': type('np', (), {'int64': int})})
    except Exception:
        return None
    if not isinstance(idx, tuple):
        idx = (idx,)
    toks = ['E' if e is Ellipsis else 'N' if e is None else 'S' if isinstance(e, slice) else 'I' for e in idx]
    if toks.count('E') > 1 or sum(1 for t in toks if t in 'IS') > len(shape):
        return None
    groups = [(e.start, e.stop, e.step) for e in idx if isinstance(e, slice)]
    return attribute(toks, groups, shape, got_sig)


# --------------------------------------------------------------------------------------------- main
def build_modules(ck, rng):
    tfs = []
    n = 0
    for d in decls(ck):
        for toks, nobc, cres, sw in gen_shapes(ck, d, rng):
            tfs.append(TF(n, d, toks, nobc, cres, sw))
            n += 1
    nmod = ck.pick(4, 12)
    mods = {}
    refs = {}
    tfmap = {}
    groups = [tfs[i::nmod] for i in range(nmod)]
    for gi, g in enumerate(groups):
        name = 'c16m%d' % gi
        dkeys = {(t.decl.dt, t.decl.const) for t in g}
        mods[name] = PRE_PYX + desc_helpers(dkeys) + '\n' + '\n'.join(t.pyx(name) for t in g)
        refs[name] = PRE_REF + '\n'.join(t.ref() for t in g)
        for t in g:
            tfmap[t.name] = (name, t)
            tfmap[t.sweep] = (name, t)
    op, orf = obj_module()
    mods['c16obj'] = op
    refs['c16obj'] = orf
    return tfs, tfmap, mods, refs


def minimal_module(tf):
    dkeys = {(tf.decl.dt, tf.decl.const)}
    return PRE_PYX + desc_helpers(dkeys) + '\n' + tf.pyx('replaymod'), PRE_REF + tf.ref()


def main(ck):
    import time
    bad_model = self_test_models()
    if bad_model is not None:
        raise RuntimeError('classifier model disagrees with CPython slice semantics at %r' % (bad_model,))
    tree = cy.Tree('C16')
    rng = ck.rng('gen')
    tfs, tfmap, mods, refs = build_modules(ck, rng)
    t0 = time.time()
    d, info = tree.build_sources(mods, subdir='b', ext='.pyx')
    ck.cov['build_wall_s'] = round(time.time() - t0, 1)
    refpaths = {}
    for name, text in refs.items():
        p = os.path.join(d, name + '_ref.py')
        with open(p, 'w') as f:
            f.write(text)
        refpaths[name] = p
    skipped = 0
    hist = Hist()
    anchors = {'__pyx_memoryview_slice_memviewslice': 0, '__pyx_memview_slice': 0, '__pyx_memoryview_fromslice': 0}
    nontrivial_fn = set()
    for name, inf in info.items():
        if not inf['ok']:
            skipped += 1
            ck.note('build failure %s at %s: %s' % (name, inf['stage'], inf['errors'][-600:]))
            continue
        ctext = open(inf['c'], encoding='utf-8', errors='replace').read()
        if name == 'c16obj':
            for a in ('__pyx_memview_slice', '__pyx_memoryview_fromslice'):
                anchors[a] += len(re.findall(r'\b%s\(' % a, ctext))
            continue
        names = [t.name for t in tfs if tfmap[t.name][0] == name]
        bodies = creach.bodies_by_token(ctext, names)
        for fn in names:
            b = bodies.get(fn, '')
            if '__pyx_memoryview_slice_memviewslice(' in b:
                anchors['__pyx_memoryview_slice_memviewslice'] += 1
                nontrivial_fn.add(fn)
            elif '__pyx_tmp_idx' in b or '__Pyx_RaiseBufferIndexError' in b or 'shape[' in b:
                nontrivial_fn.add(fn)
    # ----- cases
    case_by_mod = {n: [] for n in mods}
    sweep_total = 0
    per_fn = ck.pick(12, 40)
    budget = ck.pick(6000, 30000)
    shape_cache = {}
    for t in tfs:
        mod = tfmap[t.name][0]
        shp = shape_cache.setdefault(t.decl.nd, array_shapes(ck, t.decl.nd, ck.rng('shapes%d' % t.decl.nd)))
        case_by_mod[mod] += gen_cases(ck, t, shp, rng, hist, per_fn)
        sc, n = gen_sweeps(ck, t, shp, rng, hist, budget)
        case_by_mod[mod] += sc
        sweep_total += n
    oc, osw = obj_cases(ck, rng, hist)
    case_by_mod['c16obj'] += oc + osw
    sweep_total += sum(c['sw'] for c in osw)
    # ----- run
    t0 = time.time()
    total_n = total_distinct = 0
    samples = []
    cells = {}
    outcomes = {}
    ambiguous = 0
    none_typeerror = none_newaxis = 0
    sweep_evals = 0
    from concurrent.futures import ThreadPoolExecutor
    runnable = [(name, cases) for name, cases in case_by_mod.items() if info[name]['ok'] and cases]

    def run_one(item):
        name, cases = item
        return diff.run_cases(tree, d, name, cases, ref=refpaths[name], setup=SETUP, compare={'exc_args': False, 'log': False},
                              tagdir='run_' + name, timeout=ck.pick(900, 2400), spec_extra={'nsample': 2},
                              nproc=max(1, core.NCPU // 3),
                              extra_env={'OPENBLAS_NUM_THREADS': '1', 'OMP_NUM_THREADS': '1'})

    with ThreadPoolExecutor(4) as ex:
        results = list(ex.map(run_one, runnable))
    for (name, cases), res in zip(runnable, results):
        total_n += res.n
        total_distinct += res.distinct
        samples.extend(res.samples[:1])
        for k, v in res.hist.items():
            tag, cls = k.split('|', 1)
            cell = tag.split('/')[0] + '/' + tag.split('/')[1] if tag.count('/') else tag
            cells[cell] = cells.get(cell, 0) + v
            outcomes[cls] = outcomes.get(cls, 0) + v
            if tag.endswith('/none'):
                none_newaxis += v
        sweep_evals += sum(c['sw'] for c in cases if 'sw' in c)
        for m in res.mismatches:
            case, exp, got = m['case'], m['exp'], m['got']
            if case.get('me') and exp[0] == 'exc' and got[0] == 'exc' and {exp[1], got[1]} <= {'IndexError', 'ValueError'}:
                ambiguous += 1
                continue
            if case.get('hn') and got[0] == 'exc' and got[1] == 'TypeError':
                none_typeerror += 1
                none_newaxis -= 1
                continue
            handle_mismatch(ck, case, exp, got, tfmap, mods, refs)
        for c in res.crashes:
            case = c['case']
            if c['kind'] == 'HANG':      # watchdog under machine load is not evidence of a defect
                ck.inconclusive_if(True, 'watchdog fired in %s on %s' % (name, case['f']))
                continue
            key = 'crash:' + classify_case(case, ['exc', '?'], ['exc', 'CRASH'], tfmap) if case.get('cat') else \
                'crash:%s' % ('obj' if case['f'].startswith(('go_', 'gg_', 'sw_')) else 'typed')
            if case.get('cat') == 'toomany':
                key = classify_case(case, None, None, tfmap) if False else 'obj:too-many-indices:%s' % (
                    'generic' if 'gg_' in case['f'] else 'typed-slice-object')
            ck.discrepancy(key, 'crash/hang (%s) on %s%s' % (c['kind'], case['f'], case['a'][:200]),
                           witness_for(case, None, None, tfmap, mods, refs, stderr=c['stderr']))
        for ft in res.fatal:
            ck.inconclusive_if(True, 'driver failed for %s: %s' % (name, str(ft)[-400:]))
    ck.cov['run_wall_s'] = round(time.time() - t0, 1)
    # ----- reach
    ck.inconclusive_if(skipped > 0, '%d module build(s) failed' % skipped)
    ck.inconclusive_if(anchors['__pyx_memoryview_slice_memviewslice'] < 20,
                       'static slicing helper reached by fewer than 20 typed functions')
    ck.inconclusive_if(anchors['__pyx_memview_slice'] < 1, 'object-level memview_slice not present in generated C')
    dims_needed = [0, 1] if ck.quick else [0, 1, 2]
    miss = hist.missing(dims_needed)
    ck.inconclusive_if(bool(miss), 'step-sign x clamp-class cells never generated: %s' % miss[:6])
    evaluations = total_n + sweep_evals
    return ck.finish(
        evaluations, total_distinct,
        'evaluations = individually compared calls + index combinations judged inside compiled sweep loops (each sweep call '
        'counts its combinations once); distinct_nontrivial = distinct (function, reference outcome) pairs over individual and '
        'sweep calls; a typed function is non-trivial when its generated C contains the slicing helper call or inline index '
        'bounds code; the object-level module must contain __pyx_memview_slice',
        samples,
        extra={'typed_functions': len(tfs), 'typed_functions_nontrivial': len(nontrivial_fn), 'modules': len(mods),
               'anchors_static': anchors, 'individual_cases': total_n, 'sweep_index_combinations': sweep_evals,
               'cells': dict(sorted(cells.items())), 'outcome_classes': outcomes,
               'step_sign_x_clamp_hist': dict(sorted(hist.h.items())),
               'two_errors_in_one_index_either_accepted': ambiguous,
               'object_level_None': {'TypeError_like_python_memoryview': none_typeerror, 'newaxis_like_numpy': none_newaxis}},
        assumptions=['NumPy %s applied to a view of the same exporter is the reference for elements, shape and strides' % '2.x',
                     'strides of result dimensions of length <= 1 are not compared (buffer protocol leaves them unspecified)',
                     'an index holding two independent errors (zero step and out-of-range integer) may report either',
                     'None inside an index applied to a cython.view.memoryview *object* may either add an axis (NumPy) or raise '
                     'TypeError (Python memoryview); typed slices must add the axis',
                     'exception messages are not compared'])


def witness_for(case, exp, got, tfmap, mods, refs, stderr=None):
    f = case['f']
    w = {'case': dict(case), 'ext': '.pyx', 'expected': exp, 'observed': got, 'setup': SETUP, 'cflags': [], 'directives': {}}
    if f in tfmap:
        tf = tfmap[f][1]
        w['module_source'], w['ref_source'] = minimal_module(tf)
        w['module_name'] = 'replaymod'
        w['function'] = tf.name
        w['index'] = 'm[%s] on %s' % (tf.index, tf.decl.ctype())
    else:
        w['module_source'], w['ref_source'] = mods['c16obj'], refs['c16obj']
        w['module_name'] = 'c16obj'
    if stderr:
        w['stderr'] = stderr[-1500:]
    return w


def handle_mismatch(ck, case, exp, got, tfmap, mods, refs):
    f = case['f']
    is_sweep = 'sw' in case
    parsed = parse_case_args(case)
    key = None
    what = None
    if is_sweep and exp[0] == 'ok' and got[0] == 'ok':
        # got = ['tuple', [count, ['list', [bad...]]]] as signature; decode the first bad record
        try:
            bad = got[1][1][1][1]
        except Exception:
            bad = []
        for rec in bad[:6]:
            try:
                items = rec[1]
                if len(items) < 3:
                    continue
                if f in tfmap:
                    tf = tfmap[f][1]
                    vals = [int(x[1]) for x in items[0][1]]
                    k = typed_attr(tf, parsed[2], vals, items[2])
                    case1 = {'f': tf.name, 'a': "(X('%s', '%s', %r),%s)" % (parsed[0], parsed[1], parsed[2],
                                                                           ''.join(' %d,' % v for v in vals)), 't': case['t']}
                else:
                    idxtext = eval(items[0][1])
                    k = obj_attr(idxtext, parsed[2], items[2])
                    case1 = {'f': f[3:], 'a': "(X('%s', '%s', %r), %s)" % (parsed[0], parsed[1], parsed[2], idxtext), 't': case['t']}
                k = k or '%s:sweep-mismatch' % ('typed' if f in tfmap else 'obj')
                ck.discrepancy(k, 'index %s: reference %s, observed %s' % (case1['a'][:160], str(items[1])[:200], str(items[2])[:200]),
                               witness_for(case1, items[1], items[2], tfmap, mods, refs))
                key = k
            except Exception as e:      # undecodable record: still a discrepancy
                ck.discrepancy('sweep:undecoded', 'sweep mismatch in %s: %s' % (f, str(got)[:300]),
                               witness_for(case, exp, got, tfmap, mods, refs))
                key = 'x'
        if key is None:
            ck.discrepancy('sweep:count-or-shape', 'sweep result differs in %s: %s vs %s' % (f, str(exp)[:200], str(got)[:200]),
                           witness_for(case, exp, got, tfmap, mods, refs))
        return
    if case.get('cat'):
        key = classify_case(case, exp, got, tfmap)
    elif parsed:
        if f in tfmap:
            tf = tfmap[f][1]
            try:
                vals = [int(x) for x in parsed[3].rstrip(',').split(',') if x.strip()]
            except ValueError:
                vals = []
            key = typed_attr(tf, parsed[2], vals, got[1] if got[0] == 'ok' else None)
        else:
            key = obj_attr(parsed[3], parsed[2], got[1] if got[0] == 'ok' else None)
    if key is None:
        key = classify_case(case, exp, got, tfmap)
    ck.discrepancy(key, '%s%s: reference %s, observed %s' % (f, case['a'][:200], str(exp)[:200], str(got)[:200]),
                   witness_for(case, exp, got, tfmap, mods, refs))


def replay(ck, data):
    w = data.get('witness', data)
    tree = cy.Tree('C16r')
    name = w.get('module_name', 'replaymod')
    d, info = tree.build_sources({name: w['module_source']}, subdir='r', ext='.pyx')
    if not info[name]['ok']:
        print('build failed', info[name]['errors'][-1500:])
        return 2
    rp = os.path.join(d, name + '_ref.py')
    open(rp, 'w').write(w['ref_source'])
    case = {k: v for k, v in w['case'].items() if k in ('f', 'a', 'k', 'x', 't')}
    res = diff.run_cases(tree, d, name, [case], ref=rp, setup=w.get('setup', SETUP), compare={'exc_args': False, 'log': False}, nproc=1)
    for m in res.mismatches:
        print('case    ', case)
        print('expected', m['exp'])
        print('observed', m['got'])
    for c in res.crashes:
        print('crash', c['kind'], c['stderr'][-1200:])
    for ft in res.fatal:
        print('driver failure', ft)
    if res.mismatches or res.crashes:
        print('VIOLATION property=%s replay=<replayed>' % ck.pid)
        return 1
    print('replay: case agrees with the reference now (%d evaluated)' % res.n)
    return 0 if res.n else 2
