"""C43 The compiler never crashes and accepts all valid Python (DESIGN.md section 5, C43).

Every input text is compiled by the interpreted working-tree compiler in isolated workers under the pipeline outcome
monitor (vlib/mon/c43mon.py: structured record of every reported error, CPU-time watchdog); CPython's compile() in a
separate process says whether the text is valid Python.  Violations: Python traceback out of the compiler, "Compiler
crash", InternalError/AssertionError, hang, an error without a position inside the input, emitted C rejected by
gcc -fsyntax-only, and - for texts CPython compiles - any error not on the deliberate-reject list
(/verif/deliberate_rejects.json, each entry with provenance).
"""
import json
import os
import re

from vlib import core, cy
from vlib.gen import pysyntax
from props import C43_inputs as I

MON = 'vlib.mon.c43mon'


def norm_msg(msg):
    """error message -> mechanism text: quoted names, numbers and type spellings removed"""
    m = re.sub(r"'[^']*'", "'X'", msg.strip().splitlines()[0] if msg.strip() else msg)
    m = re.sub(r'"[^"]*"', '"X"', m)
    m = re.sub(r'\d+', 'N', m)
    m = re.sub(r'\([^()]*\)', '(..)', m)
    return m[:110]


def norm_c_msg(msg):
    """gcc diagnostic -> mechanism text: module-specific mangled names reduced to their kind, fixed helper names kept"""
    m = re.sub(r'; did you mean .*$', '', msg.strip())
    m = re.sub(r'__pyx_(mdef|pw|pf|pyx|n_s|n_u|n_b|kp_s|kp_u|kp_b|k|v|t|r|L\d+|int|float|tuple|codeobj|gb|f|vtab\w*|obj|type|ptype|scope\w*)_\w+',
               r'__pyx_\1_*', m)
    m = re.sub(r'\d+', 'N', m)
    return m[:120]


def crash_key(kind, exc, where, msg, phase):
    """mechanism key of an internal failure: exception type + innermost compiler function, except where the
    innermost frame is incidental: recursion depth (keyed by pipeline phase) and the two propagation families
    'an expression whose analysis failed (error_type / None type) is processed further'"""
    if exc == 'RecursionError':
        ph = 'Parsing' if (where or '').startswith(('Parsing.', 'Scanning.', 'Scanners.')) else (phase or 'compile')
        return 'crash:%s:RecursionError:phase=%s' % (kind, re.sub(r'\W.*', '', str(ph)))
    if exc == 'AttributeError' and "'ErrorType' object has no attribute" in msg:
        return 'crash:%s:error_type-propagated:AttributeError' % kind
    if exc == 'AttributeError' and re.search(r"'NoneType' object has no attribute '(is_\w+|rank|base_type|declaration_code)'", msg):
        return 'crash:%s:none-type-propagated:AttributeError' % kind
    return 'crash:%s:%s@%s' % (kind, exc, where)


def load_deliberate():
    data = core.read_json(os.path.join(core.VERIF, 'deliberate_rejects.json'))
    return [(e['id'], re.compile(e['pattern']), e) for e in data['entries']]


class Inputs:
    def __init__(self, root):
        self.root = root
        self.items = []       # dict(path, family, cat, data(bytes), valid)

    def add(self, family, cat, data, ext='.py', **kw):
        if isinstance(data, str):
            data = data.encode('utf-8', 'replace')
        d = os.path.join(self.root, family)
        os.makedirs(d, exist_ok=True)
        p = os.path.join(d, 'i%06d%s' % (len(self.items), ext))
        with open(p, 'wb') as f:
            f.write(data)
        it = dict(path=p, family=family, cat=cat, size=len(data), valid=None, **kw)
        self.items.append(it)
        return it


def cpython_validity(tree, items):
    """fills it['valid'] = True/False/None(crash) using props.C43_valid in subprocesses"""
    paths = [it['path'] for it in items]
    lst = os.path.join(tree.work, 'valid_list.json')
    out = os.path.join(tree.work, 'valid_out.jsonl')
    with open(lst, 'w') as f:
        json.dump(paths, f)
    open(out, 'w').close()
    start = 0
    crashes = 0
    while start < len(paths):
        r = core.run([core.PY, '-m', 'props.C43_valid', lst, out, str(start)], env=core.child_env([core.VERIF]),
                     timeout=3600, as_gb=8)
        done = {}
        begun = -1
        for line in open(out):
            try:
                d = json.loads(line)
            except ValueError:
                continue
            if 'r' in d:
                done[d['i']] = d['r']
            else:
                begun = max(begun, d['i'])
        for i, res in done.items():
            items[i]['valid'] = res == 'valid'
            items[i]['cpython'] = res
        if len(done) >= len(paths) or (r.rc == 0 and not r.timed_out):
            break
        # the subprocess died while compiling input `begun`: CPython itself cannot handle it
        crashes += 1
        items[begun]['valid'] = None
        items[begun]['cpython'] = 'cpython-crashed rc=%s' % r.rc
        start = begun + 1
    return crashes


def run_compiler(tree, items, budget_s):
    """translate every item with the monitor plugin; a worker that dies (hard crash, wall-clock watchdog) loses the
    rest of its chunk: those inputs are run again (re-chunked), finally one process per input, so that a death is
    attributed to exactly one input"""
    jobs = [{'src': it['path'], 'language_level': 3} for it in items]
    pa = {MON: {'cpu_budget_s': budget_s}}
    res, plug = tree.translate(jobs, plugins=[MON], plugin_args=pa, timeout=10800)
    evals = sum(p.get(MON, {}).get('evaluations', 0) for p in plug)
    pending = [i for i, r in enumerate(res) if r.get('worker_died')]
    for rnd in range(6):
        if not pending or len(pending) <= core.NCPU:
            break
        r2, p2 = tree.translate([jobs[i] for i in pending], plugins=[MON], plugin_args=pa, timeout=10800)
        evals += sum(p.get(MON, {}).get('evaluations', 0) for p in p2)
        nxt = []
        for i, r in zip(pending, r2):
            if r.get('worker_died'):
                nxt.append(i)
            else:
                res[i] = r
        pending = nxt
    for k in range(0, len(pending), core.NCPU):
        part = pending[k:k + core.NCPU]
        r2, p2 = tree.translate([jobs[i] for i in part], plugins=[MON], plugin_args=pa, timeout=3600, nworkers=len(part))
        evals += sum(p.get(MON, {}).get('evaluations', 0) for p in p2)
        for i, r in zip(part, r2):
            res[i] = r
    return res, evals


def classify(it, r, deliberate):
    """-> (outcome class, [(key, what)] discrepancies)"""
    mon = (r.get('plugin') or {}).get(MON) or {}
    errs = mon.get('errors') or []
    if len(errs) > 1:
        # a bare CompileError() raised after the real, positioned message was reported is only an abort marker
        errs = [e for e in errs if e.get('msg') or e.get('pos') or e.get('crash')] or errs
    out = []
    valid = it['valid']
    if r.get('worker_died'):
        txt = (r.get('exc') or '') + (r.get('errors') or '')
        if 'timed_out=True' in txt:
            return 'watchdog', [('hang:wall-clock-watchdog', 'worker exceeded its wall-clock limit while compiling this input alone')]
        return 'worker-died', [('crash:process-died', 'the compiler process died: %s' % txt[-300:])]
    cpy = str(it.get('cpython') or '')
    cpython_resource = cpy.startswith(('invalid:RecursionError', 'invalid:MemoryError', 'cpython-crashed'))
    if mon.get('cpu_timeout') and cpython_resource:
        return 'resource-limit-like-cpython', []
    if mon.get('cpu_timeout'):
        return 'hang', [('hang:cpu-budget', 'compilation used more than the CPU budget (%s s process CPU time)' % mon.get('cpu_s'))]
    esc = mon.get('escaped')
    if esc:
        typ = esc['type'].split('.')[-1]
        if typ in ('CompileError', 'PyrexError'):
            pass
        elif typ in ('RecursionError', 'MemoryError') and cpython_resource:
            return 'resource-limit-like-cpython', []
        else:
            return 'python-traceback', [(crash_key('traceback', typ, esc.get('where'), esc.get('last_line') or '', 'compile'),
                                         'exception escaped Cython.Compiler.Main.compile: %s' % esc.get('last_line'))]
    crashes = [e for e in errs if e.get('crash')]
    if crashes:
        c = crashes[0]['crash']
        if c.get('cause') in ('RecursionError', 'MemoryError') and cpython_resource:
            return 'resource-limit-like-cpython', []
        return 'compiler-crash', [(crash_key('compiler-crash', c.get('cause'), c.get('where'), c.get('cause_msg') or '', c.get('context')),
                                   'Compiler crash in %s: %s: %s' % (c.get('context'), c.get('cause'), c.get('cause_msg')))]
    for e in errs:
        if e['cls'] in ('InternalError', 'AssertionError', 'MONITOR-ERROR') or 'Internal compiler error' in e['msg']:
            return 'internal-error', [('crash:internal-error:%s' % norm_msg(e['msg']), e['msg'][:300])]
    if not errs and not r['ok']:
        txt = (r.get('errors') or '')
        if 'Internal compiler error' in txt or 'Traceback (most recent call last)' in txt:
            return 'internal-error', [('crash:internal-error:%s' % norm_msg(txt.strip().splitlines()[-1] if txt.strip() else '?'), txt[-400:])]
        if r.get('num_errors'):
            return 'errors-unrecorded', [('unpositioned-error:unrecorded', 'compilation failed with %s error(s) but none was reported: %s'
                                          % (r.get('num_errors'), txt[-300:]))]
    if r['ok']:
        return 'ok', []
    # positioned errors?
    for e in errs:
        pos = e.get('pos')
        if not pos:
            out.append(('unpositioned-error:%s' % norm_msg(e['msg']), 'error without position: %s' % e['msg'][:200]))
        else:
            nlines = pos[3]
            if pos[1] is None or pos[1] < 0 or pos[2] is None or pos[2] < 0 or (nlines is not None and pos[1] > nlines + 1):
                out.append(('error-position-outside-input:%s' % norm_msg(e['msg']),
                            'error at %s:%s:%s but the input has %s lines: %s' % (pos[0], pos[1], pos[2], nlines, e['msg'][:150])))
    if valid:
        # CPython compiles this text: every error must be a deliberate reject
        undelib = []
        for e in errs:
            if not any(rx.search(e['msg']) for _, rx, _ in deliberate):
                undelib.append(e)
        if undelib:
            e = undelib[0]
            phase = e.get('phase') or 'unknown-phase'
            if it.get('family') == 'valid-hostile' and phase.startswith('Analyse'):
                # programs of the 'hostile' profile apply operators, calls, subscripts and unpacking to literals of
                # the wrong type: the analysis phases report at compile time what CPython raises at run time
                phase += ':hostile-literal-operands'
            out.append(('reject-valid:%s:%s' % (phase, norm_msg(e['msg'])),
                        'CPython compiles the input, Cython rejects it: %s:%s: %s' % ((e.get('pos') or [0, '?', '?'])[1],
                                                                                       (e.get('pos') or [0, '?', '?'])[2], e['msg'][:200])))
            return 'rejected-valid', out
        return 'deliberate-reject', out
    return 'positioned-errors', out


def main(ck):
    tree = cy.Tree('C43')
    inputs = Inputs(tree.subdir('in'))
    deliberate = load_deliberate()
    rng = ck.rng('inputs')
    # ------------------------------------------------------------------ (a) generator of valid programs
    scale = float(os.environ.get('VERIF_C43_SCALE', '1'))     # development aid
    n_valid = int(ck.pick(160, 1200) * scale)
    gen_rejected = 0
    kinds = {}
    small = []
    for i in range(n_valid):
        prof = 'mixed' if i % 10 < 7 else ('names' if i % 10 == 7 else 'hostile')
        text, info = pysyntax.generate(ck.rng('valid%d' % i), profile=prof, size=0.5 if i % 3 == 0 else 1.0)
        gen_rejected += info['rejected']
        for k, v in info['kinds'].items():
            kinds[k] = kinds.get(k, 0) + v
        inputs.add('valid-' + prof, 'pysyntax', text)
        if len(text) < 2500 and len(small) < 80:
            small.append(text)
    # ------------------------------------------------------------------ (b) literal and structure stress
    for cat, t in I.literal_programs(ck.rng('lit'), 10 ** 6):
        if ck.quick and (len(t) > 120000 or re.search(r'-(20000|10000|5000)$', cat)):
            continue        # the largest stress programs only in the thorough tier
        inputs.add('literal', cat, t)
    for cat, t in I.DIRECTED:
        inputs.add('directed', cat, t)
    # ------------------------------------------------------------------ (c) mutated and truncated texts
    n_mut = int(ck.pick(300, 3000) * scale)
    seeds = small + [t for c, t in I.DIRECTED]
    for i in range(n_mut):
        base = seeds[i % len(seeds)]
        op, data = I.mutate(rng, base)
        inputs.add('mutated', op, data)
    ntr = 0
    for t in small[:ck.pick(3, 12)]:
        cuts = I.truncations(t, every=1)
        rng.shuffle(cuts)
        for cut in cuts[:ck.pick(25, 50)]:
            inputs.add('truncated', 'token-boundary', cut)
            ntr += 1
    # ------------------------------------------------------------------ (d) corpus (thorough)
    if not ck.quick:
        std = I.stdlib_files()
        ck.rng('stdlib').shuffle(std)
        for p in std[:250]:
            try:
                inputs.add('stdlib', os.path.basename(p), open(p, 'rb').read(), origin=p)
            except OSError:
                pass
        trp = I.tests_run_py()
        ck.rng('trp').shuffle(trp)
        for p in trp[:150]:
            inputs.add('tests-run-py', os.path.basename(p), open(p, 'rb').read(), origin=p)
    items = inputs.items
    cpy_crashes = cpython_validity(tree, items)
    res, evals = run_compiler(tree, items, budget_s=ck.pick(600, 900))

    # ------------------------------------------------------------------ classify
    hist = {}
    fam_hist = {}
    samples = []
    ok_items = []
    delib_hits = {}
    n_valid_inputs = sum(1 for it in items if it['valid'])
    generator_scope_rejects = 0
    for it, r in zip(items, res):
        cls, disc = classify(it, r, deliberate)
        it['cls'] = cls
        hist[cls] = hist.get(cls, 0) + 1
        fk = '%s|%s|%s' % (it['family'], 'valid' if it['valid'] else ('invalid' if it['valid'] is False else 'cpython-crash'), cls)
        fam_hist[fk] = fam_hist.get(fk, 0) + 1
        if cls == 'ok':
            ok_items.append((it, r))
        if cls == 'deliberate-reject':
            mon = (r.get('plugin') or {}).get(MON) or {}
            for e in mon.get('errors') or []:
                for did, rx, _ in deliberate:
                    if rx.search(e['msg']):
                        delib_hits[did] = delib_hits.get(did, 0) + 1
                        break
            if it['family'].startswith('valid-') and it['family'] != 'valid-hostile':
                generator_scope_rejects += 1
        for key, what in disc:
            try:
                text = open(it['path'], 'rb').read()
            except OSError:
                text = b''
            ck.discrepancy(key, '%s [%s/%s, %s]' % (what, it['family'], it['cat'], 'CPython-valid' if it['valid'] else 'not valid Python'),
                           {'family': it['family'], 'category': it['cat'], 'cpython': it.get('cpython'), 'origin': it.get('origin'),
                            'input_text': text[:20000].decode('utf-8', 'replace'), 'input_truncated': len(text) > 20000,
                            'input_hex_if_binary': text[:400].hex() if b'\x00' in text or it['family'] in ('mutated',) else None,
                            'expected': 'positioned errors or C code', 'observed': cls,
                            'compiler_output': ((r.get('exc') or '') + (r.get('errors') or ''))[-2500:]})
        if len(samples) < 8 and (cls != 'ok' or len(samples) < 2) and it['size'] < 1500:
            samples.append({'family': it['family'], 'category': it['cat'], 'valid_python': it['valid'], 'outcome': cls,
                            'text': open(it['path'], 'rb').read()[:600].decode('utf-8', 'replace')})

    # ------------------------------------------------------------------ emitted C must be accepted by the C compiler
    crng = ck.rng('gcc')
    ok_small = [x for x in ok_items if x[1].get('c') and os.path.exists(x[1]['c'])]
    crng.shuffle(ok_small)
    nsyn = ck.pick(36, 600)
    pick = ok_small[:nsyn]
    # always include the stress programs that translated
    pick += [x for x in ok_small[nsyn:] if x[0]['family'] in ('literal', 'directed')][:ck.pick(40, 300)]
    c_checked = c_rejected = 0
    from concurrent.futures import ThreadPoolExecutor

    def syntax_only(x):
        it, r = x
        cmd = ['gcc', '-fsyntax-only', '-w', '-I' + cy.PY_INC, r['c']]
        rr = core.run(cmd, timeout=3600, as_gb=0)
        return it, r, rr
    with ThreadPoolExecutor(max(2, core.NCPU // 2)) as ex:
        for it, r, rr in ex.map(syntax_only, pick):
            if rr.timed_out:
                ck.note('gcc -fsyntax-only watchdog fired on %s (%s)' % (it['cat'], it['family']))
                continue
            c_checked += 1
            if rr.rc != 0:
                c_rejected += 1
                first = [l for l in (rr.err or '').splitlines() if 'error' in l][:1]
                msg = re.sub(r'^[^:]*:\d+:\d+: ', '', first[0]) if first else (rr.err or '')[-200:]
                ck.discrepancy('c-rejected:%s' % norm_c_msg(msg),
                               'gcc -fsyntax-only rejects the C generated for a %s input (%s): %s' % (it['family'], it['cat'], msg[:200]),
                               {'family': it['family'], 'category': it['cat'],
                                'input_text': open(it['path'], 'rb').read()[:20000].decode('utf-8', 'replace'),
                                'expected': 'C accepted by gcc', 'observed': (rr.err or '')[-1500:]})

    # ------------------------------------------------------------------ reach
    import ast

    def subclasses(c):
        out = []
        for x in c.__subclasses__():
            out += [x] + subclasses(x)
        return out
    deprecated = {'Suite', 'AugLoad', 'AugStore', 'Param', 'Index', 'ExtSlice', 'Num', 'Str', 'Bytes', 'NameConstant', 'Ellipsis'}
    concrete = sorted({c.__name__ for base in (ast.stmt, ast.expr, ast.pattern, ast.excepthandler, ast.type_param)
                       for c in subclasses(base)} - deprecated | {'comprehension', 'arguments', 'arg', 'keyword', 'alias',
                                                                   'withitem', 'match_case'})
    uncovered = [c for c in concrete if kinds.get(c, 0) < 10]
    valid_gen = [it for it in items if it['family'].startswith('valid-')]
    gen_ok = sum(1 for it in valid_gen if it['cls'] == 'ok')
    nontrivial = len({(it['family'], it['cat'], it['cls']) for it in items}) + gen_ok
    ck.inconclusive_if(evals < 0.9 * len(items), 'monitor evaluated %d of %d inputs' % (evals, len(items)))
    ck.inconclusive_if(sum(1 for it in valid_gen if it['valid']) < 0.9 * len(valid_gen), 'CPython rejects >10% of generated programs')
    ck.inconclusive_if(generator_scope_rejects > 0.08 * max(1, len(valid_gen)),
                       '%d generated programs hit deliberate rejects (scope model of the generator is off)' % generator_scope_rejects)
    ck.inconclusive_if(c_checked < ck.pick(20, 300), 'only %d generated C files were syntax-checked' % c_checked)
    unreached = [d[0] for d in deliberate if d[0] not in delib_hits]
    ck.cov['deliberate_entries_not_reached'] = unreached
    return ck.finish(
        len(items), nontrivial,
        'inputs: pysyntax-generated valid modules (profiles mixed/names/hostile), literal and structure stress programs, '
        'directed programs, token/byte/line mutations and token-boundary truncations of small valid programs%s; each '
        'compiled under the outcome monitor and labelled valid/invalid by CPython compile() in another process. '
        'distinct = distinct (family, category, outcome class) cells plus generated valid programs that compiled to C'
        % ('' if ck.quick else ', the CPython 3.12 standard library and tests/run/*.py'),
        samples,
        extra={'inputs': len(items), 'cpython_valid_inputs': n_valid_inputs, 'monitor_evaluations': evals,
               'outcome_classes': hist, 'family_validity_outcome': dict(sorted(fam_hist.items())),
               'generated_valid_programs': len(valid_gen), 'generated_compiled_ok': gen_ok,
               'generator_rejected_by_cpython': gen_rejected, 'generator_hits_on_deliberate_rejects': generator_scope_rejects,
               'ast_node_counts': dict(sorted(kinds.items(), key=lambda kv: -kv[1])), 'ast_nodes_below_10': uncovered,
               'deliberate_reject_hits': delib_hits, 'c_files_syntax_checked': c_checked, 'c_files_rejected': c_rejected,
               'cpython_crashes_on_input': cpy_crashes, 'truncations': ntr},
        assumptions=['CPython 3.12 compile() decides what valid Python is',
                     'the deliberate-reject list is matched on the message text of each reported error',
                     'PEP 695 syntax is only exercised by three directed programs (pysyntax does not generate it)',
                     'programs of other checks\' generators are not fed in (no common interface); DESIGN W(e) not done'])


def replay(ck, data):
    w = data.get('witness', data)
    tree = cy.Tree('C43r')
    inputs = Inputs(tree.subdir('in'))
    text = w.get('input_text') or ''
    data_b = bytes.fromhex(w['input_hex_if_binary']) if (w.get('input_hex_if_binary') and len(text) < 400) else text.encode('utf-8')
    it = inputs.add('replay', w.get('category') or '?', data_b)
    cpython_validity(tree, [it])
    res, _ = run_compiler(tree, [it], 900)
    cls, disc = classify(it, res[0], load_deliberate())
    print('valid python:', it['valid'], ' outcome:', cls)
    for k, what in disc:
        print('  ', k, '-', what[:300])
    if cls == 'ok' and str(data.get('key', '')).startswith('c-rejected'):
        rr = core.run(['gcc', '-fsyntax-only', '-w', '-I' + cy.PY_INC, res[0]['c']], timeout=3600, as_gb=0)
        if rr.rc != 0:
            print((rr.err or '')[-800:])
            disc = [('c-rejected', '')]
    if disc:
        print('VIOLATION property=C43 replay=<replayed>')
        return 1
    print('replay: no discrepancy')
    return 0
