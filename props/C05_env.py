"""Extra operand classes for the C05 check, imported into the differential driver's evaluation environment
(run_cases(setup='from props.C05_env import *')) next to vlib.values."""
import decimal
import fractions

__all__ = ['Both', 'IdxSub', 'IntRaises', 'Dec', 'Frac', 'IdxInt', 'SubInt']


class SubInt(int):
    pass


class Both:
    """__index__ and __int__ disagree: the integer value of the object is what operator.index() says"""
    def __init__(self, idx, intv):
        self.idx, self.intv = idx, intv

    def __index__(self):
        return self.idx

    def __int__(self):
        return self.intv

    def __vsig__(self):
        return ('Both', self.idx, self.intv)


class IdxSub:
    """__index__ returns an instance of a strict int subclass (deprecated but accepted by operator.index)"""
    def __init__(self, v):
        self.v = v

    def __index__(self):
        return SubInt(self.v)

    def __vsig__(self):
        return ('IdxSub', self.v)


class IdxInt:
    """__index__ and __int__ agree (the shape of numpy integer scalars)"""
    def __init__(self, v):
        self.v = v

    def __index__(self):
        return self.v

    def __int__(self):
        return self.v

    def __vsig__(self):
        return ('IdxInt', self.v)


class IntRaises:
    """only __int__, which raises: not an integer, so the conversion has no reason to call it"""
    def __int__(self):
        raise KeyError('IntRaises')

    def __vsig__(self):
        return 'IntRaises'


def Dec(s):
    return decimal.Decimal(s)


def Frac(a, b=1):
    return fractions.Fraction(a, b)
