"""C44 part (b) driver (fresh subprocess): for every case, run the entry function of the CPython-executed
reference module and of the compiled module, and record the traceback entries (file, name, line) of the
raised exception and of its __cause__/__context__ chain; then dump the code objects (co_positions,
co_firstlineno, co_filename) of every compiled function next to the reference function's values.

usage: python -m props.C44_driver spec.json
spec = {builddir, out, progress, mods: [{name, src, kind: 'funcs'|'toplevel', cases: [entry...]}], start: [mod_i, case_i]}
Output: JSON lines, flushed per case.
"""
import faulthandler
import importlib
import json
import os
import sys
import types

faulthandler.enable()
HERE = os.path.abspath(__file__)
IMPORTLIB = os.path.dirname(os.path.abspath(importlib.__file__)) + os.sep


def tb_entries(exc):
    out = []
    tb = exc.__traceback__
    while tb is not None:
        co = tb.tb_frame.f_code
        fn = co.co_filename
        if os.path.abspath(fn) != HERE and not fn.startswith('<frozen ') and not fn.startswith(IMPORTLIB):
            out.append([fn, co.co_name, tb.tb_lineno, getattr(co, 'co_qualname', co.co_name)])
        tb = tb.tb_next
    return out


def chain(exc):
    """[[exception type name, entries], ...] along __cause__ / __context__ (max 4)"""
    out = []
    seen = set()
    while exc is not None and id(exc) not in seen and len(out) < 4:
        seen.add(id(exc))
        out.append([type(exc).__name__, tb_entries(exc)])
        nxt = exc.__cause__ if exc.__cause__ is not None else (None if exc.__suppress_context__ else exc.__context__)
        exc = nxt
    return out


def run_entry(f, arg):
    try:
        r = f(arg)
        if hasattr(r, '__next__'):
            list(r)
    except RecursionError:
        return 'recursion'
    except BaseException as e:     # noqa
        if isinstance(e, (KeyboardInterrupt, SystemExit)):
            raise
        return chain(e)
    return None


def load_ref(name, path):
    m = types.ModuleType(name)
    m.__file__ = path
    with open(path, encoding='utf-8') as f:
        src = f.read()
    exec(compile(src, path, 'exec'), m.__dict__)
    return m


def functions_of(M):
    """deterministic walk: module-level callables with __code__, methods of module-level classes, then REG"""
    out = []
    d = vars(M)
    for k in sorted(d):
        v = d[k]
        if k.startswith('__') or k == 'log':
            continue
        if isinstance(v, type):
            for mk in sorted(vars(v)):
                mv = vars(v)[mk]
                mv = getattr(mv, '__func__', mv)
                if hasattr(mv, '__code__'):
                    out.append((k + '.' + mk, mv))
        elif hasattr(v, '__code__'):
            out.append((k, v))
    for i, v in enumerate(d.get('REG', [])):
        if hasattr(v, '__code__'):
            out.append(('REG[%d]' % i, v))
    return out


def code_info(f):
    co = f.__code__
    return {'name': co.co_name, 'first': co.co_firstlineno, 'file': co.co_filename,
            'positions': [list(p) for p in co.co_positions()], 'qualname': getattr(f, '__qualname__', None)}


def main():
    spec = json.load(open(sys.argv[1]))
    sys.path.insert(0, spec['builddir'])
    sys.setrecursionlimit(300)
    out = open(spec['out'], 'a')
    pfd = os.open(spec['progress'], os.O_WRONLY | os.O_CREAT, 0o644)
    smi, sci = spec.get('start', [0, 0])

    def emit(rec):
        out.write(json.dumps(rec) + '\n')
        out.flush()

    for mi, m in enumerate(spec['mods']):
        if mi < smi:
            continue
        first_case = sci if mi == smi else 0
        os.pwrite(pfd, b'%8d %8d' % (mi, first_case), 0)
        if m['kind'] == 'toplevel':
            if first_case > 0:
                continue
            try:
                load_ref('ref_' + m['name'], m['src'])
                ref = None
            except BaseException as e:   # noqa
                ref = chain(e)
            try:
                importlib.import_module(m['name'])
                got = None
            except BaseException as e:   # noqa
                got = chain(e)
            emit({'mod': m['name'], 'case': '<import>', 'ref': ref, 'got': got})
            continue
        R = load_ref('ref_' + m['name'], m['src'])
        C = importlib.import_module(m['name'])
        cfile = getattr(C, '__file__', '') or ''
        if not cfile.endswith('.so'):
            emit({'fatal': 'module under test is not a compiled extension: %r' % cfile, 'mod': m['name']})
            return 4
        for ci, entry in enumerate(m['cases']):
            os.pwrite(pfd, b'%8d %8d' % (mi, ci), 0)
            if ci < first_case:
                continue
            ref = run_entry(getattr(R, entry), 1)
            got = run_entry(getattr(C, entry), 1)
            emit({'mod': m['name'], 'case': entry, 'ref': ref, 'got': got})
        os.pwrite(pfd, b'%8d %8d' % (mi, len(m['cases'])), 0)
        if first_case == 0:
            rf = functions_of(R)
            cf = functions_of(C)
            recs = []
            ok = len(rf) == len(cf)
            for (rn, r), (cn, c) in zip(rf, cf):
                ci_ = code_info(c)
                ci_.update({'where': cn, 'ref_where': rn, 'ref_name': r.__code__.co_name,
                            'ref_first': r.__code__.co_firstlineno, 'ref_qualname': r.__qualname__,
                            'decorated': isinstance(vars(R).get(rn.split('.')[0]), type) and
                            isinstance(vars(vars(R)[rn.split('.')[0]]).get(rn.split('.')[-1]), (classmethod, staticmethod))})
                recs.append(ci_)
            emit({'mod': m['name'], 'codeobjs': recs, 'walk_aligned': ok, 'nref': len(rf), 'ncomp': len(cf)})
    emit({'done': True})
    out.close()
    return 0


if __name__ == '__main__':
    rc = main()
    sys.stdout.flush()
    os._exit(rc)
