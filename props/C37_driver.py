"""Schedule-stress driver for C37 (fresh subprocess). python -m props.C37_driver spec.json"""
import array
import faulthandler
import gc
import json
import os
import random
import sys

faulthandler.enable()


class Live:
    n = 0


class Tracked(Exception):
    def __init__(self, *a):
        Live.n += 1
        Exception.__init__(self, *a)

    def __del__(self):
        Live.n -= 1


class Obj:
    def __init__(self, v):
        Live.n += 1
        self.v = v

    def __del__(self):
        Live.n -= 1


OFF, SIZE = 64, 192


def seq_red(rg):
    s = sub = x = o = 0
    m = 1
    d = 0.0
    for i in rg:
        s += i * 3 + (i & 5)
        sub -= i
        x ^= (i * 40503) & 0xFFFF
        o |= (1 << (i & 31))
        m *= (1 if (i & 3) else -1)
        d += i * 0.5
    return s, sub, x, o, m, d


def main():
    spec = json.load(open(sys.argv[1]))
    if spec.get('stderr_path'):
        fd = os.open(spec['stderr_path'], os.O_WRONLY | os.O_CREAT | os.O_APPEND, 0o644)
        os.dup2(fd, 2)
    sys.path.insert(0, spec['builddir'])
    M = __import__(spec['mod'])
    rnd = random.Random(spec['seed'])
    unraisable = []
    sys.unraisablehook = lambda u: unraisable.append(repr(u.exc_value)[:200])
    out = open(spec['out'], 'a')
    pfd = os.open(spec['progress'], os.O_WRONLY | os.O_CREAT, 0o644)
    stats = {'calls': 0, 'by_body': {}, 'tid_vectors': set(), 'winners': {}, 'violations': 0, 'fp_hits': [0, 0, 0, 0],
             'outcome_kinds': {}, 'threads_seen': set(), 'samples': []}
    if not M.have_openmp():
        out.write(json.dumps({'type': 'fatal', 'msg': 'module was not built with OpenMP'}) + '\n')
        return 3
    todo = spec['todo']
    start = spec.get('start', 0)

    def viol(cfg, what, **kw):
        stats['violations'] += 1
        out.write(json.dumps(dict(type='violation', cfg=cfg, what=what, **kw)) + '\n')
        out.flush()

    for idx in range(start, len(todo)):
        cfg = todo[idx]
        os.pwrite(pfd, b'%10d' % idx, 0)
        name, body, sched = cfg['f'], cfg['body'], cfg['sched']
        st, sp, stp = cfg['range']
        rg = range(st, sp, stp)
        nt, chunk = cfg['nt'], cfg['chunk']
        f = getattr(M, name)
        racy_key = '%s|%s|%s|nt%d' % (body, sched, cfg['range'], nt)
        for rep in range(cfg['reps']):
            dseed = rnd.randint(1, 1 << 20) if cfg['delays'] else 0
            M.fp_config(rnd.randint(1, 1 << 20) if cfg['delays'] else 0)
            if sched == 'runtime':
                M.set_runtime_schedule(cfg['rt_kind'], max(1, chunk))
            gc.collect()
            base = Live.n
            n_unr = len(unraisable)
            stats['calls'] += 1
            stats['by_body'][body] = stats['by_body'].get(body, 0) + 1
            outcome = None
            try:
                if body == 'red':
                    r = f(st, sp, stp, nt, chunk, dseed)
                    exp = seq_red(rg)
                    if tuple(r[:6]) != exp:
                        viol(cfg, 'reduction result differs from sequential loop', got=list(r), exp=list(exp))
                    if len(rg) and r[6] != rg[-1]:
                        viol(cfg, 'index variable after loop is not the last index', got=r[6], exp=rg[-1])
                    outcome = 'ok'
                elif body == 'last':
                    r = f(st, sp, stp, nt, chunk, dseed)
                    if len(rg):
                        exp = (rg[-1] * 2 + 1, rg[-1] * 0.25, rg[-1])
                        if tuple(r) != exp:
                            viol(cfg, 'lastprivate values differ from sequential loop', got=list(r), exp=list(exp))
                    outcome = 'ok'
                elif body == 'write':
                    o = array.array('i', [0] * SIZE)
                    t = array.array('i', [-1] * SIZE)
                    r = f(st, sp, stp, nt, chunk, dseed, o, t, OFF)
                    exp = [0] * SIZE
                    for i in rg:
                        exp[i + OFF] = i * 7 + 1
                    if list(o) != exp:
                        viol(cfg, 'disjoint writes differ from sequential loop', got=[(i, v) for i, v in enumerate(o) if v != exp[i]][:8])
                    if len(rg) and r != rg[-1]:
                        viol(cfg, 'index variable after loop is not the last index', got=r, exp=rg[-1])
                    tv = tuple(t[i + OFF] for i in rg)
                    if any(x < 0 or x >= max(nt, 1) for x in tv):
                        viol(cfg, 'iteration executed by an impossible thread id or not at all', got=list(tv))
                    stats['tid_vectors'].add((nt, sched, chunk, tuple(cfg['range']), tv))
                    stats['threads_seen'].update(tv)
                    outcome = 'ok'
                elif body == 'nested':
                    r = f(st, sp, stp, nt, chunk, dseed)
                    exp = (sum(rg), sorted(i for i in rg if (i & 3) == 0))
                    if (r[0], r[1]) != exp:
                        viol(cfg, 'nested parallel/prange result differs from sequential loop', got=[r[0], r[1]], exp=list(exp))
                    outcome = 'ok'
                elif body == 'gilobj':
                    r = f(st, sp, stp, nt, chunk, dseed, Obj)
                    if (r[0], r[1]) != (sum(rg), sorted(rg)):
                        viol(cfg, 'objects created under the GIL differ from sequential loop', got=[r[0], r[1]])
                    outcome = 'ok'
                elif body == 'raise':
                    raised = array.array('i', [0] * SIZE)
                    mod, rem = cfg['mod'], cfg['rem']
                    K = [i for i in rg if i % mod == rem]
                    try:
                        r = f(st, sp, stp, nt, chunk, dseed, Tracked, mod, rem, raised, OFF)
                        outcome = 'done'
                        if K:
                            viol(cfg, 'a raising iteration exists but no exception reached the caller', got=list(r) if isinstance(r, tuple) else r,
                                 executed_raisers=[i for i in rg if raised[i + OFF]])
                        elif r != ('done', len(rg)):
                            viol(cfg, 'loop without exits returned a wrong count', got=list(r))
                    except Tracked as e:
                        outcome = 'exc'
                        w = e.args[0] if e.args else None
                        if w not in K or not raised[w + OFF]:
                            viol(cfg, 'exception does not stem from a raising iteration that executed', got=w, candidates=K)
                        if len(K) > 1:
                            stats['winners'].setdefault(racy_key, set()).add(w)
                        e = None
                elif body == 'break':
                    r = f(st, sp, stp, nt, chunk, dseed, cfg['mod'], cfg['rem'])
                    if r != ('done', True):
                        viol(cfg, 'break in prange: unexpected outcome', got=list(r))
                    outcome = 'break'
                elif body == 'ret':
                    mod, rem = cfg['mod'], cfg['rem']
                    K = [i for i in rg if i % mod == rem]
                    r = f(st, sp, stp, nt, chunk, dseed, mod, rem)
                    outcome = 'ret'
                    if K:
                        if r[1] - 1000000 not in K:
                            viol(cfg, 'return value is not the value of a returning iteration', got=r[1], candidates=K)
                        elif len(K) > 1:
                            stats['winners'].setdefault(racy_key, set()).add(r[1] - 1000000)
                    elif r[1] != -1:
                        viol(cfg, 'no returning iteration but a value was returned', got=r[1])
                elif body == 'rbreak':
                    raised = array.array('i', [0] * SIZE)
                    mod = cfg['mod']
                    K1 = [i for i in rg if i % mod == 1]
                    try:
                        r = f(st, sp, stp, nt, chunk, dseed, Tracked, mod, raised, OFF)
                        outcome = 'done'
                        executed_raisers = [i for i in rg if raised[i + OFF]]
                        if executed_raisers:
                            viol(cfg, 'an iteration raised but the exception did not win over break', executed_raisers=executed_raisers)
                    except Tracked as e:
                        outcome = 'exc'
                        w = e.args[0] if e.args else None
                        if w not in K1 or not raised[w + OFF]:
                            viol(cfg, 'exception does not stem from a raising iteration that executed', got=w, candidates=K1)
                        e = None
                elif body == 'mix':
                    raised = array.array('i', [0] * SIZE)
                    mod = cfg['mod']
                    K1 = [i for i in rg if i % mod == 1]
                    K2 = [i for i in rg if i % mod == 2]
                    K3 = [i for i in rg if i % mod == 3]
                    try:
                        r = f(st, sp, stp, nt, chunk, dseed, Tracked, mod, raised, OFF)
                        outcome = 'ret' if r[1] != -1 else 'fallthrough'
                        executed_raisers = [i for i in rg if raised[i + OFF]]
                        if executed_raisers:
                            viol(cfg, 'an iteration raised but the exception did not win', got=r[1], executed_raisers=executed_raisers)
                        elif r[1] != -1 and r[1] - 1000000 not in K2:
                            viol(cfg, 'return value is not the value of a returning iteration', got=r[1], candidates=K2)
                        elif r[1] == -1 and (K2 and not K3 and not K1):
                            viol(cfg, 'returning iterations exist (no break, no raise) but the loop fell through', candidates=K2)
                    except Tracked as e:
                        outcome = 'exc'
                        w = e.args[0] if e.args else None
                        if w not in K1 or not raised[w + OFF]:
                            viol(cfg, 'exception does not stem from a raising iteration that executed', got=w, candidates=K1)
                        if len(K1) > 1:
                            stats['winners'].setdefault(racy_key, set()).add(w)
                        e = None
            except Exception as e:   # unexpected exception type
                viol(cfg, 'unexpected exception %s: %s' % (type(e).__name__, str(e)[:200]))
                outcome = 'unexpected'
                e = None
            r = None
            gc.collect()
            if Live.n != base:
                viol(cfg, 'tracked objects alive after the call: exception/object leaked or over-released', live_delta=Live.n - base)
                Live.n = base
            if len(unraisable) != n_unr:
                viol(cfg, 'unraisable exception reported during/after the parallel section', records=unraisable[n_unr:][:3])
            stats['outcome_kinds']['%s:%s' % (body, outcome)] = stats['outcome_kinds'].get('%s:%s' % (body, outcome), 0) + 1
            h = M.fp_hits()
            for j in range(4):
                stats['fp_hits'][j] += h[j]
        if len(stats['samples']) < 6 and idx % max(1, len(todo) // 6) == 0:
            stats['samples'].append(cfg)
    out.write(json.dumps({'type': 'done', 'calls': stats['calls'], 'by_body': stats['by_body'],
                          'distinct_tid_vectors': len(stats['tid_vectors']),
                          'winners': {k: sorted(v) for k, v in stats['winners'].items()},
                          'violations': stats['violations'], 'fp_hits': stats['fp_hits'], 'outcome_kinds': stats['outcome_kinds'],
                          'threads_seen': sorted(stats['threads_seen']), 'samples': stats['samples'],
                          'tid_vector_examples': [list(v[4]) for v in list(stats['tid_vectors'])[:4]]}) + '\n')
    out.close()
    return 0


if __name__ == '__main__':
    rc = main()
    os._exit(rc)
