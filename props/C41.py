"""C41 Compiler directives apply exactly within their scope (DESIGN.md section 5, C41).

(a) behavioural: generated .pyx modules nest semantics-changing directives (cdivision, boundscheck/wraparound on a
    padded buffer, overflowcheck, cpow, nonecheck, binding, embedsignature, always_allow_keywords, c_string_type) at
    five levels - default, compile option (compiler_directives / -X), `# cython:` header, decorator on function/class,
    `with cython.<directive>(...)` block, nested to depth 3 with re-overrides.  Every probe reports the semantics
    that governed it; the reference model is the 15-line resolver of vlib/gen/c41_directives.py (innermost enclosing
    setting, then header, then option, then default).  The modules are compiled by the working-tree compiler, built
    with gcc and run through the boundary differential driver against a reference module of expected observations.
(b) parsing: directive strings -> the real Options.parse_directive_value / parse_directive_list /
    parse_compile_time_env, header comments and scope rules through real compilations (props/C41_worker.py).
"""
import os
import re
from concurrent.futures import ThreadPoolExecutor

from vlib import core, creach, cy, diff
from vlib.gen import c41_directives as G

SETUP = r'''
def obs_func(M, d, target):
    f = eval('M.' + target, {'M': M})
    if d == 'binding':
        return [type(f).__name__ == 'cython_function_or_method']
    if d == 'embedsignature':
        doc = f.__doc__
        return [bool(doc) and doc.split('(')[0].split('.')[-1] == target.split('.')[-1]]
    if d == 'always_allow_keywords':
        try:
            f(x=1)
            return [True]
        except TypeError:
            return [False]
    raise ValueError(d)


def probe(M, name):
    if hasattr(M, 'EXPECTED'):
        return M.EXPECTED[name]
    return eval(CALLS[name], {'M': M, 'obs_func': obs_func})
'''
LEVELS = ['default', 'option', 'header', 'decorator', 'stacked-decorator', 'with']
NEEDED_PAIRS = ['default>option', 'default>header', 'default>decorator', 'default>with', 'option>header', 'option>decorator',
                'option>with', 'header>decorator', 'header>with', 'decorator>with', 'with>with', 'decorator>decorator',
                'with>decorator', 'decorator>stacked-decorator']


def classify(pr, exp, got):
    """mechanism key from the first probe point whose observation differs"""
    if isinstance(exp, list) and isinstance(got, list) and len(exp) == len(got):
        for i, (a, b) in enumerate(zip(exp, got)):
            if a != b:
                pt = pr['points'][i]
                lv = pt['levels']
                d = pt['directive']
                if pt.get('kind') == 'bounds_neg' and not pt['env']['wraparound'] and b != G.BIG[5]:
                    # v[-1] with wraparound off as expected, yet a different outcome: the boundscheck setting is the one that
                    # was resolved differently - name that directive and its level chain in the key
                    d, lv = 'boundscheck', pt['levels_by_directive']['boundscheck']
                return 'scope:%s:%s-over-%s:%s' % (d, lv[-1], lv[-2] if len(lv) > 1 else 'none', pt['position']), i
    pt = pr['points'][0]
    lv = pt['levels']
    return 'scope:%s:%s-over-%s:%s' % (pt['directive'], lv[-1], lv[-2] if len(lv) > 1 else 'none', pt['position']), 0


def unsig(x):
    """vlib.sig signature -> plain value for the few shapes used here"""
    if isinstance(x, list) and len(x) == 2 and isinstance(x[0], str):
        t, v = x
        if t == 'list':
            return [unsig(e) for e in v]
        if t in ('int', 'bool', 'str'):
            try:
                return eval(v) if isinstance(v, str) else v
            except Exception:
                return v
    return x


def run_parse_part(ck, tree):
    nproc = ck.pick(8, core.NCPU)
    total = ck.pick(4000, 300000)
    n_header = ck.pick(240, 4000)
    d = tree.subdir('parse')

    def one(i):
        out = os.path.join(d, 'out_%d.json' % i)
        sf = os.path.join(d, 'spec_%d.json' % i)
        per = total // nproc
        core.write_json(sf, {'mirror': tree.mirror, 'seed': ck.seed, 'chunk': i, 'out': out, 'dir': os.path.join(d, 'src%d' % i),
                             'n_value': per // 2, 'n_list': per // 3, 'n_env': per // 6, 'n_header': n_header // nproc})
        r = core.run([core.PY, '-m', 'props.C41_worker', sf], env=tree.env(), timeout=ck.pick(1500, 7200), as_gb=6)
        if r.rc != 0 or not os.path.exists(out):
            return {'fatal': 'parse worker %d failed rc=%s timed_out=%s: %s' % (i, r.rc, r.timed_out, (r.err or '')[-500:])}
        return core.read_json(out)

    with ThreadPoolExecutor(nproc) as ex:
        outs = list(ex.map(one, range(nproc)))
    tot = {'n': 0, 'value_calls': 0, 'list_calls': 0, 'env_calls': 0, 'header_calls': 0, 'distinct': 0, 'outcomes': {}}
    samples = []
    for o in outs:
        if 'fatal' in o:
            ck.inconclusive_if(True, o['fatal'])
            continue
        if not o['mirror_ok']:
            ck.inconclusive_if(True, 'Options was not loaded from the source mirror')
            continue
        for k in ('n', 'value_calls', 'list_calls', 'env_calls', 'header_calls', 'distinct'):
            tot[k] += o[k]
        for k, v in o['outcomes'].items():
            tot['outcomes'][k] = tot['outcomes'].get(k, 0) + v
        samples += o['samples'][:1]
        for key, n in o['mismatches'].items():
            w = o['witnesses'][key][0]
            for _ in range(n):
                ck.discrepancy(key, w['what'][:600], w)
    return tot, samples


def main(ck):
    tree = cy.Tree('C41')
    with ThreadPoolExecutor(1) as bg:
        fut = bg.submit(run_parse_part, ck, tree)
        # ------------------------------------------------------------------ (a) behavioural nesting probes
        n_mod = ck.pick(12, 200)
        per_family = ck.pick(5, 6)
        rng = ck.rng('modules')
        mods = {}
        for i in range(n_mod):
            mods['c41m%d' % i] = G.gen_module(rng, per_family)
        # translate each module with its own option-level directives (the -X / compiler_directives level)
        bdir = tree.subdir('b')
        jobs = []
        for name, m in mods.items():
            p = os.path.join(bdir, name + '.pyx')
            with open(p, 'w') as f:
                f.write(m['source'])
            jobs.append({'src': p, 'directives': m['option']})
        tres, _ = tree.translate(jobs, timeout=ck.pick(1800, 10800))    # generous: the translate workers share the machine
        ok_names = [n for n, r in zip(mods, tres) if r['ok']]
        for n, r in zip(mods, tres):
            if not r['ok']:
                ck.note('translate failure %s: %s' % (n, ((r.get('exc') or '') + (r.get('errors') or ''))[-500:]))
        bres = tree.cbuild_many([os.path.join(bdir, n + '.c') for n in ok_names], cflags=['-fwrapv'])
        built = [n for n, b in zip(ok_names, bres) if b['ok']]
        for n, b in zip(ok_names, bres):
            if not b['ok']:
                ck.note('C build failure %s: %s' % (n, b['err'][-400:]))
        ck.inconclusive_if(len(built) < 0.8 * n_mod, 'only %d of %d directive modules built' % (len(built), n_mod))
        total_n = total_distinct = 0
        pairs = {}
        points = 0
        fam_hist = {}
        samples = []
        static_checked = 0
        def run_module(name):
            m = mods[name]
            calls = {pr['name']: pr['call'] for pr in m['probes']}
            expected = {pr['name']: pr['expected'] for pr in m['probes']}
            refp = os.path.join(bdir, name + '_ref.py')
            with open(refp, 'w') as f:
                f.write('EXPECTED = %r\n' % (expected,))
            cases = [{'x': 'probe(M, %r)' % pr['name'], 't': pr['family']} for pr in m['probes']]
            return diff.run_cases(tree, bdir, name, cases, ref=refp, compare={'log': False},
                                  setup='CALLS = %r\n%s' % (calls, SETUP), tagdir='run_' + name, timeout=900, nproc=1)

        with ThreadPoolExecutor(ck.pick(8, core.NCPU)) as ex:
            runs = dict(zip(built, ex.map(run_module, built)))
        for name in built:
            m = mods[name]
            res = runs[name]
            total_n += res.n
            total_distinct += res.distinct
            for k, v in m['pairs'].items():
                pairs[k] = pairs.get(k, 0) + v
            byname = {pr['name']: pr for pr in m['probes']}
            for pr in m['probes']:
                points += len(pr['points'])
                fam_hist[pr['family']] = fam_hist.get(pr['family'], 0) + 1
            if len(samples) < 3 and m['probes']:
                pr = m['probes'][len(samples) % len(m['probes'])]
                samples.append({'module': name, 'option_level': m['option'], 'header_level': m['header'], 'probe': pr['call'],
                                'expected': pr['expected'], 'levels_at_points': [p['levels'] for p in pr['points']][:8]})
            for mm in res.mismatches:
                pname = re.search(r"probe\(M, '(\w+)'\)", mm['case']['x']).group(1)
                pr = byname[pname]
                exp = pr['expected']
                got = unsig(mm['got'][1]) if mm['got'][0] == 'ok' else mm['got']
                key, idx = classify(pr, exp if isinstance(exp, list) else [exp], got if isinstance(got, list) else [got])
                ck.discrepancy(key, 'module %s (option %s, header %s): %s -> %r, resolver expects %r (first difference at probe point %d, '
                               'levels %s)' % (name, m['option'], m['header'], pr['call'], got, exp, idx, pr['points'][min(idx, len(pr['points']) - 1)]['levels']),
                               {'module_source': m['source'], 'ext': '.pyx', 'case': {'x': pr['call'].replace('obs_func(', 'obs_func(')},
                                'cflags': ['-fwrapv'], 'directives': m['option'], 'expected': exp, 'observed': got,
                                'kind': 'scope', 'probe': pr['name'], 'call': pr['call']})
            for c in res.crashes:
                ck.discrepancy('scope:crash', 'module %s crashed in %s: %s' % (name, c['case'], c['kind']),
                               {'module_source': m['source'], 'ext': '.pyx', 'directives': m['option'], 'kind': 'scope',
                                'call': c['case'].get('x'), 'stderr': c['stderr'][-1500:]})
            for f in res.fatal:
                ck.inconclusive_if(True, 'driver failed for %s: %s' % (name, str(f)[-300:]))
            # static observation for nonecheck: the None test must exist exactly at the points the resolver marks checked
            ctext = open(os.path.join(bdir, name + '.c'), errors='replace').read()
            toks = [pr['c_token'] for pr in m['probes'] if pr['static_nonecheck'] is not None]
            bodies = {}
            for cname, body in creach.function_bodies(ctext).items():
                for t in toks:
                    if re.search(r'(?<![A-Za-z])%s(?!\d)' % t, cname) and '_pf_' in cname:
                        bodies[t] = bodies.get(t, '') + body
            for pr in m['probes']:
                if pr['static_nonecheck'] is None or pr['c_token'] not in bodies:
                    continue
                n_checks = len(re.findall(r"NoneType\S* object has no attribute", bodies[pr['c_token']]))
                static_checked += 1
                if n_checks != pr['static_nonecheck']:
                    ck.discrepancy('scope:nonecheck:static-check-count', 'module %s function %s: generated C contains %d None checks, the '
                                   'resolver marks %d access points as checked' % (name, pr['name'], n_checks, pr['static_nonecheck']),
                                   {'module_source': m['source'], 'ext': '.pyx', 'directives': m['option'], 'kind': 'scope',
                                    'probe': pr['name'], 'call': pr['call'], 'expected': pr['static_nonecheck'], 'observed': n_checks})
        parse_tot, parse_samples = fut.result()
    for p in NEEDED_PAIRS:
        ck.inconclusive_if(pairs.get(p, 0) == 0, 'level pair %s (outer>governing) never observed' % p)
    ck.inconclusive_if(static_checked == 0, 'no nonecheck function body found in the generated C')
    ck.inconclusive_if(parse_tot['n'] < ck.pick(3000, 200000), 'only %d directive strings were parsed' % parse_tot['n'])
    return ck.finish(
        total_n + parse_tot['n'], total_distinct + parse_tot['distinct'],
        '(a) one evaluation per probe function call: each function nests with-blocks/decorators of one directive family '
        '(depth <= 3, re-overrides, a probe after every nested block) inside a module with random option-level and header-level '
        'settings; the observed list of semantics is compared with the resolver. (b) one evaluation per parsed directive '
        'string / header comment / scope-rule source. distinct = distinct (probe, expected observation) + distinct strings',
        samples + parse_samples[:2],
        extra={'modules': n_mod, 'modules_built': len(built), 'probe_functions': total_n, 'probe_points': points,
               'level_pairs_outer>governing': dict(sorted(pairs.items())), 'probes_by_family': fam_hist,
               'nonecheck_functions_checked_statically': static_checked, 'parsing': parse_tot},
        assumptions=['the resolver (innermost enclosing setting, then header, then option, then default) is the reference model',
                     'gcc -fwrapv makes the unchecked signed overflow probe well defined; the bounds probes stay inside a '
                     'harness-owned 10-byte allocation',
                     'binding is not probed on methods of Python classes (Cython always binds them)'])


def replay(ck, data):
    w = data.get('witness', data)
    if w.get('kind') == 'parse':
        print(w.get('what') or w)
        tree = cy.Tree('C41r')
        if w.get('call') in ('parse_directive_value', 'parse_directive_list', 'parse_compile_time_env'):
            code = 'from Cython.Compiler import Options\ntry:\n    print(repr(Options.%s(*%r)))\nexcept Exception as e:\n    print(type(e).__name__, e)\n' % (w['call'], tuple(w['args']))
            r = core.run([core.PY, '-c', code], env=tree.env(), timeout=300)
            print('now     :', r.out.strip(), (r.err or '')[-300:])
            print('expected:', w['expected'])
        return 2
    if w.get('kind') == 'scope':
        tree = cy.Tree('C41r')
        d, info = tree.build_sources({'c41r': w['module_source']}, ext='.pyx', directives=w.get('directives'), cflags=['-fwrapv'])
        if not info['c41r']['ok']:
            print('build failed', info['c41r']['errors'][-1500:])
            return 2
        code = 'import sys\nsys.path.insert(0, %r)\nimport c41r as M\n%s\nprint(repr(%s))\n' % (d, SETUP.replace('CALLS[name]', 'None'), w['call'])
        r = core.run([core.PY, '-c', code], env=tree.env(d), timeout=300)
        print('observed now:', r.out.strip(), (r.err or '')[-500:])
        print('expected    :', w.get('expected'))
        if r.out.strip() != repr(w.get('expected')):
            print('VIOLATION property=%s replay=<replayed>' % ck.pid)
            return 1
        return 0
    from vlib import replay as generic
    return generic.replay_diff(ck, data)
