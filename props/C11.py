"""C11 Emitted C string literals denote exactly the original bytes (DESIGN.md section 5, C11).

Byte strings are fed to the real escape_byte_string / split_string_literal / escape_char / BytesLiteral.as_c_string_literal
(StringEncoding.py) and _write_escaped_cstring_const / _write_cstring_const (Code.py), interpreted from the source
mirror.  The emitted declarations are (1) compiled by gcc and clang (-std=c11 -trigraphs) into programs that dump sizeof
and the bytes, (2) decoded by the reference decoder vlib/ref/cliteral.py, which is cross-validated against both compilers
on every run.  A translate-worker plugin (vlib/mon/c11_escape.py) puts the decoder as a postcondition on the live
functions while real modules are compiled.  See props/C11_worker.py for the workloads."""
import json
import os
from concurrent.futures import ThreadPoolExecutor

from vlib import core, cy

PLUGIN = 'vlib.mon.c11_escape'


def run_worker(tree, spec, tag, timeout):
    d = tree.subdir('w')
    sf = os.path.join(d, tag + '.spec.json')
    of = os.path.join(d, tag + '.out.json')
    spec = dict(spec)
    spec.update({'mirror': tree.mirror, 'workdir': d, 'tag': tag})
    with open(sf, 'w') as f:
        json.dump(spec, f)
    r = core.run([core.PY, '-m', 'props.C11_worker', sf, of], env=tree.env(), timeout=timeout, as_gb=6)
    if r.rc != 0 or not os.path.exists(of):
        return {'failed': 'rc=%s timed_out=%s stderr=%s' % (r.rc, r.timed_out, (r.err or '')[-800:])}
    return core.read_json(of)


def merge(dst, src):
    for k, v in src.items():
        if isinstance(v, dict):
            merge(dst.setdefault(k, {}), v)
        elif isinstance(v, (int, float)):
            dst[k] = dst.get(k, 0) + v


LIVE_A = r'''# cython: language_level=3
cdef const char* P = b"a??/b\\\"c\x00\x017\xff9'?"
S = "trigraph ??= and ??/ quote \" backslash \\ nul \x00 bell \x07 high \u00ff\u20ac"
B = b"@LONGB@"
LONG = b"@LONGL@"
def f(x):
    """doc ??/ string with "quotes" and \\ backslashes"""
    cdef char c = c'\\'
    cdef char q = c"'"
    cdef char z = c'\x00'
    cdef char h = c'\xff'
    assert x is not None, "message ??) with 'quotes'"
    return P, S, B, LONG, c, q, z, h, x.attr_with_a_name, b'\\' * 3
'''

LIVE_B = r'''# cython: language_level=3
import sys
def g(d):
    raise ValueError("??< %s ??> \\ \" ' \n \r \t %d" % (d, 3))
class K:
    "class doc ??-"
    def m(self, a="def??/ault", *, k=b"\x80\x81??'"):
        return f"{a!r:>10}??!{k}"
cdef int h(object o) except -1:
    return o.missing_attribute_with_question_marks
'''


def live_sources():
    longb = ''.join('\\x%02x' % ((i * 7) % 256) for i in range(700))
    longl = 'ab?' * 800 + '??/' + '\\\\' * 700
    return {'c11live_a': LIVE_A.replace('@LONGB@', longb).replace('@LONGL@', longl), 'c11live_b': LIVE_B}


def main(ck):
    tree = cy.Tree('C11')
    quick = ck.quick
    nshards = ck.pick(16, 48)
    jobs = [[] for _ in range(nshards)]
    # all strings of length <= 2 (65 793): decoder; compilers: quick every 6th + class-18 pairs, thorough all
    step = 65793 // nshards + 1
    for i in range(nshards):
        jobs[i].append(['short', i * step, min(65793, (i + 1) * step), 6 if quick else 1])
    # length 3 over the 18-class alphabet (5 832): both oracles
    step = 5832 // nshards + 1
    for i in range(nshards):
        jobs[i].append(['class3', i * step, min(5832, (i + 1) * step)])
    # adversarial long strings: both oracles
    for i in range(nshards):
        jobs[i].append(['adversarial', i, nshards])
    for i in range(nshards):
        jobs[i].append(['random', ck.pick(4000, 160000) // nshards, ck.pick(160, 3200) // nshards])
    big = ck.pick([65535, 65536, 65537], list(range(65530, 65541)))
    for i, ln in enumerate(big):
        jobs[i % nshards].append(['big', [ln], ck.pick(2, 3)])
    jobs[nshards - 1].append(['chars'])
    tasks = [('s%d' % i, {'jobs': jobs[i], 'compile': True, 'seed': 'C11:%d:%d' % (ck.seed, i)}) for i in range(nshards)]
    if not quick:
        # all 16.7 M strings of length 3 through the decoder; a sample also through the compilers
        nf = 64
        for i in range(nf):
            tasks.append(('x%d' % i, {'jobs': [['full3', i * 4, (i + 1) * 4, 170]], 'compile': True, 'seed': 'C11:x:%d' % i}))

    def live():
        srcs = live_sources()
        d = tree.subdir('live')
        jl = []
        for name, text in srcs.items():
            p = os.path.join(d, name + '.pyx')
            with open(p, 'w') as f:
                f.write(text)
            jl.append({'src': p})
        # plus real test modules of the tree
        src = os.path.join(core.REPO, 'tests', 'run')
        picks = ['strliterals.pyx', 'unicodeliterals.pyx', 'charencoding.pyx', 'bytesmethods.pyx', 'fstring.pyx', 'charescape.pyx',
                 'string_comparison.pyx', 'builtin_ord.pyx', 'cstringmul.pyx', 'py_unicode_strings.pyx']
        if not quick and os.path.isdir(src):
            rng = ck.rng('live')
            more = sorted(n for n in os.listdir(src) if n.endswith('.pyx') and os.path.getsize(os.path.join(src, n)) < 30000)
            picks += rng.sample(more, min(120, len(more)))
        for n in picks:
            sp = os.path.join(src, n)
            if os.path.exists(sp):
                p = os.path.join(d, n)
                with open(sp, encoding='utf-8', errors='surrogateescape') as fi, open(p, 'w', encoding='utf-8', errors='surrogateescape') as fo:
                    fo.write(fi.read())
                jl.append({'src': p, 'language_level': 2})
        res, plug = tree.translate(jl, plugins=[PLUGIN], plugin_args={PLUGIN: {'mirror': tree.mirror}}, timeout=1200)
        return jl, res, plug

    timeout = ck.pick(900, 3000)
    with ThreadPoolExecutor(core.NCPU + 1) as ex:
        fl = ex.submit(live)
        outs = list(ex.map(lambda t: (t[0], run_worker(tree, t[1], t[0], timeout)), tasks))
        jl, lres, lplug = fl.result()

    n = {}
    samples, oracle_dis = [], []
    for tag, o in outs:
        if 'failed' in o:
            ck.inconclusive_if(True, 'worker %s failed: %s' % (tag, o['failed']))
            continue
        if not o.get('mirror_ok'):
            ck.inconclusive_if(True, 'StringEncoding/Code not imported from the mirror as .py: %r' % o.get('module_files'))
            continue
        merge(n, o['n'])
        if len(samples) < 5:
            samples.extend(o['samples'][:1])
        oracle_dis.extend(o['oracle_disagreements'][:2])
        for key, d in o['disc'].items():
            w = dict(d['witness'])
            w.update({'expected': 'input bytes + NUL', 'observed': d['witness']['detail']})
            isv = ck.discrepancy(key, 'input (%d bytes) %s...: %s' % (w['input_len'], w['input_hex'][:80], json.dumps(w['detail'])[:400]), w)
            book = ck.violations if isv else ck.known_hits
            book[key]['count'] += d['count'] - 1
    # live contract
    live = {'modules': len(jl), 'translated_ok': sum(1 for r in lres if r.get('ok')), 'contract_evaluations': {}, 'bytes_checked': 0}
    for p in lplug:
        d = p.get(PLUGIN) or {}
        if 'plugin_error' in d:
            ck.inconclusive_if(True, 'live contract plugin failed: ' + d['plugin_error'][-400:])
            continue
        merge(live['contract_evaluations'], d.get('evaluations', {}))
        live['bytes_checked'] += d.get('bytes_checked', 0)
        for v in d.get('violations', []):
            ck.discrepancy('live:' + v['key'], 'during a real compilation: %s' % json.dumps(v)[:400],
                           {'input_hex': v.get('input_hex'), 'detail': v, 'expected': 'decoder(result) == input', 'observed': v})
    ck.inconclusive_if(sum(live['contract_evaluations'].values()) == 0, 'live contracts on the escape functions never evaluated')
    ck.inconclusive_if(live['translated_ok'] < 2, 'live corpus did not translate')

    hz = n.get('hazard', {})
    for k in ('trigraph', 'split', 'digit-after-escape', 'backslash-run', 'big'):
        ck.inconclusive_if(hz.get(k, 0) == 0, 'no input of hazard class %s' % k)
    cc = n.get('compiler_checked', {})
    ck.inconclusive_if(cc.get('gcc', 0) == 0 or cc.get('clang', 0) == 0, 'a C compiler judged nothing')
    ck.inconclusive_if(n.get('decoder_vs_compiler_disagreements', 0) > 0,
                       'reference decoder disagrees with gcc on %d literals, e.g. %s' % (n.get('decoder_vs_compiler_disagreements', 0),
                                                                                       json.dumps(oracle_dis[:1])[:400]))
    ck.inconclusive_if(n.get('gcc_vs_clang_disagreements', 0) > 0, 'gcc and clang disagree on %d literals' % n.get('gcc_vs_clang_disagreements', 0))
    ck.inconclusive_if(n.get('msvc_arm_checked', 0) == 0, 'the _MSC_VER character-array arm was never produced')
    ck.inconclusive_if(n.get('char_literals', 0) < 256, 'escape_char not checked on all 256 bytes')
    extra = {
        'inputs': n.get('inputs', 0), 'inputs_by_category': n.get('categories', {}), 'decoder_checked': n.get('decoder_checked', 0),
        'compiler_checked': cc, 'c_files_compiled': n.get('c_files', 0), 'compile_failures': n.get('compile_failures', 0),
        'hazard_class_inputs': hz, 'msvc_arm_checked': n.get('msvc_arm_checked', 0), 'char_literals_checked': n.get('char_literals', 0),
        'as_c_string_literal_checked': n.get('as_c_string_literal_checked', 0),
        'decoder_vs_compiler_disagreements': n.get('decoder_vs_compiler_disagreements', 0),
        'gcc_vs_clang_disagreements': n.get('gcc_vs_clang_disagreements', 0), 'live_contract': live,
    }
    if not quick and not ck.inconclusive:
        extra['exhaustive'] = True
    return ck.finish(
        n.get('inputs', 0), n.get('distinct_hazardous', 0),
        'all byte strings of length <= 2, length 3 over an 18-class alphabet (thorough: all 16.7 M length-3 strings through the '
        'decoder), ~1 000 constructed long strings (every escape kind straddling every offset around the 2 000-character split, '
        'backslash runs of every length 990..1010 and 1990..2010, all nine trigraph bodies, digits after escapes), seeded random '
        'short and split-length strings, lengths 65 530..65 540 (both #ifdef arms), all 256 character constants. evaluations = '
        'inputs whose emitted declaration was decoded and compared; distinct_nontrivial = inputs in at least one hazard class '
        '(trigraph, split, digit after escape, backslash run, >= 65 536)',
        samples, extra=extra,
        assumptions=['gcc 12 and clang 14 with -std=c11 -trigraphs are the conforming C compilers',
                     'the reference decoder implements translation phases 1-6 for narrow string literals and character constants; '
                     'it must agree with both compilers on everything compiled in this run',
                     'the _MSC_VER arm is compiled by gcc/clang as its own translation unit (no MSVC here); an array used as a C '
                     'string must have sizeof == len + 1 like the string-literal arm'])


def replay(ck, data):
    w = data.get('witness', data)
    tree = cy.Tree('C11r')
    b = bytes.fromhex(w['input_hex'])
    if w.get('input_len', len(b)) != len(b):
        print('witness holds only the first %d of %d input bytes; replay uses the prefix' % (len(b), w['input_len']))
    d = tree.subdir('w')
    spec = {'jobs': [['replay', w['input_hex']]], 'compile': True, 'seed': 'r'}
    o = run_worker(tree, spec, 'replay', 600)
    if 'failed' in o:
        print('replay worker failed', o['failed'])
        return 2
    known = {f.get('key') for f in ck.known}
    rc = 0
    for key, dd in o['disc'].items():
        print('discrepancy', key, json.dumps(dd['witness']['detail'])[:600])
        if key not in known:
            rc = 1
    if rc:
        print('VIOLATION property=C11 replay=<replayed>')
    elif not o['disc']:
        print('replay: emitted literal denotes exactly the input bytes')
    return rc
