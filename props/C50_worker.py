"""C50: drive the real Plex engine (Cython/Plex/*.py, interpreted, from the mirror) on generated lexicons and
compare every token with two independent reference matchers working on the BOL/EOL/EOF symbol stream.

python -m props.C50_worker <spec.json> <out.json>

Lexicon spec (JSON-able): {"states": {"": [rule, ...], "s1": [...]}, "order": ["", "s1"], "alphabet": "abc\\n"}
rule = {"re": AST, "act": kind}   kind in ret / text / ignore / begin:<state> / call / callbegin:<state>
AST  = ["str", s] | ["strs", [s...]] | ["any", s] | ["anybut", s] | ["anychar"] | ["range", c1, c2] |
       ["range2", s] | ["seq", a...] | ["alt", a...] | ["rep", a] | ["rep1", a] | ["opt", a] | ["bol"] | ["eol"] |
       ["eof"] | ["empty"] | ["nocase", a] | ["case", a]
"""
import io
import json
import os
import random
import re
import sys

BOLC, EOLC, EOFC = '\ue001', '\ue002', '\ue003'   # private-use code points: never inside a generated character set
PSEUDO = BOLC + EOLC + EOFC


# ------------------------------------------------------------------ symbol stream (documented model)
def encode(text):
    out = [BOLC]
    for ch in text:
        if ch == '\n':
            out.append(EOLC + '\n' + BOLC)
        else:
            out.append(ch)
    out.append(EOLC + EOFC)
    return ''.join(out)


def real_chars(enc):
    return ''.join([c for c in enc if c not in PSEUDO])


# ------------------------------------------------------------------ core regular expressions over the encoding
EPS = ('eps',)
NUL = ('nul',)


def mk_set(chars, neg=False):
    return ('set', frozenset(chars), bool(neg))


def mk_cat(a, b):
    if a is NUL or b is NUL or a == NUL or b == NUL:
        return NUL
    if a == EPS:
        return b
    if b == EPS:
        return a
    return ('cat', a, b)


def mk_alt(*xs):
    items = set()
    for x in xs:
        if x == NUL:
            continue
        if x[0] == 'alt':
            items |= x[1]
        else:
            items.add(x)
    if not items:
        return NUL
    if len(items) == 1:
        return next(iter(items))
    return ('alt', frozenset(items))


def mk_star(a):
    if a == NUL or a == EPS:
        return EPS
    if a[0] == 'star':
        return a
    return ('star', a)


def swap(c):
    if 'a' <= c <= 'z':
        return c.upper()
    if 'A' <= c <= 'Z':
        return c.lower()
    return c


OPT_BOL = mk_alt(mk_set(BOLC), EPS)
OPT_EOL = mk_alt(mk_set(EOLC), EPS)
NEWLINE = mk_cat(OPT_BOL, mk_cat(OPT_EOL, mk_set('\n')))


def char_class(chars, nocase, neg=False):
    """a single input character from (or, neg, not from) chars, in symbol-stream terms: an optional BOL first,
    and for the newline character an optional EOL before it"""
    chars = set(chars)
    if not neg:
        if nocase:
            chars |= {swap(c) for c in chars}
        parts = []
        plain = chars - {'\n'}
        if plain:
            parts.append(mk_cat(OPT_BOL, mk_set(plain)))
        if '\n' in chars:
            parts.append(NEWLINE)
        return mk_alt(*parts) if parts else NUL
    if nocase:
        chars = {c for c in chars if swap(c) in chars}
    parts = [mk_cat(OPT_BOL, mk_set(chars | {'\n'} | set(PSEUDO), neg=True))]
    if '\n' not in chars:
        parts.append(NEWLINE)
    return mk_alt(*parts)


def translate(ast, nocase=False):
    k = ast[0]
    if k == 'str':
        r = EPS
        for c in reversed(ast[1]):
            r = mk_cat(char_class(c, nocase), r)
        return r
    if k == 'strs':
        return mk_alt(*[translate(['str', s], nocase) for s in ast[1]])
    if k == 'any':
        return char_class(ast[1], nocase)
    if k == 'anybut':
        return char_class(ast[1], nocase, neg=True)
    if k == 'anychar':
        return char_class('', nocase, neg=True)
    if k == 'range':
        return char_class([chr(c) for c in range(ord(ast[1]), ord(ast[2]) + 1)], nocase)
    if k == 'range2':
        s = ast[1]
        cs = []
        for i in range(0, len(s), 2):
            cs += [chr(c) for c in range(ord(s[i]), ord(s[i + 1]) + 1)]
        return char_class(cs, nocase)
    if k == 'seq':
        r = EPS
        for a in reversed(ast[1:]):
            r = mk_cat(translate(a, nocase), r)
        return r
    if k == 'alt':
        return mk_alt(*[translate(a, nocase) for a in ast[1:]])
    if k == 'rep':
        return mk_star(translate(ast[1], nocase))
    if k == 'rep1':
        x = translate(ast[1], nocase)
        return mk_cat(x, mk_star(x))
    if k == 'opt':
        return mk_alt(translate(ast[1], nocase), EPS)
    if k == 'bol':
        return mk_set(BOLC)
    if k == 'eol':
        return mk_cat(OPT_BOL, mk_set(EOLC))
    if k == 'eof':
        return mk_set(EOFC)
    if k == 'empty':
        return EPS
    if k == 'nocase':
        return translate(ast[1], True)
    if k == 'case':
        return translate(ast[1], False)
    raise ValueError(ast)


_null_memo = {}


def nullable(r):
    k = r[0]
    if k == 'eps' or k == 'star':
        return True
    if k == 'set' or k == 'nul':
        return False
    v = _null_memo.get(r)
    if v is None:
        if k == 'cat':
            v = nullable(r[1]) and nullable(r[2])
        else:
            v = any(nullable(x) for x in r[1])
        _null_memo[r] = v
    return v


_d_memo = {}


def deriv(r, c):
    """Brzozowski derivative"""
    k = r[0]
    if k == 'eps' or k == 'nul':
        return NUL
    if k == 'set':
        return EPS if ((c in r[1]) != r[2]) else NUL
    key = (r, c)
    v = _d_memo.get(key)
    if v is not None:
        return v
    if k == 'cat':
        v = mk_cat(deriv(r[1], c), r[2])
        if nullable(r[1]):
            v = mk_alt(v, deriv(r[2], c))
    elif k == 'alt':
        v = mk_alt(*[deriv(x, c) for x in r[1]])
    else:
        v = mk_cat(deriv(r[1], c), r)
    _d_memo[key] = v
    return v


def to_re(r):
    """CPython `re` source for a core RE"""
    k = r[0]
    if k == 'eps':
        return ''
    if k == 'nul':
        return '(?!)'
    if k == 'set':
        body = ''.join(sorted('\\x%02x' % ord(c) if ord(c) < 256 else '\\U%08x' % ord(c) for c in r[1]))
        if not r[2]:
            return '[%s]' % body
        return '[^%s]' % body
    if k == 'cat':
        return to_re(r[1]) + to_re(r[2])
    if k == 'alt':
        return '(?:%s)' % '|'.join(sorted(to_re(x) for x in r[1]))
    return '(?:%s)*' % to_re(r[1])


# ------------------------------------------------------------------ reference matchers
class Oracle:
    """longest match, ties -> earliest rule, per scanner state; two engines"""

    def __init__(self, lex):
        self.rules = {}
        for st, rules in lex['states'].items():
            lst = []
            for r in rules:
                core = translate(r['re'])
                lst.append((core, re.compile(to_re(core), re.DOTALL)))
            self.rules[st] = lst
        self.memo = {}

    def longest_deriv(self, st, s, limit=None):
        """(length in symbols, rule index, tie?, furthest viable prefix) by derivatives; None if no match"""
        cur = [core for core, _ in self.rules[st]]
        best_len, best_rule, tie, far = 0, None, False, 0
        n = len(s) if limit is None else min(len(s), limit)
        for i in range(n):
            c = s[i]
            alive = False
            for j in range(len(cur)):
                if cur[j] is not NUL and cur[j] != NUL:
                    cur[j] = deriv(cur[j], c)
                    if cur[j] != NUL:
                        alive = True
            if not alive:
                break
            far = i + 1
            acc = [j for j in range(len(cur)) if cur[j] != NUL and nullable(cur[j])]
            if acc:
                best_len, best_rule, tie = i + 1, acc[0], len(acc) > 1
        if best_rule is None:
            return None, far
        return (best_len, best_rule, tie), far

    def longest_re(self, st, s):
        best_len, best_rule = 0, None
        for j, (_, pat) in enumerate(self.rules[st]):
            for end in range(len(s), best_len, -1):
                if pat.fullmatch(s, 0, end):
                    best_len, best_rule = end, j
                    break
        if best_rule is None:
            return None
        return (best_len, best_rule)

    def match(self, st, s, use_re=True):
        key = (st, s) if len(s) <= 64 else None
        if key is not None and key in self.memo:
            return self.memo[key]
        d, far = self.longest_deriv(st, s)
        disagree = None
        if use_re and len(s) <= 64:
            r = self.longest_re(st, s)
            if (d and d[:2]) != r:
                disagree = (d, r)
        elif use_re and d is not None and d[0] <= 24:
            # long input: `re` only confirms short claimed spans (a failing fullmatch of a nested-star pattern on a
            # long span backtracks exponentially - observed as a 400 s hang of the harness, not of Plex)
            pat = self.rules[st][d[1]][1]
            if not pat.fullmatch(s, 0, d[0]):
                disagree = (d, 'claimed span rejected by re')
        res = (d, far, disagree)
        if key is not None:
            self.memo[key] = res
        return res


def expected_label(rule, idx):
    a = rule['act']
    if a == 'ret' or a == 'call':
        return 'r%s/%d' % idx
    if a == 'text':
        return 'TEXT'
    if a == 'ignore':
        return 'IGNORE'
    if a.startswith('begin:'):
        return 'Begin(%s)' % a[6:]
    if a.startswith('callbegin:'):
        return 'r%s/%d' % idx
    raise ValueError(a)


def oracle_tokens(lex, orc, text, use_re=True):
    """expected token sequence [(label, text)], end kind ('error' | 'free'), per-token flags, oracle disagreements"""
    enc = encode(text)
    st = ''
    pos = 0
    toks, flags, disagreements = [], [], []
    guard = 0
    while True:
        guard += 1
        if guard > 3 * len(enc) + 10:
            raise RuntimeError('oracle does not terminate')
        suffix = enc[pos:]
        m, far, dis = orc.match(st, suffix, use_re)
        if dis:
            disagreements.append({'state': st, 'at': pos, 'detail': repr(dis)})
        if m is None:
            remaining = real_chars(suffix)
            return toks, ('error' if remaining else 'free'), flags, disagreements
        ln, ridx, tie = m
        rule = lex['states'][st][ridx]
        toks.append((expected_label(rule, (st, ridx)), real_chars(enc[pos:pos + ln])))
        flags.append((tie, far > ln, st, ridx))
        pos += ln
        a = rule['act']
        if a.startswith('begin:'):
            st = a[6:]
        elif a.startswith('callbegin:'):
            st = a[10:]


# ------------------------------------------------------------------ building the real lexicon
class SlowStream:
    """stream whose read(n) returns at most k characters (forces many buffer refills)"""

    def __init__(self, text, k):
        self.text, self.k, self.p = text, k, 0

    def read(self, n):
        n = min(n, self.k)
        s = self.text[self.p:self.p + n]
        self.p += len(s)
        return s


def build_re(P, ast):
    k = ast[0]
    if k == 'str':
        return P.Str(ast[1])
    if k == 'strs':
        return P.Str(*ast[1])
    if k == 'any':
        return P.Any(ast[1])
    if k == 'anybut':
        return P.AnyBut(ast[1])
    if k == 'anychar':
        return P.AnyChar
    if k == 'range':
        return P.Range(ast[1], ast[2])
    if k == 'range2':
        return P.Range(ast[1])
    if k == 'seq':
        if len(ast) == 3:
            return build_re(P, ast[1]) + build_re(P, ast[2])      # the operator form
        return P.Seq(*[build_re(P, a) for a in ast[1:]])
    if k == 'alt':
        if len(ast) == 3:
            return build_re(P, ast[1]) | build_re(P, ast[2])
        return P.Alt(*[build_re(P, a) for a in ast[1:]])
    if k == 'rep':
        return P.Rep(build_re(P, ast[1]))
    if k == 'rep1':
        return P.Rep1(build_re(P, ast[1]))
    if k == 'opt':
        return P.Opt(build_re(P, ast[1]))
    if k == 'bol':
        return P.Bol
    if k == 'eol':
        return P.Eol
    if k == 'eof':
        return P.Eof
    if k == 'empty':
        return P.Empty
    if k == 'nocase':
        return P.NoCase(build_re(P, ast[1]))
    if k == 'case':
        return P.Case(build_re(P, ast[1]))
    raise ValueError(ast)


def build_lexicon(P, lex):
    def mk_call(label, begin=None):
        def fn(scanner, text):
            if begin is not None:
                scanner.begin(begin)
            return label
        fn.label = label
        return fn

    specs = []
    for st in lex['order']:
        toks = []
        for idx, rule in enumerate(lex['states'][st]):
            a = rule['act']
            label = 'r%s/%d' % (st, idx)
            if a == 'ret':
                act = label
            elif a == 'text':
                act = P.TEXT
            elif a == 'ignore':
                act = P.IGNORE
            elif a.startswith('begin:'):
                act = P.Begin(a[6:])
            elif a == 'call':
                act = mk_call(label)
            elif a.startswith('callbegin:'):
                act = mk_call(label, a[10:])
            else:
                raise ValueError(a)
            toks.append((build_re(P, rule['re']), act))
        if st == '':
            specs.extend(toks)
        else:
            specs.append(P.State(st, toks))
    return P.Lexicon(specs)


def action_label(A, action):
    if isinstance(action, A.Return):
        return action.value
    if isinstance(action, A.Call):
        return action.function.label
    if isinstance(action, A.Begin):
        return 'Begin(%s)' % action.state_name
    return repr(action)


def real_tokens(P, A, E, lexicon, text, maxtok, stream=None):
    """drive the real scanner token by token: [(label, text)], end in EOF / ERR / LIMIT"""
    sc = P.Scanner(lexicon, stream if stream is not None else io.StringIO(text), 'in')
    toks = []
    while True:
        if len(toks) > maxtok:
            return toks, 'LIMIT'
        try:
            t, action = sc.scan_a_token()
        except E.UnrecognizedInput:
            return toks, 'ERR'
        if action is None:
            return toks, 'EOF'
        toks.append((action_label(A, action), t))
        sc.text = t
        action.perform(sc, t)


def real_read(P, E, lexicon, text, maxtok):
    """the public API: Scanner.read() -> visible tokens only"""
    sc = P.Scanner(lexicon, io.StringIO(text), 'in')
    toks = []
    while True:
        if len(toks) > maxtok:
            return toks, 'LIMIT'
        try:
            v, t = sc.read()
        except E.UnrecognizedInput:
            return toks, 'ERR'
        if v is None:
            return toks, 'EOF'
        toks.append((v, t))


# ------------------------------------------------------------------ generators
LETTERS = 'abc'


def gen_re(rng, depth, alpha, st):
    """random AST; alpha = letters available (may contain upper case)"""
    leafs = ['str', 'str', 'str', 'any', 'anybut', 'range', 'bol', 'eol', 'anychar', 'strs', 'range2', 'eof', 'empty', 'strnl']
    comps = ['seq', 'seq', 'alt', 'alt', 'rep', 'rep1', 'opt', 'nocase', 'case']
    if depth <= 0 or rng.random() < 0.3:
        k = rng.choice(leafs)
    else:
        k = rng.choice(comps)
    st[k] = st.get(k, 0) + 1
    letters = alpha.replace('\n', '')
    if k == 'str':
        return ['str', ''.join(rng.choice(letters) for _ in range(rng.choice([1, 1, 2, 2, 3])))]
    if k == 'strnl':
        s = ''.join(rng.choice(alpha) for _ in range(rng.choice([1, 2, 3])))
        return ['str', s + ('\n' if '\n' not in s and rng.random() < 0.5 else '')] if s else ['str', '\n']
    if k == 'strs':
        return ['strs', [''.join(rng.choice(letters) for _ in range(rng.choice([1, 2, 3]))) for _ in range(rng.choice([2, 3]))]]
    if k == 'any':
        return ['any', ''.join(rng.sample(alpha, rng.choice([1, 2, 2, 3])))]
    if k == 'anybut':
        return ['anybut', ''.join(rng.sample(alpha, rng.choice([0, 1, 1, 2, 3])))]
    if k == 'anychar':
        return ['anychar']
    if k == 'range':
        pool = ''.join(dict.fromkeys(letters + ('xyXY' if 'z' in letters.lower() else 'dD' if letters.lower() != letters else 'd')))
        lo, hi = sorted(rng.sample(pool, 2))
        return ['range', lo, hi]
    if k == 'range2':
        return ['range2', rng.choice(['abAB', 'acAC', 'bc', 'aaBB', 'AZ', '\n\naa', '\x00\x7f', 'az', 'yz', 'AY', 'bzBY', '@[', '`{'])]
    if k in ('bol', 'eol', 'eof', 'empty'):
        return [k]
    if k in ('seq', 'alt'):
        n = rng.choice([2, 2, 2, 3])
        return [k] + [gen_re(rng, depth - 1, alpha, st) for _ in range(n)]
    return [k, gen_re(rng, depth - 1, alpha, st)]


LINE_RULE = ['seq', ['eol'], ['opt', ['str', '\n']]]


def gen_lexicon(rng, st):
    nocase_wanted = rng.random() < 0.3
    if nocase_wanted:
        alpha = rng.choice(['abA\n', 'aAb\n', 'abB\n', 'aAB\n', 'bBc\n', 'ABc\n', 'azZ\n', 'yzY\n', 'AZz\n', 'aZ\n@', 'z[`\n'])
    else:
        alpha = 'abc\n'
    two_states = rng.random() < 0.25
    names = ['', 's1'] if two_states else ['']
    states = {}
    for nm in names:
        rules = []
        nr = rng.choice([1, 2, 2, 3, 3, 4])
        tries = 0
        while len(rules) < nr and tries < 50:
            tries += 1
            ast = gen_re(rng, rng.choice([1, 2, 2, 3]), alpha, st)
            if nocase_wanted and rng.random() < 0.5:
                ast = ['nocase', ast]
            if nullable(translate(ast)) or translate(ast) == NUL:
                st['rejected_nullable_or_void'] = st.get('rejected_nullable_or_void', 0) + 1
                continue
            kinds = ['ret', 'ret', 'ret', 'call', 'text', 'ignore']
            if two_states:
                other = 's1' if nm == '' else ''
                kinds += ['begin:' + other, 'callbegin:' + other, 'begin:' + nm]
            rules.append({'re': ast, 'act': rng.choice(kinds)})
        if not rules:
            rules.append({'re': ['str', 'a'], 'act': 'ret'})
        # the line-structure rule Cython's own lexicon has (any priority), optionally an Eof rule
        rules.insert(rng.randrange(len(rules) + 1), {'re': LINE_RULE, 'act': rng.choice(['ret', 'ignore', 'ret'])})
        if rng.random() < 0.3:
            rules.insert(rng.randrange(len(rules) + 1), {'re': ['eof'], 'act': 'ret'})
        states[nm] = rules
    order = list(names)
    if two_states and rng.random() < 0.5:
        order.reverse()          # State(...) item before the default-state tokens
    return {'states': states, 'order': order, 'alphabet': alpha}


def all_strings(alpha, maxlen):
    out = ['']
    level = ['']
    for _ in range(maxlen):
        level = [s + c for s in level for c in alpha]
        out.extend(level)
    return out


def ast_kinds(ast, acc):
    acc.add(ast[0])
    if ast[0] != 'strs':
        for x in ast[1:]:
            if isinstance(x, list):
                ast_kinds(x, acc)
    return acc


def lex_features(lex):
    ks = set()
    for rules in lex['states'].values():
        for r in rules:
            ast_kinds(r['re'], ks)
    f = []
    if 'nocase' in ks:
        f.append('nocase')
    if len(lex['states']) > 1:
        f.append('states')
    if 'anybut' in ks or 'anychar' in ks:
        f.append('else')
    return f


# ------------------------------------------------------------------ structural contracts on the mirror
class Contracts:
    def __init__(self):
        self.n = {'transitionmap_mutations': 0, 'statemap_new_states': 0, 'dfa_states': 0}
        self.fail = []

    def install(self):
        from Cython.Plex import Transitions, DFA, Machines
        TM = Transitions.TransitionMap
        maxint = Transitions.maxint
        me = self

        def check_map(tm, where):
            m = tm.map
            me.n['transitionmap_mutations'] += 1
            ok = (len(m) >= 3 and len(m) % 2 == 1 and m[0] == -maxint and m[-1] == maxint
                  and all(m[i] < m[i + 2] for i in range(0, len(m) - 2, 2))
                  and all(isinstance(m[i], set) for i in range(1, len(m), 2)))
            if not ok and len(me.fail) < 5:
                me.fail.append({'contract': 'transitionmap-invariant', 'where': where, 'map': repr(m)[:400]})

        for name in ('add', 'add_set'):
            orig = getattr(TM, name)

            def wrapped(self, event, x, _orig=orig, _name=name):
                before = None
                if type(event) is tuple:
                    before = [(self.map[i], set(self.map[i + 1]), self.map[i + 2]) for i in range(0, len(self.map) - 1, 2)]
                r = _orig(self, event, x)
                check_map(self, _name)
                if before is not None:
                    # pointwise: codes inside [code0, code1) gained x, the others are unchanged
                    add = {x} if _name == 'add' else set(x)
                    code0, code1 = event
                    for probe in {code0 - 1, code0, code1 - 1, code1, 0, 97, 98, 10, -maxint, maxint - 1}:
                        if not (-maxint <= probe < maxint):
                            continue
                        old = next((s for (a, s, b) in before if a <= probe < b), None)
                        m = self.map
                        new = next((m[i + 1] for i in range(0, len(m) - 1, 2) if m[i] <= probe < m[i + 2]), None)
                        want = (old | add) if code0 <= probe < code1 else old
                        if new != want and len(me.fail) < 5:
                            me.fail.append({'contract': 'transitionmap-pointwise', 'where': _name, 'event': repr(event),
                                            'probe': probe, 'expected': repr(want), 'observed': repr(new)})
                return r
            setattr(TM, name, wrapped)

        SM = DFA.StateMap
        orig_o2n = SM.old_to_new
        LOWEST = Machines.LOWEST_PRIORITY

        def old_to_new(self, old_state_set):
            new_state = orig_o2n(self, old_state_set)
            me.n['statemap_new_states'] += 1
            best, bp = None, LOWEST
            for s in sorted(old_state_set, key=lambda s: s.number):
                if s.action is not None and s.action_priority > bp:
                    best, bp = s.action, s.action_priority
            if new_state['action'] is not best and len(me.fail) < 5:
                me.fail.append({'contract': 'dfa-state-action-is-highest-priority', 'expected': repr(best),
                                'observed': repr(new_state['action'])})
            return new_state
        SM.old_to_new = old_to_new


# ------------------------------------------------------------------ comparison
def compare(exp_toks, exp_end, got_toks, got_end, flags):
    """None if consistent, else (kind, index)"""
    n = len(exp_toks)
    for i in range(min(n, len(got_toks))):
        if exp_toks[i] != got_toks[i]:
            e, g = exp_toks[i], got_toks[i]
            if e[1] == g[1]:
                kind = 'wrong-rule'
            elif len(g[1]) > len(e[1]):
                kind = 'match-too-long'
            elif len(g[1]) < len(e[1]):
                kind = 'match-too-short'
            else:
                kind = 'wrong-text'
            return kind, i
    if len(got_toks) < n:
        return ('error-where-a-rule-matches' if got_end == 'ERR' else
                'end-of-file-where-a-rule-matches' if got_end == 'EOF' else 'limit'), len(got_toks)
    if len(got_toks) > n:
        return 'match-where-no-rule-matches', n
    if got_end == 'LIMIT':
        return 'scanner-does-not-stop', n
    if exp_end == 'error' and got_end != 'ERR':
        return 'unmatched-input-not-reported', n
    return None


def visible(lex, exp_toks, flags):
    """what Scanner.read() shows of the expected tokens"""
    out = []
    for (lab, text), (_, _, st, ridx) in zip(exp_toks, flags):
        a = lex['states'][st][ridx]['act']
        if a in ('ret', 'call') or a.startswith('callbegin:'):
            out.append((lab, text))
        elif a == 'text':
            out.append((text, text))
    return out


def main():
    spec = json.load(open(sys.argv[1]))
    mroot = os.path.realpath(spec['mirror'])
    import Cython.Plex as P
    from Cython.Plex import Actions as A, Errors as E, Scanners, Regexps, Machines, DFA, Transitions, Lexicons
    files = [m.__file__ for m in (P, A, E, Scanners, Regexps, Machines, DFA, Transitions, Lexicons)]
    mirror_ok = all(f.endswith('.py') and os.path.realpath(f).startswith(mroot + os.sep) for f in files)
    out = {'mirror_ok': mirror_ok, 'module_files': files}
    if not mirror_ok:
        json.dump(out, open(sys.argv[2], 'w'))
        return 3
    contracts = Contracts()
    contracts.install()

    stats = {'lexicons': 0, 'cases': 0, 'tokens': 0, 'positions_tie': 0, 'positions_backup': 0, 'positions': 0,
             'end_error': 0, 'end_free': 0, 'end_free_real_ERR': 0, 'end_free_real_EOF': 0, 'read_api_cases': 0,
             'long_inputs': 0, 'refills_crossed': 0, 'oracle_disagreements': 0, 'lexicon_build_errors': 0,
             'nontrivial_cases': 0, 'features': {}, 'constructors': {}, 'actions': {}}
    disc = {}
    oracle_dis = []
    samples = []

    def record(key, lex, text, mode, detail):
        size = len(json.dumps(lex)) + len(text)
        e = disc.get(key)
        if e is None:
            disc[key] = {'count': 1, 'size': size, 'lexicon': lex, 'input': text, 'mode': mode, 'detail': detail}
        else:
            e['count'] += 1
            if size < e['size']:
                e.update({'size': size, 'lexicon': lex, 'input': text, 'mode': mode, 'detail': detail})

    def judge(lex, lexicon, orc, text, feats, mode, stream_k=None):
        use_re = True
        exp_toks, exp_end, flags, dis = oracle_tokens(lex, orc, text, use_re)
        if dis:
            stats['oracle_disagreements'] += len(dis)
            if len(oracle_dis) < 5:
                oracle_dis.append({'lexicon': lex, 'input': text, 'detail': dis[:3]})
            return
        maxtok = 3 * len(text) + 12
        if mode == 'read':
            got_toks, got_end = real_read(P, E, lexicon, text, maxtok)
            e_toks = visible(lex, exp_toks, flags)
            stats['read_api_cases'] += 1
        else:
            stream = SlowStream(text, stream_k) if stream_k else None
            got_toks, got_end = real_tokens(P, A, E, lexicon, text, maxtok, stream)
            e_toks = exp_toks
        stats['cases'] += 1
        stats['tokens'] += len(exp_toks)
        if mode != 'read':
            nt = False
            for tie, backup, _, _ in flags:
                stats['positions'] += 1
                if tie:
                    stats['positions_tie'] += 1
                if backup:
                    stats['positions_backup'] += 1
                nt = nt or tie or backup
            if nt or len(exp_toks) >= 3:
                stats['nontrivial_cases'] += 1
            if exp_end == 'error':
                stats['end_error'] += 1
            else:
                stats['end_free'] += 1
                if len(got_toks) == len(e_toks):
                    stats['end_free_real_' + ('ERR' if got_end == 'ERR' else 'EOF')] += 1
        bad = compare(e_toks, exp_end, got_toks, got_end, flags)
        if bad:
            kind, i = bad
            tags = list(feats)
            if mode != 'read' and i < len(flags):
                if flags[i][0]:
                    tags.append('tie')
                if flags[i][1]:
                    tags.append('backup')
            if len(text) > 3000:
                tags.append('refill')
            key = kind + ''.join('+' + t for t in tags) + (':read-api' if mode == 'read' else '')
            record(key, lex, text if len(text) < 300 else text, mode,
                   {'expected': e_toks[max(0, i - 2):i + 2], 'expected_end': exp_end, 'observed': got_toks[max(0, i - 2):i + 2],
                    'observed_end': got_end, 'token_index': i, 'stream_chunk': stream_k})

    rng = random.Random(spec['seed'])
    maxlen = spec.get('maxlen', 5)
    n_long = spec.get('long_inputs', 0)
    strings_cache = {}
    for li in range(spec['lexicons']):
        gst = stats['constructors']
        lex = gen_lexicon(rng, gst)
        try:
            lexicon = build_lexicon(P, lex)
        except Exception as ex:
            stats['lexicon_build_errors'] += 1
            record('lexicon-construction:' + type(ex).__name__, lex, '', 'build', {'error': repr(ex)[:300]})
            continue
        stats['lexicons'] += 1
        stats['dfa_states'] = stats.get('dfa_states', 0) + len(lexicon.machine.states)
        for rules in lex['states'].values():
            for r in rules:
                a = r['act'].split(':')[0]
                stats['actions'][a] = stats['actions'].get(a, 0) + 1
        feats = lex_features(lex)
        for f in feats or ['plain']:
            stats['features'][f] = stats['features'].get(f, 0) + 1
        orc = Oracle(lex)
        alpha = lex['alphabet']
        strs = strings_cache.get(alpha)
        if strs is None:
            strs = strings_cache[alpha] = all_strings(alpha, maxlen)
        for si, text in enumerate(strs):
            judge(lex, lexicon, orc, text, feats, 'scan')
            if si % 7 == li % 7:
                judge(lex, lexicon, orc, text, feats, 'read')
        if len(samples) < 2 and li % 5 == 0:
            t = strs[len(strs) // 2 + li]
            samples.append({'lexicon': lex, 'input': t, 'expected_tokens': oracle_tokens(lex, orc, t)[0]})
        # long inputs across the 4096-character buffer refill
        if n_long and li % max(1, spec['lexicons'] // n_long) == 0:
            wide = alpha + 'zሴ' + ('\U00010400' if rng.random() < 0.3 else '')
            for ln, k in ((4096 + rng.randrange(-6, 7), None), (8192 + rng.randrange(-6, 7), None), (700, 7), (4200, 1000)):
                weights = [rng.choice([1, 3, 8]) for _ in wide]
                text = ''.join(rng.choices(wide, weights, k=ln))
                stats['long_inputs'] += 1
                stats['refills_crossed'] += (ln // (k or 4096))
                judge(lex, lexicon, orc, text, feats, 'scan', stream_k=k)
            orc.memo.clear()
        _d_memo.clear()
        _null_memo.clear()
    out.update({'stats': stats, 'disc': disc, 'oracle_disagreement_examples': oracle_dis, 'samples': samples,
                'contracts': contracts.n, 'contract_failures': contracts.fail})
    with open(sys.argv[2], 'w') as f:
        json.dump(out, f)
    return 0


if __name__ == '__main__':
    sys.exit(main())
