"""C27 cpdef calls reach the most-derived override (DESIGN.md section 5, C27).

Generated .pyx hierarchies: cdef class A (cpdef m0, m1), cdef subclass B(A) overriding a subset, optional leaf
with `cdef dict __dict__`; C-level entry points (typed-argument def, cdef function, self.m() inside a method).
The driver builds Python subclasses (1-2 levels, generated overrides, some calling super()) and instances, then
runs generated histories of {class attribute set/replace/delete on Python subclasses, instance attribute
set/delete, new subclass creation, calls through every route}.  Reference = the same template rendered as plain
Python classes (`cdef class`->`class` + `__slots__`, `cpdef`->`def`, typed arguments untyped).  Each call returns a
tag naming the implementation that ran.  Only Python subclasses (and instance dicts) are mutated (DESIGN FA).
"""
import re
import time
from concurrent.futures import ThreadPoolExecutor

from vlib import core, cy, diff

METHODS = ['m0', 'm1']
ROUTES = ['py', 'c', 'cdef', 'self', 'unbound']


def family_pyx(f, b_over, leaf_dict):
    out = []
    out.append('cdef class A_%s:' % f)
    for m in METHODS:
        out.append("    cpdef %s(self):\n        return 'A.%s'" % (m, m))
        out.append('    def via_self_%s(self):\n        return self.%s()' % (m, m))
    out.append('')
    out.append('cdef class B_%s(A_%s):' % (f, f))
    if not b_over:
        out.append('    pass')
    for m in b_over:
        out.append("    cpdef %s(self):\n        return 'B.%s'" % (m, m))
    out.append('')
    out.append('cdef class L_%s(B_%s):' % (f, f))
    out.append('    cdef dict __dict__' if leaf_dict else '    pass')
    out.append('')
    for m in METHODS:
        out.append('def call_c_%s_%s(A_%s o):\n    return o.%s()\n' % (m, f, f, m))
        out.append('cdef _cc_%s_%s(A_%s o):\n    return o.%s()\n' % (m, f, f, m))
        out.append('def call_cdef_%s_%s(A_%s o):\n    return _cc_%s_%s(o)\n' % (m, f, f, m, f))
    return '\n'.join(out)


def py_render(pyx):
    """reference rendering: plain Python classes; classes without `cdef dict __dict__` get empty __slots__ so that
    instance attribute assignment fails exactly like on the extension type"""
    lines = []
    src = pyx.split('\n')
    i = 0
    while i < len(src):
        ln = src[i]
        m = re.match(r'cdef class (\w+)(\(\w+\))?:', ln)
        if m:
            lines.append('class %s%s:' % (m.group(1), m.group(2) or ''))
            # look ahead for the dict declaration inside this class body
            j = i + 1
            has_dict = False
            while j < len(src) and (src[j].startswith('    ') or not src[j].strip()):
                if src[j].strip() == 'cdef dict __dict__':
                    has_dict = True
                j += 1
            lines.append("    __slots__ = ('__dict__',)" if has_dict else '    __slots__ = ()')
            i += 1
            continue
        if ln.strip() == 'cdef dict __dict__':
            i += 1
            continue
        ln = re.sub(r'^(\s*)cpdef ', r'\1def ', ln)
        ln = re.sub(r'^cdef (_cc_\w+)\(A_\w+ o\):', r'def \1(o):', ln)
        ln = re.sub(r'^def (call_\w+)\(A_\w+ o\):', r'def \1(o):', ln)
        lines.append(ln)
        i += 1
    return '\n'.join(lines)


SETUP = r'''
def _mkcls(ns, M, fam, name, base, overs):
    """Python subclass `name` of `base` overriding methods: overs = {meth: (tag, use_super)}"""
    b = ns[base] if base in ns else getattr(M, base + '_' + fam)
    body = []
    for meth, (tag, sup) in sorted(overs.items()):
        if sup:
            body.append("    def %s(self):\n        return %r + '>' + super().%s()" % (meth, tag, meth))
        else:
            body.append("    def %s(self):\n        return %r" % (meth, tag))
    src = 'class %s(_Base):\n%s\n' % (name, '\n'.join(body) if body else '    pass')
    d = {'_Base': b}
    exec(src, d)
    ns[name] = d[name]

def _fn(tag):
    def f(self):
        return tag
    f.__name__ = 'fn'
    return f

def _obs(f, *a):
    try:
        return f(*a)
    except Exception as e:
        return '<%s>' % type(e).__name__

def hist(M, fam, steps):
    ns = {}
    out = []
    for st in steps:
        op = st[0]
        if op == 'mkcls':
            out.append(_obs(_mkcls, ns, M, fam, st[1], st[2], st[3]))
        elif op == 'mkobj':
            c = ns[st[2]] if st[2] in ns else getattr(M, st[2] + '_' + fam)
            ns[st[1]] = c()
            out.append(None)
        elif op == 'cset':
            out.append(_obs(setattr, ns[st[1]], st[2], _fn(st[3])))
        elif op == 'cdel':
            out.append(_obs(delattr, ns[st[1]], st[2]))
        elif op == 'iset':
            tag = st[3]
            out.append(_obs(setattr, ns[st[1]], st[2], lambda tag=tag: tag))
        elif op == 'idel':
            out.append(_obs(delattr, ns[st[1]], st[2]))
        elif op == 'call':
            route, o, meth = st[1], ns[st[2]], st[3]
            if route == 'py':
                out.append(_obs(lambda: getattr(o, meth)()))
            elif route == 'c':
                out.append(_obs(getattr(M, 'call_c_%s_%s' % (meth, fam)), o))
            elif route == 'cdef':
                out.append(_obs(getattr(M, 'call_cdef_%s_%s' % (meth, fam)), o))
            elif route == 'self':
                out.append(_obs(lambda: getattr(o, 'via_self_' + meth)()))
            elif route == 'unbound':
                out.append(_obs(getattr(getattr(M, st[4] + '_' + fam), meth), o))
        else:
            raise AssertionError(st)
    return out
'''


def gen_history(rng, nsteps, b_over):
    """returns (steps list as python objects, info)"""
    steps = []
    classes = {}     # python class name -> (base, level)
    objs = {}        # obj name -> class name (python or cdef short name 'A','B','L')
    counter = [0]

    def tag(prefix):
        counter[0] += 1
        return '%s#%d' % (prefix, counter[0])

    def new_class(base=None):
        name = 'P%d' % len(classes)
        if base is None:
            cands = ['A', 'B', 'L'] + [c for c, (b, lv) in classes.items() if lv < 2]
            base = rng.choice(cands + [c for c in classes if classes[c][1] < 2] * 2)
        level = 1 if base in ('A', 'B', 'L') else classes[base][1] + 1
        overs = {}
        for m in METHODS:
            r = rng.random()
            if r < 0.35:
                overs[m] = (tag(name + '.' + m), rng.random() < 0.4)
        classes[name] = (base, level)
        steps.append(('mkcls', name, base, overs))
        return name

    def new_obj(cls=None):
        name = 'o%d' % len(objs)
        if cls is None:
            cls = rng.choice(list(classes) * 3 + ['A', 'B', 'L'])
        objs[name] = cls
        steps.append(('mkobj', name, cls))
        return name

    # initial population: 1-2 python levels and a few objects
    c1 = new_class(rng.choice(['A', 'B', 'B', 'L']))
    if rng.random() < 0.7:
        c2 = new_class(c1)
    new_obj(list(classes)[-1] if rng.random() < 0.7 else rng.choice(list(classes)))
    if rng.random() < 0.6:
        new_obj()
    focus_m = rng.choice(METHODS)
    focus_route = rng.choice(['c', 'cdef', 'self', 'c', 'py'])
    while len(steps) < nsteps:
        r = rng.random()
        o = rng.choice(list(objs))
        m = focus_m if rng.random() < 0.75 else rng.choice(METHODS)
        if r < 0.40:
            route = focus_route if rng.random() < 0.6 else rng.choice(ROUTES)
            if route == 'unbound':
                # explicit base-class call: choose a cdef class in the receiver's ancestry
                c = objs[o]
                while c not in ('A', 'B', 'L'):
                    c = classes[c][0]
                anc = {'A': ['A'], 'B': ['A', 'B'], 'L': ['A', 'B', 'L']}[c]
                steps.append(('call', route, o, m, rng.choice(anc)))
            else:
                steps.append(('call', route, o, m))
                if rng.random() < 0.35:
                    # probe triple: call, mutate something the lookup of (o, m) depends on, call again at the same site
                    c = objs[o]
                    chain = []
                    while c not in ('A', 'B', 'L'):
                        chain.append(c)
                        c = classes[c][0]
                    q = rng.random()
                    if chain and q < 0.6:
                        pc = rng.choice(chain)
                        steps.append(('cset', pc, m, tag(pc + '.' + m + '=fn')))
                    elif chain and q < 0.75:
                        steps.append(('cdel', rng.choice(chain), m))
                    elif q < 0.9:
                        steps.append(('iset', o, m, tag(o + '.' + m + '=inst')))
                    else:
                        steps.append(('idel', o, m))
                    steps.append(('call', route, o, m))
        elif r < 0.65:
            # class attribute set on a python class, biased to the ancestry of a live object
            c = objs[o]
            chain = []
            while c not in ('A', 'B', 'L'):
                chain.append(c)
                c = classes[c][0]
            if chain and rng.random() < 0.85:
                c = rng.choice(chain + chain[1:] * 2)   # prefer intermediate Python base classes
            else:
                c = rng.choice(list(classes))
            steps.append(('cset', c, m, tag(c + '.' + m + '=fn')))
        elif r < 0.75:
            c = rng.choice(list(classes))
            steps.append(('cdel', c, m))
        elif r < 0.87:
            steps.append(('iset', o, m, tag(o + '.' + m + '=inst')))
        elif r < 0.93:
            steps.append(('idel', o, m))
        elif r < 0.97 and len(classes) < 5:
            new_obj(new_class())
        else:
            if len(objs) < 5:
                new_obj()
    return steps, {'classes': classes, 'objs': objs}


def reach_stats(histories):
    """C-level calls after a mutation since the previous call at that site (site = route+method)"""
    ccalls = after = 0
    for steps in histories:
        last_call = {}
        nmut = 0
        for st in steps:
            if st[0] == 'call':
                if st[1] in ('c', 'cdef', 'self'):
                    ccalls += 1
                    site = (st[1], st[3])
                    # the previous call at this site may be in the previous history (static per-site cache): the classes
                    # and instances of this history were created after it
                    if last_call.get(site, 0) < nmut:
                        after += 1
                    last_call[site] = nmut
            elif st[0] in ('cset', 'cdel', 'iset', 'idel', 'mkcls'):
                nmut += 1
    return ccalls, after


def classify(cfgname, fam_meta, steps, info, exp, got):
    if exp[0] != 'ok' or got[0] != 'ok':
        return 'history-level:%s->%s' % (exp[0] + ':' + str(exp[1])[:30], got[0] + ':' + str(got[1])[:30])
    el, gl = exp[1][1], got[1][1]
    idx = next((i for i in range(min(len(el), len(gl))) if el[i] != gl[i]), None)
    if idx is None:
        return 'length-differs'
    st = steps[idx]
    if st[0] != 'call':
        return 'mutation-step-outcome:%s:%s->%s' % (st[0], el[idx][1], gl[idx][1])
    route, o, m = st[1], st[2], st[3]
    classes, objs = info['classes'], info['objs']
    c = objs[o]
    chain = []
    while c not in ('A', 'B', 'L'):
        chain.append(c)
        c = classes[c][0]
    recv = 'cdef-instance%s' % ('-with-dict' if c == 'L' and fam_meta['leaf_dict'] else '') if not chain else \
        'python-subclass-level%d' % len(chain)
    # last mutation relevant to (o, m) before the call
    last = 'none'
    for s in steps[:idx]:
        if s[0] in ('cset', 'cdel') and s[2] == m and s[1] in chain:
            pos = chain.index(s[1])
            last = '%s-on-%s' % ({'cset': 'class-attr-set', 'cdel': 'class-attr-del'}[s[0]],
                                 'own-class' if pos == 0 else 'python-base-class')
        elif s[0] in ('iset', 'idel') and s[1] == o and s[2] == m:
            last = {'iset': 'instance-attr-set', 'idel': 'instance-attr-del'}[s[0]]
    e, g = el[idx][1].strip("'"), gl[idx][1].strip("'")
    # where does the implementation CPython selected live?
    owner = e.split('>')[0].split('.')[0]
    if owner in chain:
        where = 'own-class' if chain.index(owner) == 0 else 'python-base-class'
    elif owner in objs:
        where = 'instance-dict'
    elif owner in ('A', 'B'):
        where = 'cdef-class'
    else:
        where = 'none(%s)' % (e if e.startswith('<') else '?')

    def k(t):
        if t.startswith('<'):
            return t
        if t.startswith('A.') or t.startswith('B.'):
            return 'cdef-impl'
        if '=inst' in t:
            return 'instance-attr'
        if '=fn' in t:
            return 'assigned-class-attr'
        return 'python-override'
    return 'route=%s:%s:expected-impl-in=%s:%s->%s' % (route, recv, where, k(e), k(g))


def main(ck):
    tree = cy.Tree('C27')
    fams = []
    n = 0
    for b_over in ([], ['m0'], ['m1'], ['m0', 'm1']):
        for leaf_dict in (False, True):
            fams.append({'f': 'f%d' % n, 'b_over': b_over, 'leaf_dict': leaf_dict})
            n += 1
    pyx = '\n\n'.join(family_pyx(fm['f'], fm['b_over'], fm['leaf_dict']) for fm in fams) + '\n'
    ref = py_render(pyx)
    configs = [('default', []), ('dictversions', ['-DCYTHON_USE_DICT_VERSIONS=1'])]
    if not ck.quick:
        configs.append(('noversions', ['-DCYTHON_USE_DICT_VERSIONS=0']))
        configs.append(('notypeslots', ['-DCYTHON_USE_TYPE_SLOTS=0']))
    nh = ck.pick(150, 2000)
    nsteps = ck.pick((8, 16), (10, 40))

    def build(cfg):
        d, info = tree.build_sources({'c27m': pyx}, subdir='b_' + cfg[0], ext='.pyx', cflags=cfg[1])
        return d, info['c27m']

    t0 = time.time()
    with ThreadPoolExecutor(len(configs)) as ex:
        built = list(ex.map(build, configs))
    ck.cov['build_s'] = round(time.time() - t0, 1)
    jobs = []
    static = {}
    reach = {}
    skipped = []
    for (cfgname, cflags), (d, inf) in zip(configs, built):
        if not inf['ok']:
            skipped.append(cfgname)
            ck.note('build failure %s at %s: %s' % (cfgname, inf['stage'], inf['errors'][-500:]))
            continue
        ctext = open(inf['c'], encoding='utf-8', errors='replace').read()
        r = core.run(['gcc', '-E', '-dM', '-I' + cy.PY_INC] + cflags + [inf['c']], timeout=300, as_gb=0)
        m = re.search(r'#define CYTHON_USE_DICT_VERSIONS (.*)', r.out or '')
        static[cfgname] = {'override_checks_with_version_cache': len(re.findall(r'__Pyx_object_dict_version_matches\(', ctext)),
                           'override_checks': len(re.findall(r'Check if overridden in Python', ctext)),
                           'CYTHON_USE_DICT_VERSIONS': m.group(1).strip() if m else '?'}
        refpath = inf['src'] + '.ref.py'
        with open(refpath, 'w') as f:
            f.write(ref)
        cases = []
        metas = []
        hs = []
        for fm in fams:
            rng = ck.rng('h:%s:%s' % (cfgname, fm['f']))
            for i in range(nh):
                steps, info = gen_history(rng, rng.randint(*nsteps), fm['b_over'])
                hs.append(steps)
                cases.append({'x': 'hist(M, %r, %r)' % (fm['f'], steps), 't': cfgname + '/' + fm['f'], '_i': len(metas)})
                metas.append((fm, steps, info))
        cc, after = reach_stats(hs)
        reach[cfgname] = {'histories': len(hs), 'c_level_calls': cc, 'after_mutation_since_previous_call_at_site': after,
                          'fraction': round(after / max(1, cc), 3)}
        jobs.append((cfgname, cflags, d, inf, refpath, cases, metas))

    def run_one(job):
        cfgname, cflags, d, inf, refpath, cases, metas = job
        return diff.run_cases(tree, d, 'c27m', cases, ref=refpath, compare={'exc_args': False, 'log': False},
                              setup=SETUP, tagdir='run_' + cfgname, timeout=900, nproc=ck.pick(3, 6))

    t0 = time.time()
    with ThreadPoolExecutor(len(jobs) or 1) as ex:
        results = list(ex.map(run_one, jobs))
    ck.cov['run_s'] = round(time.time() - t0, 1)
    total_n = total_distinct = 0
    samples = []
    per_config = {}
    for (cfgname, cflags, d, inf, refpath, cases, metas), res in zip(jobs, results):
        total_n += res.n
        total_distinct += res.distinct
        samples.extend(res.samples[:2])
        per_config[cfgname] = {'histories_run': res.n, 'mismatching': res.nmismatch}
        for m in res.mismatches:
            fm, steps, info = metas[m['case']['_i']]
            key = cfgname_key(cfgname) + ':' + classify(cfgname, fm, steps, info, m['exp'], m['got'])
            ck.discrepancy(key, 'config %s family %s (B overrides %s, leaf dict %s): %s: Python classes %s, cdef classes %s' % (
                cfgname, fm['f'], fm['b_over'], fm['leaf_dict'], m['case']['x'][:400], str(m['exp'])[:300], str(m['got'])[:300]),
                {'module_source': pyx, 'ref_source': ref, 'ext': '.pyx', 'case': m['case'], 'setup': SETUP, 'cflags': cflags,
                 'config': cfgname, 'expected': m['exp'], 'observed': m['got']})
        for c in res.crashes:
            ck.discrepancy('crash:%s' % cfgname, 'crash/hang %s on %s' % (c['kind'], c['case']['x'][:300]),
                           {'module_source': pyx, 'ref_source': ref, 'ext': '.pyx', 'case': c['case'], 'setup': SETUP,
                            'cflags': cflags, 'config': cfgname, 'stderr': c['stderr']})
        for ft in res.fatal:
            ck.inconclusive_if(True, 'driver failed for %s: %s' % (cfgname, str(ft)[-400:]))
    required = [c for c in skipped if c in ('default', 'dictversions')]
    ck.inconclusive_if(bool(required), 'required configuration(s) failed to build: %s' % required)
    if skipped and not required:
        ck.cov['configs_not_buildable_here'] = skipped
    dv = static.get('dictversions', {})
    ck.inconclusive_if(dv.get('CYTHON_USE_DICT_VERSIONS') != '1' or not dv.get('override_checks_with_version_cache'),
                       'override check with dict-version cache not compiled in (%r)' % dv)
    for name, r in reach.items():
        ck.inconclusive_if(r['fraction'] < 0.25, 'fewer than 25%% of C-level calls follow a mutation in %s' % name)
    return ck.finish(
        total_n, total_distinct,
        'one case = one generated history (class/instance attribute mutations, subclass creation, calls through Python, '
        'typed-argument C call, cdef function, self.m() and explicit base-class call) on a generated hierarchy; every step '
        'observation (tag of the implementation that ran / exception type) is compared with the Python-class rendering. '
        'distinct = distinct (history, reference observation list)',
        samples,
        extra={'configs': [c[0] for c in configs], 'families': fams, 'static_reach': static, 'reach': reach,
               'per_config': per_config},
        assumptions=['CPython 3.12.1 executing the same hierarchy as Python classes (with __slots__ mirroring the absence of an '
                     'instance dict) is the reference',
                     'only Python subclasses and instance dicts are mutated; extension types themselves are immutable',
                     'CYTHON_USE_DICT_VERSIONS=1 is forced by -D on CPython 3.12 (off by default there) to exercise the cache'])


def cfgname_key(cfgname):
    return {'default': 'cfg=default', 'dictversions': 'cfg=dict-versions', 'noversions': 'cfg=no-dict-versions',
            'notypeslots': 'cfg=no-type-slots'}.get(cfgname, cfgname)


def replay(ck, data):
    w = data.get('witness', data)
    tree = cy.Tree('replay')
    d, info = tree.build_sources({'c27m': w['module_source']}, subdir='r', ext='.pyx', cflags=w.get('cflags') or [])
    inf = info['c27m']
    if not inf['ok']:
        print('build failed at', inf['stage'], inf['errors'][-2000:])
        return 2
    refpath = inf['src'] + '.ref.py'
    open(refpath, 'w').write(w['ref_source'])
    res = diff.run_cases(tree, d, 'c27m', [w['case']], ref=refpath, compare={'exc_args': False, 'log': False},
                         setup=w['setup'], nproc=1)
    for m in res.mismatches:
        print('expected', m['exp'])
        print('observed', m['got'])
    for c in res.crashes:
        print('crash', c['kind'], c['stderr'][-1500:])
    if res.mismatches or res.crashes:
        print('VIOLATION property=%s replay=<replayed>' % ck.pid)
        return 1
    print('replay: case now agrees with the reference (%d evaluated, fatal=%s)' % (res.n, res.fatal))
    return 0 if res.n else 2
