"""C47: drive the real Cython.Build.Dependencies.strip_string_literals (interpreted, from the mirror) on generated and
repository source texts; judge losslessness by a single left-to-right alignment of the stripped text with the input,
and completeness by character positions classified with the `tokenize` module.

python -m props.C47_worker <spec.json> <out.json>
"""
import io
import json
import os
import random
import re
import sys
import tokenize

LABEL_RE = re.compile(r'__Pyx_L\d+_')

CODE, STR, COM, SPEC, DELIM = 0, 1, 2, 3, 4


class Fail(Exception):
    def __init__(self, key, detail):
        Exception.__init__(self, key)
        self.key, self.detail = key, detail


# ------------------------------------------------------------------ (1)+(3): alignment = losslessness
def align(text, stripped, literals):
    """Single left-to-right pass over the label occurrences of `stripped`.  Returns covered (bytearray: 1 where the
    input character was replaced by a label).  Raises Fail when putting the literals back does not reproduce text."""
    covered = bytearray(len(text))
    pos = 0
    i = 0
    used = set()
    for m in LABEL_RE.finditer(stripped):
        label = m.group()
        if label not in literals:
            continue          # label-like text that is not a label stays verbatim (checked below as such)
        verb = stripped[i:m.start()]
        if text[pos:pos + len(verb)] != verb:
            raise Fail('lossless:kept-text-differs', {'at': pos, 'expected': text[pos:pos + 60], 'observed': verb[:60]})
        pos += len(verb)
        if label in used:
            raise Fail('labels:label-used-twice', {'label': label})
        used.add(label)
        lit = literals[label]
        if not isinstance(lit, str):
            raise Fail('labels:literal-not-str', {'label': label, 'value': repr(lit)[:80]})
        if text[pos:pos + len(lit)] != lit:
            raise Fail('lossless:literal-differs', {'at': pos, 'label': label, 'expected': text[pos:pos + 60],
                                                   'observed': lit[:60]})
        for k in range(pos, pos + len(lit)):
            covered[k] = 1
        pos += len(lit)
        i = m.end()
    verb = stripped[i:]
    if text[pos:pos + len(verb)] != verb or pos + len(verb) != len(text):
        raise Fail('lossless:kept-text-differs', {'at': pos, 'expected': text[pos:pos + 60], 'observed': verb[:60],
                                                  'tail': True})
    unused = set(literals) - used
    if unused:
        raise Fail('labels:literal-without-occurrence', {'labels': sorted(unused)[:5]})
    return covered


# ------------------------------------------------------------------ (2): position classes from tokenize
def split_string_token(s):
    """(prefix length, quote length) of a STRING / FSTRING_START token text"""
    p = 0
    while p < len(s) and s[p] not in '\'"':
        p += 1
    q = 3 if s[p:p + 3] in ("'''", '"""') else 1
    return p, q


def classify(text):
    """-> (classes bytearray, token records) or raises tokenize errors.  Token records describe every string-like
    token: dict(kind, start, end, prefix, quote, fdepth, enclosing=[(prefix, quote)...], prev_char)"""
    # CPython 3.12.1's tokenizer reports byte-based columns (or crashes) for non-ASCII text in continued lines; a
    # 1:1 replacement of non-ASCII characters (only legal in strings, comments and names) keeps every position
    if not text.isascii():
        text = ''.join([c if ord(c) < 128 else 'e' for c in text])
    lines = text.split('\n')
    starts = [0]
    for ln in lines:
        starts.append(starts[-1] + len(ln) + 1)

    def off(rc):
        return starts[rc[0] - 1] + rc[1]

    cls = bytearray(len(text))
    recs = []
    fstack = []       # f-string frames: dict(prefix, quote, fields=[{'depth':0,'spec':False}], prev_end)
    try:
        toks = list(tokenize.generate_tokens(io.StringIO(text).readline))
    except SystemError as ex:      # CPython 3.12.1 tokenizer bug (non-ASCII text in continued lines)
        raise ValueError('tokenize crashed: %r' % (ex,))
    T = tokenize
    for tok in toks:
        tt, s = tok.type, tok.string
        a, b = off(tok.start), off(tok.end)
        if tt in (T.STRING, T.FSTRING_START, T.FSTRING_MIDDLE, T.FSTRING_END, T.COMMENT, T.OP, T.NAME, T.NUMBER) \
                and (b > len(text) or text[a:b] != s):
            # 3.12.1 reports wrong columns for some multi-line tokens with non-ASCII characters: unusable as ground truth
            raise ValueError('tokenize positions inconsistent with token text')
        if fstack and tt not in (T.NL, T.NEWLINE, T.INDENT, T.DEDENT, T.ENDMARKER):
            fr = fstack[-1]
            gap = text[fr['prev_end']:a]
            if gap and set(gap) <= {'{', '}'}:
                # second half of a doubled brace: tokenize reports no token for it
                c = STR if not fr['fields'] else SPEC
                for k in range(fr['prev_end'], a):
                    cls[k] = c
        if tt == T.COMMENT:
            cls[a] = DELIM
            for k in range(a + 1, b):
                cls[k] = COM
            recs.append({'kind': 'comment', 'start': a, 'end': b, 'fdepth': len(fstack),
                         'enclosing': [(f['prefix'], f['quote']) for f in fstack]})
        elif tt == T.STRING:
            p, q = split_string_token(s)
            for k in range(a, a + p + q):
                cls[k] = DELIM
            for k in range(a + p + q, b - q):
                cls[k] = STR
            for k in range(b - q, b):
                cls[k] = DELIM
            recs.append({'kind': 'string', 'start': a, 'end': b, 'prefix': s[:p], 'quote': s[p:p + q], 'fdepth': len(fstack),
                         'enclosing': [(f['prefix'], f['quote']) for f in fstack],
                         'prev_char': text[a - 1] if a else ''})
        elif tt == T.FSTRING_START:
            p, q = split_string_token(s)
            for k in range(a, b):
                cls[k] = DELIM
            recs.append({'kind': 'fstring', 'start': a, 'end': None, 'prefix': s[:p], 'quote': s[p:p + q], 'fdepth': len(fstack),
                         'enclosing': [(f['prefix'], f['quote']) for f in fstack],
                         'prev_char': text[a - 1] if a else ''})
            fstack.append({'prefix': s[:p], 'quote': s[p:p + q], 'fields': [], 'prev_end': b, 'rec': recs[-1]})
            continue
        elif tt == T.FSTRING_END:
            fr = fstack.pop()
            fr['rec']['end'] = b
            for k in range(a, b):
                cls[k] = DELIM
        elif tt == T.FSTRING_MIDDLE:
            fr = fstack[-1]
            c = STR if not fr['fields'] else SPEC
            for k in range(a, b):
                cls[k] = c
            recs.append({'kind': 'fstring-middle' if c == STR else 'format-spec', 'start': a, 'end': b, 'fdepth': len(fstack),
                         'prefix': fr['prefix'], 'quote': fr['quote'],
                         'enclosing': [(f['prefix'], f['quote']) for f in fstack]})
        elif tt == T.OP and fstack:
            fr = fstack[-1]
            fields = fr['fields']
            if not fields or fields[-1]['spec']:
                if s == '{':
                    fields.append({'depth': 0, 'spec': False})
                elif s == '}' and fields:
                    fields.pop()
            else:
                f = fields[-1]
                if s in '([{':
                    f['depth'] += 1
                elif s in ')]}':
                    if f['depth'] > 0:
                        f['depth'] -= 1
                    elif s == '}':
                        fields.pop()
                elif s == ':' and f['depth'] == 0:
                    f['spec'] = True
        if fstack and tt not in (T.NL, T.NEWLINE, T.INDENT, T.DEDENT, T.ENDMARKER):
            fstack[-1]['prev_end'] = b
    if fstack:
        raise tokenize.TokenError('unterminated f-string')
    return cls, recs


# ------------------------------------------------------------------ ablations (mechanism classifier)
def first_leak(cls, covered):
    for k in range(len(cls)):
        if (cls[k] == STR or cls[k] == COM) and not covered[k]:
            return k
    return -1


def has_leak(strip, text):
    """does `text` (must tokenize) still show a string/comment character in the stripped output?"""
    try:
        cls, recs = classify(text)
    except (tokenize.TokenError, SyntaxError, IndentationError, ValueError):
        return None
    try:
        stripped, lits = strip(text)
        covered = align(text, stripped, lits)
    except Fail:
        return True
    return first_leak(cls, covered) >= 0


def edit(text, edits):
    """apply [(start, end, replacement)] (non-overlapping)"""
    out, pos = [], 0
    for a, b, r in sorted(edits):
        out.append(text[pos:a])
        out.append(r)
        pos = b
    out.append(text[pos:])
    return ''.join(out)


def ablations(text, recs):
    """candidate causes -> text with that feature neutralised"""
    res = []
    e = []
    for r in recs:
        if r['kind'] in ('string', 'fstring') and r.get('prev_char') and (r['prev_char'].isalnum() or r['prev_char'] == '_'):
            e.append((r['start'] - 1, r['start'], ' '))      # same length: tokenize geometry stays
    if e:
        res.append(('name-character-directly-before-string-prefix', edit(text, e)))
    e = []
    for r in recs:
        if r['kind'] == 'fstring' and r['prefix'] and r['prefix'][-1] != 'f':
            np_ = ('r' if 'r' in r['prefix'].lower() else '') + 'f'
            assert len(np_) == len(r['prefix'])
            e.append((r['start'], r['start'] + len(r['prefix']), np_))
    if e:
        res.append(('fstring-prefix-not-ending-in-lowercase-f', edit(text, e)))
    e = []
    for r in recs:
        if r['kind'] in ('fstring-middle',) and 'r' not in r['prefix'].lower():
            for m in re.finditer(r'\\N\{[^}]*\}', text[r['start']:r['end']]):
                e.append((r['start'] + m.start(), r['start'] + m.end(), 'N' * (m.end() - m.start())))
    if e:
        res.append(('named-unicode-escape-in-fstring', edit(text, e)))
    e = []
    for r in recs:
        if r['kind'] == 'format-spec':
            for m in re.finditer('#', text[r['start']:r['end']]):
                e.append((r['start'] + m.start(), r['start'] + m.end(), '_'))
    if e:
        res.append(('hash-in-format-spec-taken-as-comment', edit(text, e)))
    return res


def apply_ablations(text, names):
    """apply the named ablations one after the other (positions change, so re-tokenize in between)"""
    for nm in names:
        try:
            _, recs = classify(text)
        except (tokenize.TokenError, SyntaxError, IndentationError, ValueError):
            return None
        for cause, t2 in ablations(text, recs):
            if cause == nm:
                text = t2
    return text


def leak_keys(strip, text, cls, recs, k):
    """mechanism keys for a completeness failure (first leaked position k): the causes whose neutralisation is
    necessary to make every leak disappear; a generic structural key when neutralising all of them is not enough"""
    rec = None
    for r in recs:
        if r['start'] <= k < (r['end'] or 0) and r['kind'] != 'fstring':
            rec = r
    names = [c for c, _ in ablations(text, recs)]
    if names:
        t_all = apply_ablations(text, names)
        if t_all is not None and has_leak(strip, t_all) is False:
            need = []
            for nm in names:
                t2 = apply_ablations(text, [x for x in names if x != nm])
                if t2 is None or has_leak(strip, t2) is not False:
                    need.append(nm)
            if not need:        # any single one suffices?  report those that suffice alone
                need = [nm for nm in names if has_leak(strip, apply_ablations(text, [nm]) or text) is False] or names
            return ['leak:' + nm for nm in need], rec
    if rec is None:
        return ['leak:unclassified'], rec
    pre = (rec.get('prefix') or '').lower()
    pre = ''.join(sorted(pre))
    q = rec.get('quote') or ''
    qk = 'triple' if len(q) == 3 else 'single'
    enc = rec.get('enclosing') or []
    same_q = any(q and eq and eq[0] == q[0] for _, eq in enc) if rec['kind'] == 'string' else False
    return ['leak:%s:prefix=%s:%s:fdepth=%d%s' % (rec['kind'], pre or '-', qk, min(rec['fdepth'], 3),
                                                  ':same-quote-nesting' if same_q else '')], rec


# ------------------------------------------------------------------ generator
WORDS = ['x', 'y', 'foo', 'cimport', 'include', 'd', 'w', 'n', 'spam', 'cdef', 'extern', 'from', 'f', 'rf', 'if', 'elif', 'bar_f']
PLAIN = ['a', 'b', ' ', 'z', '0', '#', '{', '}', ':', '!', '%', 'cimport q', ',', ';', '(', ')', '[', ']', 'é', '=', 'f', "__Pyx"]


def gen_body(rng, quote, raw, bytes_, fstr, triple, st):
    """string body that keeps the literal well-formed"""
    q = quote[0]
    other = '"' if q == "'" else "'"
    n = rng.choice([0, 1, 1, 2, 3, 4, 6])
    out = []
    for _ in range(n):
        r = rng.random()
        if r < 0.35:
            c = rng.choice(PLAIN)
            if bytes_ and not c.isascii():
                c = 'e'
            if fstr and c in '{}':
                c = c * 2
                st['doubled_brace'] = st.get('doubled_brace', 0) + 1
            out.append(c)
        elif r < 0.50:
            out.append(other * rng.choice([1, 1, 2, 3] if not triple else [1, 2, 3]))
            st['other_quote_inside'] = st.get('other_quote_inside', 0) + 1
        elif r < 0.60:
            out.append('\\' + q)
            st['escaped_quote'] = st.get('escaped_quote', 0) + 1
        elif r < 0.72:
            out.append('\\\\' * rng.choice([1, 1, 2, 3]))
            st['backslash_run'] = st.get('backslash_run', 0) + 1
        elif r < 0.78 and not raw:
            out.append(rng.choice(['\\n', '\\t', '\\x41', '\\0', '\\u00e9' if not bytes_ else '\\xe9']))
        elif r < 0.83:
            out.append('\\\n')
            st['backslash_newline'] = st.get('backslash_newline', 0) + 1
        elif r < 0.93 and triple:
            out.append(rng.choice([q, q * 2, '\n', '\n\n', q + '\n' + q]) + rng.choice(['a', ' ', other]))
            st['same_quote_inside_triple'] = st.get('same_quote_inside_triple', 0) + 1
        elif 0.95 <= r < 0.96 and fstr and not raw:
            out.append('\\N{BULLET}')
            st['named_escape_in_fstring'] = st.get('named_escape_in_fstring', 0) + 1
        else:
            out.append(rng.choice(['abc', 'import os', '# no comment', 'x = 1']))
    s = ''.join(out)
    if rng.random() < 0.15:
        s += '\\\\'          # backslashes directly before the closing quote
        st['backslash_before_close'] = st.get('backslash_before_close', 0) + 1
    # a body must not end in a way that changes where the literal ends
    if triple and s.endswith(q):
        s += ' '
    return s


def case_mix(rng, p):
    return ''.join(c.upper() if rng.random() < 0.3 else c for c in p)


def gen_string(rng, st, depth=0, avoid_newline=False):
    """a non-f string literal"""
    prefix = rng.choice(['', '', '', 'r', 'b', 'u', 'rb', 'br'])
    prefix = case_mix(rng, prefix)
    triple = rng.random() < 0.25 and not avoid_newline
    q = rng.choice(["'", '"'])
    quote = q * 3 if triple else q
    body = gen_body(rng, quote, 'r' in prefix.lower(), 'b' in prefix.lower(), False, triple, st)
    if avoid_newline:
        body = body.replace('\n', ' ')
    st['string:' + (''.join(sorted(prefix.lower())) or '-') + (':triple' if triple else ':single')] = \
        st.get('string:' + (''.join(sorted(prefix.lower())) or '-') + (':triple' if triple else ':single'), 0) + 1
    return prefix + quote + body + quote


def gen_expr(rng, st, depth, in_single_line):
    """expression for a replacement field (or plain code)"""
    r = rng.random()
    if depth <= 0 or r < 0.25:
        return rng.choice(WORDS[:8] + ['1', '2.5', 'x+1', 'x[1:2]', 'x.y'])
    if r < 0.45:
        st['expr_string'] = st.get('expr_string', 0) + 1
        return 'd[%s]' % gen_string(rng, st, depth - 1, avoid_newline=in_single_line)
    if r < 0.55:
        st['expr_call_strings'] = st.get('expr_call_strings', 0) + 1
        return 'g(%s, %s)' % (gen_string(rng, st, depth - 1, in_single_line), gen_expr(rng, st, depth - 1, in_single_line))
    if r < 0.65:
        st['expr_dict'] = st.get('expr_dict', 0) + 1
        return ' {%s: %s}[%s] ' % (gen_string(rng, st, depth - 1, in_single_line), gen_expr(rng, st, depth - 1, in_single_line),
                                   gen_string(rng, st, depth - 1, in_single_line))
    if r < 0.72:
        st['expr_lambda'] = st.get('expr_lambda', 0) + 1
        return '(lambda a: a + %s)(%s)' % (gen_expr(rng, st, depth - 1, in_single_line), gen_expr(rng, st, depth - 1, in_single_line))
    if r < 0.95:
        st['expr_nested_fstring'] = st.get('expr_nested_fstring', 0) + 1
        return gen_fstring(rng, st, depth - 1, in_single_line)
    return '(%s if %s else %s)' % (gen_expr(rng, st, depth - 1, in_single_line), rng.choice(WORDS[:4]),
                                   gen_string(rng, st, depth - 1, in_single_line))


def gen_fstring(rng, st, depth=2, avoid_newline=False):
    prefix = rng.choice(['f'] * 28 + ['rf', 'Rf', 'rf', 'Rf', 'rf', 'Rf', 'rf', 'Rf'] + ['fr', 'F', 'fR', 'RF'])
    raw = 'r' in prefix.lower()
    triple = rng.random() < 0.25 and not avoid_newline
    q = rng.choice(["'", '"'])
    quote = q * 3 if triple else q
    st['fstring:' + prefix + (':triple' if triple else ':single')] = st.get('fstring:' + prefix + (':triple' if triple else ':single'), 0) + 1
    parts = []
    single_line = not triple
    for _ in range(rng.choice([1, 1, 2, 3])):
        if rng.random() < 0.6:
            b = gen_body(rng, quote, raw, False, True, triple, st)
            if avoid_newline:
                b = b.replace('\\\n', '').replace('\n', ' ')
            parts.append(b)
        fld = '{' + gen_expr(rng, st, depth, single_line or avoid_newline)
        r = rng.random()
        if r < 0.15:
            fld += '!r'
            st['conversion'] = st.get('conversion', 0) + 1
        elif r < 0.25:
            fld += '='
            st['debug_eq'] = st.get('debug_eq', 0) + 1
        r = rng.random()
        if r < 0.18:
            fld += ':' + rng.choice(['>10', '^5', '.3f', 'x', '<', '%Y-%m', 'cimport z', '>10', '^5', '.3f', 'x', '<', '08.3f', ' ', '+', "#x", '\\N{BULLET}<5'])
            st['format_spec'] = st.get('format_spec', 0) + 1
        elif r < 0.30:
            fld += ':' + rng.choice(['>', '', '0', '.']) + '{' + gen_expr(rng, st, 0, True) + '}' + rng.choice(['', 'd', '.2f'])
            st['format_spec_nested_field'] = st.get('format_spec_nested_field', 0) + 1
        elif r < 0.34 and triple:
            fld += ' # why not\n'
            st['comment_in_field'] = st.get('comment_in_field', 0) + 1
        fld += '}'
        parts.append(fld)
    if rng.random() < 0.5:
        b = gen_body(rng, quote, raw, False, True, triple, st)
        if avoid_newline:
            b = b.replace('\\\n', '').replace('\n', ' ')
        parts.append(b)
    body = ''.join(parts)
    if triple and body.endswith(q):
        body += ' '
    if body.endswith('\\') and not body.endswith('\\\\'):
        body += '\\'
    return prefix + quote + body + quote


def gen_comment(rng, st):
    st['comment'] = st.get('comment', 0) + 1
    return '#' + ''.join(rng.choice(["'", '"', ' it\'s', ' "q"', '{', '}', ' cimport x', ' f"', "'''", ' text', '\\', '#', ''])
                         for _ in range(rng.choice([0, 1, 2, 3, 4])))


def gen_line(rng, st):
    r = rng.random()
    if r < 0.08:
        return rng.choice(['cimport foo', 'from bar cimport baz', 'include "x.pxi"', "cdef extern from 'h.h':", 'cdef int v = <int>w & 3'])
    if r < 0.16:
        return gen_comment(rng, st)
    if r < 0.22:
        st['adjacent_quotes'] = st.get('adjacent_quotes', 0) + 1
        return 'v = ' + rng.choice(["''''''", '""""""', '""""a"""', "''''b'''", "'' ''", "'a''b'", '"a"\'b\'', "''", '""', "'a' 'b' \"c\"",
                                    "''''''''''''", "u'' b''",
                                    # runs of 7..13 quotes: empty triple-quoted string(s) followed by another literal
                                    "'''''''''a'''", '""""""""""b"""', "'''''''c'", "''''''''", '""""""""""" d"""',
                                    "'''''''''''''e'"])
    if r < 0.235:
        st['keyword_before_quote'] = st.get('keyword_before_quote', 0) + 1
        return 'v = 1 if%s else 2' % gen_string(rng, st, 0, True).lstrip('rRbBuU')
    if r < 0.62:
        s = 'v = ' + gen_fstring(rng, st, rng.choice([0, 1, 2, 2]))
    elif r < 0.9:
        s = rng.choice(['v = ', 'print(', 'w = x + ']) + gen_string(rng, st)
        if s.startswith('print('):
            s += ')'
    else:
        s = 'v = ' + gen_expr(rng, st, 2, False)
    if rng.random() < 0.25:
        s += '  ' + gen_comment(rng, st)
    return s


def gen_text(rng, st):
    n = rng.choice([1, 1, 2, 3, 4, 6])
    lines = [gen_line(rng, st) for _ in range(n)]
    text = '\n'.join(lines) + rng.choice(['\n', '\n', ''])
    if rng.random() < 0.04:
        # unterminated literal at end of file (tokenize rejects: lossless only)
        st['unterminated'] = st.get('unterminated', 0) + 1
        text += rng.choice(["v = 'abc", 'v = """abc\n', "v = f'{x", 'v = "a\\'])
    return text


# ------------------------------------------------------------------ judging one text
class Acc:
    def __init__(self):
        self.n = {'texts': 0, 'tokenized': 0, 'tokenize_rejected': 0, 'lossless_ok': 0, 'complete_ok': 0, 'labels': 0,
                  'string_positions': 0, 'comment_positions': 0, 'spec_positions': 0, 'spec_positions_kept': 0,
                  'code_positions_in_labels': 0, 'texts_with_code_in_labels': 0, 'texts_with_nested_fstring_expr': 0,
                  'texts_with_fstring': 0, 'nontrivial': 0}
        self.tok_hist = {}
        self.disc = {}
        self.samples = []
        self.seen = set()

    def record(self, key, text, detail, origin):
        e = self.disc.get(key)
        if e is None:
            self.disc[key] = {'count': 1, 'text': text[:3000], 'detail': detail, 'origin': origin, 'len': len(text)}
        else:
            e['count'] += 1
            if len(text) < e['len']:
                e.update({'text': text[:3000], 'detail': detail, 'origin': origin, 'len': len(text)})


def judge(strip, acc, text, origin, want_complete=True):
    n = acc.n
    n['texts'] += 1
    try:
        stripped, lits = strip(text)
    except RecursionError:
        acc.record('exception:RecursionError', text, {}, origin)
        return
    except Exception as ex:
        acc.record('exception:' + type(ex).__name__, text, {'error': repr(ex)[:300]}, origin)
        return
    try:
        if not isinstance(stripped, str) or not isinstance(lits, dict):
            raise Fail('labels:wrong-result-type', {'types': [type(stripped).__name__, type(lits).__name__]})
        for lab in lits:
            if not LABEL_RE.fullmatch(lab):
                raise Fail('labels:label-shape', {'label': lab})
            if lab in text:
                raise Fail('labels:label-occurs-in-input', {'label': lab})
        covered = align(text, stripped, lits)
    except Fail as f:
        acc.record(f.key, text, dict(f.detail, stripped=stripped[:300] if isinstance(stripped, str) else None), origin)
        return
    n['lossless_ok'] += 1
    n['labels'] += len(lits)
    if not want_complete:
        return
    try:
        cls, recs = classify(text)
    except (tokenize.TokenError, SyntaxError, IndentationError, ValueError):
        n['tokenize_rejected'] += 1
        return
    n['tokenized'] += 1
    kinds = set()
    nested = False
    for r in recs:
        k = r['kind']
        acc.tok_hist[k] = acc.tok_hist.get(k, 0) + 1
        kinds.add(k)
        if r['fdepth'] >= 1 and k in ('string', 'fstring', 'comment'):
            nested = True
    if 'fstring' in kinds:
        n['texts_with_fstring'] += 1
    if nested:
        n['texts_with_nested_fstring_expr'] += 1
    leak = -1
    spec_kept = 0
    code_in = 0
    for k in range(len(cls)):
        c = cls[k]
        if c == STR:
            n['string_positions'] += 1
            if not covered[k] and leak < 0:
                leak = k
        elif c == COM:
            n['comment_positions'] += 1
            if not covered[k] and leak < 0:
                leak = k
        elif c == SPEC:
            n['spec_positions'] += 1
            if not covered[k]:
                spec_kept += 1
        elif c == CODE and covered[k] and not text[k].isspace():
            code_in += 1
    if code_in:
        n['code_positions_in_labels'] += code_in
        n['texts_with_code_in_labels'] += 1
    if (kinds & {'string', 'fstring', 'comment'}) and text not in acc.seen:
        acc.seen.add(text)
        n['nontrivial'] += 1
        if len(acc.samples) < 3 and nested and len(text) < 200:
            acc.samples.append({'input': text, 'stripped': stripped, 'literals': lits})
    if leak >= 0:
        keys, rec = leak_keys(strip, text, cls, recs, leak)
        for key in keys:
            acc.record(key, text, {'leaked_char_at': leak, 'leaked_context': text[max(0, leak - 20):leak + 20],
                                   'token': {k: v for k, v in (rec or {}).items() if k != 'enclosing'},
                                   'stripped': stripped[:400]}, origin)
    else:
        n['complete_ok'] += 1
    if spec_kept:
        n['spec_positions_kept'] += spec_kept
        acc.record('fstring-format-spec-kept', text, {'kept_format_spec_characters': spec_kept, 'stripped': stripped[:400]}, origin)


def main():
    spec = json.load(open(sys.argv[1]))
    mroot = os.path.realpath(spec['mirror'])
    import Cython.Build.Dependencies as D
    f = D.__file__
    mirror_ok = f.endswith('.py') and os.path.realpath(f).startswith(mroot + os.sep)
    out = {'mirror_ok': mirror_ok, 'module_file': f}
    if not mirror_ok:
        json.dump(out, open(sys.argv[2], 'w'))
        return 3
    strip = D.strip_string_literals
    acc = Acc()
    gen_stats = {}
    if spec['mode'] == 'generated':
        rng = random.Random(spec['seed'])
        for _ in range(spec['count']):
            judge(strip, acc, gen_text(rng, gen_stats), 'generated')
    elif spec['mode'] == 'files':
        for path in spec['files']:
            try:
                text = open(path, encoding='utf-8').read()
            except (UnicodeDecodeError, OSError):
                continue
            if '\r' in text or '\f' in text or '__Pyx_L' in text:
                text = text.replace('\r', '').replace('\f', ' ').replace('__Pyx_L', '__Pyx_l')
            judge(strip, acc, text, os.path.relpath(path, spec.get('root', '/')))
    elif spec['mode'] == 'live':
        # contract on the real function while its real callers run (parse_dependencies on repository files)
        import icontract
        cn = {'evaluations': 0, 'violations': []}
        inner = strip

        def lossless_and_labels(code, result):
            if '__Pyx_L' in code:
                cn['skipped_input_contains_label_prefix'] = cn.get('skipped_input_contains_label_prefix', 0) + 1
                return True
            cn['evaluations'] += 1
            try:
                stripped, lits = result
                for lab in lits:
                    if not LABEL_RE.fullmatch(lab) or lab in code:
                        raise Fail('labels:label-shape-or-collision', {'label': lab})
                align(code, stripped, lits)
            except Fail as e:
                if len(cn['violations']) < 5:
                    cn['violations'].append({'key': e.key, 'detail': e.detail, 'code': code[:500]})
            return True

        class StripContractError(Exception):
            pass

        wrapped = icontract.ensure(lossless_and_labels, error=StripContractError)(
            lambda code, prefix='__Pyx_L': inner(code, prefix))
        D.strip_string_literals = wrapped
        calls = 0
        for path in spec['files']:
            try:
                D.parse_dependencies(path)
                calls += 1
            except Exception as ex:
                acc.record('live:parse_dependencies-raised:' + type(ex).__name__, path, {'error': repr(ex)[:200]}, path)
        for t in ('a "b c" d', "[x, 'y, z', \"w\"]", 'a b'):
            D.parse_list(t)
        for v in cn['violations']:
            acc.record('live:' + v['key'], v['code'], v['detail'], 'parse_dependencies')
        out['live'] = {'contract_evaluations': cn['evaluations'], 'parse_dependencies_calls': calls,
                       'skipped_input_contains_label_prefix': cn.get('skipped_input_contains_label_prefix', 0)}
    elif spec['mode'] == 'replay':
        judge(strip, acc, spec['text'], 'replay')
    out.update({'n': acc.n, 'tok_hist': acc.tok_hist, 'disc': acc.disc, 'samples': acc.samples, 'gen_stats': gen_stats})
    with open(sys.argv[2], 'w') as fo:
        json.dump(out, fo)
    return 0


if __name__ == '__main__':
    sys.exit(main())
