"""Development tool for C43 triage: shrink a witness to a minimal program that still produces the same mechanism key.

    ./venv/python -m props.C43_reduce <replay.json> [--max-tests N]      (run from /verif; builds its own mirror)

Works in one long-lived subprocess that imports the interpreted compiler once and classifies candidates in-process
with the same monitor and classifier as the check.  AST-based (statement deletion, expression simplification) when
the witness parses, line/character based otherwise."""
import ast
import json
import os
import sys
import warnings


def worker_main():
    """runs inside the mirror environment: argv = --worker <mirror> <input> <key> <valid 0/1> <maxtests> <out>"""
    _, _, mirror, inp, key, maxtests, outp = sys.argv
    maxtests = int(maxtests)
    warnings.simplefilter('ignore')
    import tempfile
    import traceback
    import io
    from vlib.mon import c43mon
    c43mon.install({'cpu_budget_s': 300})
    from Cython.Compiler.Main import compile as cy_compile, CompilationOptions, default_options
    from Cython.Compiler import Errors
    from props import C43
    deliberate = C43.load_deliberate()
    tmpd = tempfile.mkdtemp(prefix='c43red_')
    ntests = [0]
    cache = {}

    def keys_of(data):
        if data in cache:
            return cache[data]
        ntests[0] += 1
        p = os.path.join(tmpd, 'r%d.py' % (ntests[0] % 7))
        with open(p, 'wb') as f:
            f.write(data)
        try:
            compile(data, p, 'exec', dont_inherit=True)
            valid = True
        except (SyntaxError, ValueError, OverflowError, RecursionError, MemoryError, UnicodeError, LookupError):
            valid = False
        r = {'src': p, 'ok': False, 'c': None, 'errors': '', 'exc': None, 'num_errors': None}
        err = io.StringIO()
        old = sys.stderr
        sys.stderr = err
        try:
            opts = dict(default_options)
            opts['language_level'] = 3
            result = cy_compile(p, CompilationOptions(**opts))
            r['num_errors'] = result.num_errors
            r['c'] = result.c_file
            r['ok'] = result.num_errors == 0 and bool(result.c_file)
        except BaseException:  # noqa
            r['exc'] = traceback.format_exc()
        finally:
            sys.stderr = old
        r['errors'] = err.getvalue()[-8000:]
        r['plugin'] = {C43.MON: c43mon.per_job({}, r)}
        cls, disc = C43.classify({'valid': valid, 'family': 'reduce', 'cat': 'reduce'}, r, deliberate)
        ks = {k for k, _ in disc}
        if cls == 'ok' and key.startswith('c-rejected'):
            import subprocess, sysconfig, re
            rr = subprocess.run(['gcc', '-fsyntax-only', '-w', '-I' + sysconfig.get_paths()['include'], r['c']],
                                capture_output=True, text=True)
            if rr.returncode != 0:
                first = [l for l in rr.stderr.splitlines() if 'error' in l][:1]
                msg = re.sub(r'^[^:]*:\d+:\d+: ', '', first[0]) if first else rr.stderr[-200:]
                ks.add('c-rejected:%s' % C43.norm_c_msg(msg))
        cache[data] = (ks, valid)
        return ks, valid

    data = open(inp, 'rb').read()
    ks, valid0 = keys_of(data)
    log = ['initial keys %s valid=%s size=%d' % (sorted(ks), valid0, len(data))]
    if key not in ks:
        json.dump({'ok': False, 'log': log, 'text': data.decode('utf-8', 'replace')}, open(outp, 'w'))
        return

    def good(d):
        if ntests[0] >= maxtests:
            return False
        k, v = keys_of(d)
        return key in k and v == valid0

    # ---------- AST-based
    def try_ast(data):
        try:
            tree = ast.parse(data)
        except Exception:
            return data
        changed = True

        def render(t):
            try:
                return (ast.unparse(ast.fix_missing_locations(t)) + '\n').encode('utf-8', 'replace')
            except Exception:
                return None
        cur = render(tree)
        if cur is None or not good(cur):
            return data
        while changed and ntests[0] < maxtests:
            changed = False
            # statement deletion, largest first
            for node in list(ast.walk(tree)):
                for field in ('body', 'orelse', 'finalbody', 'handlers', 'cases'):
                    lst = getattr(node, field, None)
                    if not isinstance(lst, list) or not lst or not isinstance(lst[0], (ast.stmt, ast.excepthandler, ast.match_case)):
                        continue
                    i = 0
                    while i < len(lst):
                        saved = lst[i]
                        del lst[i]
                        filler = None
                        if not lst and field in ('body',):
                            filler = ast.Pass()
                            lst.append(filler)
                        cand = render(tree)
                        if cand is not None and cand != cur and good(cand):
                            cur = cand
                            changed = True
                            if filler is not None:
                                i += 1
                        else:
                            if filler is not None:
                                lst.remove(filler)
                            lst.insert(i, saved)
                            i += 1
            # hoist: replace a compound statement by its body
            for node in list(ast.walk(tree)):
                for field in ('body', 'orelse', 'finalbody'):
                    lst = getattr(node, field, None)
                    if not isinstance(lst, list):
                        continue
                    for i, st in enumerate(list(lst)):
                        inner = getattr(st, 'body', None)
                        if isinstance(st, (ast.If, ast.For, ast.While, ast.With, ast.Try, ast.AsyncWith, ast.AsyncFor)) and inner:
                            idx = lst.index(st)
                            lst[idx:idx + 1] = inner
                            cand = render(tree)
                            if cand is not None and good(cand):
                                cur = cand
                                changed = True
                            else:
                                lst[idx:idx + len(inner)] = [st]
            # expression simplification
            for node in list(ast.walk(tree)):
                for field, val in list(ast.iter_fields(node)):
                    vals = val if isinstance(val, list) else [val]
                    for j, v in enumerate(vals):
                        if not isinstance(v, ast.expr) or isinstance(getattr(v, 'ctx', None), (ast.Store, ast.Del)):
                            continue
                        if isinstance(v, (ast.Constant, ast.Name)):
                            continue
                        repl = [ast.Name(id='x', ctx=ast.Load()), ast.Constant(value=0)] + \
                               [c for c in ast.iter_child_nodes(v) if isinstance(c, ast.expr) and not isinstance(getattr(c, 'ctx', None), (ast.Store, ast.Del))]
                        for rnode in repl:
                            if isinstance(val, list):
                                val[j] = rnode
                            else:
                                setattr(node, field, rnode)
                            cand = render(tree)
                            if cand is not None and cand != cur and len(cand) < len(cur) + 3 and good(cand):
                                cur = cand
                                changed = True
                                break
                            if isinstance(val, list):
                                val[j] = v
                            else:
                                setattr(node, field, v)
                # drop decorators, defaults, annotations, bases
                for field in ('decorator_list', 'bases', 'keywords'):
                    lst = getattr(node, field, None)
                    if isinstance(lst, list) and lst:
                        saved = list(lst)
                        del lst[:]
                        cand = render(tree)
                        if cand is not None and good(cand):
                            cur = cand
                            changed = True
                        else:
                            lst[:] = saved
                if isinstance(node, ast.arguments):
                    for field in ('defaults', 'kw_defaults', 'kwonlyargs', 'posonlyargs'):
                        lst = getattr(node, field)
                        if lst:
                            saved = list(lst)
                            saved_kwd = list(node.kw_defaults)
                            del lst[:]
                            if field == 'kwonlyargs':
                                node.kw_defaults = []
                            cand = render(tree)
                            if cand is not None and good(cand):
                                cur = cand
                                changed = True
                            else:
                                lst[:] = saved
                                node.kw_defaults = saved_kwd
                    for a in node.args + node.posonlyargs + node.kwonlyargs + [x for x in (node.vararg, node.kwarg) if x]:
                        if a.annotation is not None:
                            sa = a.annotation
                            a.annotation = None
                            cand = render(tree)
                            if cand is not None and good(cand):
                                cur = cand
                                changed = True
                            else:
                                a.annotation = sa
        return cur

    # ---------- text-based ddmin on lines, then characters at the end
    def ddmin(units, join):
        n = 2
        while len(units) >= 2 and ntests[0] < maxtests:
            chunk = max(1, len(units) // n)
            removed = False
            for i in range(0, len(units), chunk):
                cand = units[:i] + units[i + chunk:]
                if good(join(cand)):
                    units = cand
                    n = max(n - 1, 2)
                    removed = True
                    break
            if not removed:
                if chunk == 1:
                    break
                n = min(len(units), n * 2)
        return units

    out = try_ast(data)
    lines = out.split(b'\n')
    lines = ddmin(lines, lambda u: b'\n'.join(u))
    out2 = b'\n'.join(lines)
    if good(out2):
        out = out2
    if len(out) < 3000 and len(out.split(b'\n')) <= 3:
        chars = [out[i:i + 1] for i in range(len(out))]
        chars = ddmin(chars, lambda u: b''.join(u))
        if good(b''.join(chars)):
            out = b''.join(chars)
    log.append('reduced to %d bytes in %d tests' % (len(out), ntests[0]))
    json.dump({'ok': True, 'log': log, 'text': out.decode('utf-8', 'replace'), 'hex': out.hex() if len(out) < 500 else None},
              open(outp, 'w'))


def main():
    if len(sys.argv) > 1 and sys.argv[1] == '--worker':
        return worker_main()
    sys.path.insert(0, os.path.dirname(os.path.dirname(os.path.abspath(__file__))))
    from vlib import core, cy
    skip = {sys.argv[i + 1] for i, a in enumerate(sys.argv[:-1]) if a in ('--max-tests', '--summary')}
    paths = [a for a in sys.argv[1:] if not a.startswith('--') and a not in skip]
    maxtests = 1500
    if '--max-tests' in sys.argv:
        maxtests = int(sys.argv[sys.argv.index('--max-tests') + 1])
    tree = cy.Tree('C43red')
    summary = []
    sumpath = None
    if '--summary' in sys.argv:
        sumpath = sys.argv[sys.argv.index('--summary') + 1]
        paths = [p for p in paths if p != sumpath]
    for rp in paths:
        d = core.read_json(rp)
        w = d['witness']
        key = d['key']
        text = w.get('input_text') or ''
        data = bytes.fromhex(w['input_hex_if_binary']) if (w.get('input_hex_if_binary') and len(text) < 400) else text.encode('utf-8')
        inp = os.path.join(tree.work, 'red_in.py')
        outp = os.path.join(tree.work, 'red_out.json')
        with open(inp, 'wb') as f:
            f.write(data)
        r = core.run([core.PY, '-m', 'props.C43_reduce', '--worker', tree.mirror, inp, key, str(maxtests), outp],
                     env=tree.env(), timeout=7200, as_gb=8)
        print('=' * 100)
        print('KEY', key, ' (%s)' % rp)
        if os.path.exists(outp):
            res = core.read_json(outp)
            print('\n'.join(res['log']))
            print('-' * 60)
            print(res['text'])
            summary.append({'key': key, 'what': d.get('what'), 'count': d.get('count'), 'reduced': res['text'], 'ok': res['ok'],
                            'family': w.get('family'), 'category': w.get('category'), 'cpython': w.get('cpython'), 'replay': rp})
            if sumpath:
                core.write_json(sumpath, summary)
            if res.get('hex') and any(ord(c) < 9 or ord(c) > 126 for c in res['text']):
                print('hex:', res['hex'])
            os.remove(outp)
        else:
            print('reducer failed', r.rc, (r.err or '')[-1500:])
    return 0


if __name__ == '__main__':
    sys.exit(main())
