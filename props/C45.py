"""C45 Profiling and tracing events are balanced and well-nested (DESIGN.md section 5, C45).

Generated call trees of compiled functions (vlib/gen/calltree.py) are built three ways (profile=True; linetrace=True +
-DCYTHON_TRACE=1; both + -DCYTHON_TRACE_NOGIL=1) and run under sys.setprofile, sys.settrace (accepting and declining
local trace functions), both at once, cProfile and a second thread.  props/C45_driver.py merges the event stream with
ground-truth markers written by the functions themselves and feeds a stack automaton."""
import json
import os
from concurrent.futures import ThreadPoolExecutor

from vlib import core, cy
from vlib.gen import calltree as gen

BUILDS = {
    'profile': ('# cython: language_level=3, profile=True', [], ['profile', 'cprofile', 'thread']),
    'linetrace': ('# cython: language_level=3, linetrace=True', ['-DCYTHON_TRACE=1'], ['trace', 'profile', 'both', 'trace_decline']),
    'both': ('# cython: language_level=3, profile=True, linetrace=True', ['-DCYTHON_TRACE=1', '-DCYTHON_TRACE_NOGIL=1'],
             ['profile', 'trace', 'both']),
}


def key_of(v):
    parts = [v['kind'], v.get('template', '?')]
    if 'owner_template' in v:
        parts.append('owner=' + v['owner_template'])
    if 'top_template' in v:
        parts.append('top=' + v['top_template'])
    if v['kind'] == 'observed-run-changes-result':
        parts.append('%s->%s' % (v['base'][0] + (':' + str(v['base'][1]) if v['base'][0] == 'exc' else ''),
                                 v['observed'][0] + (':' + str(v['observed'][1]) if v['observed'][0] == 'exc' else '')))
    parts.append(v['stream'])
    return ':'.join(parts)


def main(ck):
    tree = cy.Tree('C45')
    nmods = ck.pick(1, 6)
    nfuncs = ck.pick(60, 64)
    depths = ck.pick([1, 2, 3, 4], [1, 2, 3, 4, 5, 6])
    gens = []
    for mi in range(nmods):
        g = gen.ModuleGen(ck.rng('mod%d' % mi), 'c45m%d' % mi, nfuncs, 'c45py')
        g.py_base = 5000 + 200 * mi
        gens.append(g)
    sources = {}
    tables = {}
    for g in gens:
        src, table = g.emit('@@HEADER@@')
        sources[g.modname] = src
        tables[g.modname] = table
    pysrc, pytable = gen.gen_pymodule(gens)
    results = {}
    skipped = 0
    jobs = []
    def build_one(bname):
        header, cflags, observers = BUILDS[bname]
        srcs = {n: s.replace('@@HEADER@@', header) for n, s in sources.items()}
        srcs['c45log'] = gen.LOG_PYX
        bd = tree.subdir('b_' + bname)
        with open(os.path.join(bd, 'c45log.pxd'), 'w') as f:
            f.write(gen.LOG_PXD)
        with open(os.path.join(bd, 'c45py.py'), 'w') as f:
            f.write(pysrc)
        return tree.build_sources(srcs, subdir='b_' + bname, ext='.pyx', cflags=cflags)
    with ThreadPoolExecutor(len(BUILDS)) as ex:       # the three build configurations are built concurrently
        build_results = dict(zip(BUILDS, ex.map(build_one, list(BUILDS))))
    for bname, (header, cflags, observers) in BUILDS.items():
        d, info = build_results[bname]
        bad = [n for n, i in info.items() if not i['ok']]
        if bad:
            skipped += len(bad)
            for n in bad:
                ck.note('build failure %s/%s at %s: %s' % (bname, n, info[n]['stage'], info[n]['errors'][-1200:]))
            if 'c45log' in bad:
                continue
        for g in gens:
            if g.modname in bad:
                continue
            mtable = dict(tables[g.modname])
            mtable.update(pytable)
            traced = [fid for fid, t in mtable.items() if (t['kind'] != 'nogil' or bname == 'both')]
            roots = [{'name': fn.name, 'fid': fn.fid, 'template': fn.template} for fn in g.fns if fn.kind == 'def']
            for obs in observers:
                jobs.append((bname, d, g.modname, obs, {
                    'builddir': d, 'table': mtable, 'depths': depths, 'observers': [obs],
                    'modules': [{'name': g.modname, 'site_owner': g.site_owner, 'roots': roots,
                                 'traced_profile': traced, 'traced_trace': traced}]}))

    def runjob(i):
        bname, d, modname, obs, spec = jobs[i]
        sp = os.path.join(tree.work, 'spec_%d.json' % i)
        spec['out'] = os.path.join(tree.work, 'out_%d.jsonl' % i)
        with open(sp, 'w') as f:
            json.dump(spec, f)
        r = core.run([core.PY, '-m', 'props.C45_driver', sp], env=tree.env(d), timeout=ck.pick(400, 1500), as_gb=6)
        recs = []
        done = None
        if os.path.exists(spec['out']):
            for ln in open(spec['out']):
                try:
                    rec = json.loads(ln)
                except ValueError:
                    continue
                if rec.get('done'):
                    done = rec['stats']
                else:
                    recs.append(rec)
        return r, recs, done
    with ThreadPoolExecutor(min(12, max(1, len(jobs)))) as ex:
        outs = list(ex.map(runjob, range(len(jobs))))
    total = {'runs': 0, 'events': 0, 'markers': 0, 'line_events': 0, 'return_events': 0, 'cprofile_compiled_entries': 0,
             'cprofile_runs': 0, 'transparent_results': 0, 'unraisable': 0}
    exit_kinds = {}
    templates = {}
    by_cell = {}
    nviol = 0
    for (bname, d, modname, obs, spec), (r, recs, done) in zip(jobs, outs):
        if done is None:
            ck.discrepancy('driver-crash:%s:%s' % (bname, obs), 'observer run crashed or hung (rc=%s, timed out=%s)' % (r.rc, r.timed_out),
                           {'build': bname, 'observer': obs, 'module': modname, 'stderr': (r.err or '')[-3000:],
                            'module_source': sources[modname].replace('@@HEADER@@', BUILDS[bname][0])})
            continue
        for k in total:
            total[k] += done.get(k, 0)
        by_cell['%s/%s' % (bname, obs)] = by_cell.get('%s/%s' % (bname, obs), 0) + done['runs']
        if obs != 'cprofile':
            for k, v in done['exit_kinds'].items():
                exit_kinds[k] = exit_kinds.get(k, 0) + v
            for k, v in done['templates_activated'].items():
                templates[k] = templates.get(k, 0) + v
        ck.inconclusive_if(done.get('marker_log_overflow'), 'marker log overflow in %s/%s' % (bname, obs))
        for v in recs:
            nviol += 1
            key = key_of(v)
            ck.discrepancy(key, '%s in build %s under %s: %s' % (v['kind'], bname, obs, json.dumps({k: v[k] for k in v if k != 'run'})[:300]),
                           {'build': bname, 'cflags': BUILDS[bname][1], 'observer': obs, 'violation': {k: v[k] for k in v if k != 'run'},
                            'run': v['run'], 'module_source': sources[modname].replace('@@HEADER@@', BUILDS[bname][0]),
                            'python_callback_module': pysrc, 'ext': '.pyx'})
    ck.inconclusive_if(skipped > 0, '%d module build(s) failed' % skipped)
    for kind in ('raise', 'generator-suspend', 'generator-close-throw-drop', 'early-exit-in-finally-or-with',
                 'return-or-unwind(activations)'):
        ck.inconclusive_if(exit_kinds.get(kind, 0) < 100, 'exit-path kind %s observed only %d times' % (kind, exit_kinds.get(kind, 0)))
    ck.inconclusive_if(total['line_events'] == 0, 'no line event observed')
    missing = [t for t in gen.DEF_TEMPLATES + gen.GEN_TEMPLATES + gen.CORO_TEMPLATES + gen.NOGIL_TEMPLATES if templates.get(t, 0) == 0]
    ck.inconclusive_if(bool(missing), 'templates never activated: %s' % missing)
    ck.cov['cprofile_note'] = ('cProfile on CPython 3.12 collects through sys.monitoring; this Cython only feeds sys.monitoring on '
                               '3.13+ (CYTHON_USE_SYS_MONITORING), so compiled functions are invisible to it here: %d compiled '
                               'entries in %d cProfile runs; only crash-freedom and unchanged results are checked for it'
                               % (total['cprofile_compiled_entries'], total['cprofile_runs']))
    samples = [{'module': g.modname, 'root': g.fns[0].name, 'template': g.fns[0].template,
                'source_head': sources[g.modname].split('\n')[g.fns[0].first - 1:g.fns[0].last]} for g in gens[:2]]
    return ck.finish(
        total['runs'], sum(1 for c in by_cell) * len(templates),
        'call tree = (module, root def function, depth budget d); every tree is run without observers (baseline result and '
        'ground-truth marker log) and under each observer of each build; the merged event/marker stream is checked by a '
        'stack automaton (call/return balance and nesting, caller attribution via call-site ids, call counts == activations, '
        'line events inside the frame and inside the function span, unchanged result and execution). distinct_nontrivial = '
        '(build, observer) cells x function templates activated',
        samples,
        extra={'runs_by_build_observer': by_cell, 'events': total['events'], 'markers': total['markers'],
               'line_events': total['line_events'], 'return_events': total['return_events'], 'exit_kinds': exit_kinds,
               'templates_activated': templates, 'functions_per_module': nfuncs, 'modules': nmods, 'depths': depths,
               'violation_records': nviol, 'runs_with_unchanged_result': total['transparent_results'],
               'unraisable_records': total['unraisable']},
        assumptions=['CPython 3.12.1: Cython uses the legacy tstate->c_profilefunc/c_tracefunc path (sys.monitoring only on 3.13+)',
                     "CPython's exact event sequence (exception events, c_call events) is not compared",
                     'nogil functions are expected to emit events only with -DCYTHON_TRACE_NOGIL=1'])


def replay(ck, data):
    """Re-run the (module, root, depth, observer, build) of a witness: the module is regenerated from the recorded seed."""
    import random
    w = data.get('witness', data)
    run = w.get('run')
    if not run:
        print(json.dumps(w, indent=1)[:3000])
        return 2
    seed, tier = data.get('seed', 0), data.get('tier', 'quick')
    nfuncs = 60 if tier == 'quick' else 64
    nmods = 1 if tier == 'quick' else 6
    gens = []
    for mi in range(nmods):
        g = gen.ModuleGen(random.Random('%s:%d:%s' % ('C45', seed, 'mod%d' % mi)), 'c45m%d' % mi, nfuncs, 'c45py')
        g.py_base = 5000 + 200 * mi
        gens.append(g)
    emitted = {g.modname: g.emit('@@HEADER@@') for g in gens}
    pysrc, pytable = gen.gen_pymodule(gens)
    g = [x for x in gens if x.modname == run['module']][0]
    bname, obs = w['build'], run['observer']
    header, cflags, _ = BUILDS[bname]
    tree = cy.Tree('C45r')
    bd = tree.subdir('b')
    open(os.path.join(bd, 'c45log.pxd'), 'w').write(gen.LOG_PXD)
    open(os.path.join(bd, 'c45py.py'), 'w').write(pysrc)
    d, info = tree.build_sources({g.modname: emitted[g.modname][0].replace('@@HEADER@@', header), 'c45log': gen.LOG_PYX},
                                 subdir='b', ext='.pyx', cflags=cflags)
    if not all(i['ok'] for i in info.values()):
        print('build failed', {n: i['errors'][-800:] for n, i in info.items() if not i['ok']})
        return 2
    mtable = dict(emitted[g.modname][1])
    mtable.update(pytable)
    traced = [fid for fid, t in mtable.items() if (t['kind'] != 'nogil' or bname == 'both')]
    spec = {'builddir': d, 'table': mtable, 'depths': [run['d']], 'observers': [obs], 'out': os.path.join(tree.work, 'o.jsonl'),
            'modules': [{'name': g.modname, 'site_owner': g.site_owner, 'roots': [{'name': run['root']}],
                         'traced_profile': traced, 'traced_trace': traced}]}
    sp = os.path.join(tree.work, 'spec.json')
    json.dump(spec, open(sp, 'w'))
    r = core.run([core.PY, '-m', 'props.C45_driver', sp], env=tree.env(d), timeout=300)
    n = 0
    if os.path.exists(spec['out']):
        for ln in open(spec['out']):
            rec = json.loads(ln)
            if not rec.get('done'):
                n += 1
                print('violation', key_of(rec), json.dumps({k: rec[k] for k in rec if k != 'run'}))
    print((r.err or '')[-1500:])
    if n:
        print('VIOLATION property=C45 replay=<replayed>')
        return 1
    print('replay: no violation observed now')
    return 0
