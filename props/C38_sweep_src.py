"""Source text of the pure-mode sweep module used by C38 part (b).  The same text is (1) compiled and
(2) executed by CPython with Cython/Shadow.py as `cython`."""

INT_TYPES = {
    # name: (cython type, lo, hi)
    'schar': ('cython.schar', -2 ** 7, 2 ** 7 - 1), 'short': ('cython.short', -2 ** 15, 2 ** 15 - 1),
    'int': ('cython.int', -2 ** 31, 2 ** 31 - 1), 'long': ('cython.long', -2 ** 63, 2 ** 63 - 1),
    'longlong': ('cython.longlong', -2 ** 63, 2 ** 63 - 1),
    'uchar': ('cython.uchar', 0, 2 ** 8 - 1), 'ushort': ('cython.ushort', 0, 2 ** 16 - 1),
    'uint': ('cython.uint', 0, 2 ** 32 - 1), 'ulonglong': ('cython.ulonglong', 0, 2 ** 64 - 1),
}

TEMPLATE_DIVMOD = '''
def cdiv_{n}(xs: list, ys: list):
    a: {t}
    b: {t}
    k: cython.Py_ssize_t
    out = []
    for k in range(len(xs)):
        a = xs[k]
        b = ys[k]
        out.append(cython.cdiv(a, b))
    return out

def cmod_{n}(xs: list, ys: list):
    a: {t}
    b: {t}
    k: cython.Py_ssize_t
    out = []
    for k in range(len(xs)):
        a = xs[k]
        b = ys[k]
        out.append(cython.cmod(a, b))
    return out

@cython.cdivision(True)
def nativediv_{n}(xs: list, ys: list):
    a: {t}
    b: {t}
    k: cython.Py_ssize_t
    out = []
    for k in range(len(xs)):
        a = xs[k]
        b = ys[k]
        out.append(a // b)
    return out

@cython.cdivision(True)
def nativemod_{n}(xs: list, ys: list):
    a: {t}
    b: {t}
    k: cython.Py_ssize_t
    out = []
    for k in range(len(xs)):
        a = xs[k]
        b = ys[k]
        out.append(a % b)
    return out
'''

TEMPLATE_CAST = '''
def cast_{n}_from_double(xs: list):
    d: cython.double
    k: cython.Py_ssize_t
    out = []
    for k in range(len(xs)):
        d = xs[k]
        out.append(cython.cast({t}, d))
    return out

def cast_{n}_from_{w}(xs: list):
    v: {wt}
    k: cython.Py_ssize_t
    out = []
    for k in range(len(xs)):
        v = xs[k]
        out.append(cython.cast({t}, v))
    return out

def cast_double_from_{n}(xs: list):
    v: {t}
    k: cython.Py_ssize_t
    out = []
    for k in range(len(xs)):
        v = xs[k]
        out.append(cython.cast(cython.double, v))
    return out

def cast_bint_from_{n}(xs: list):
    v: {t}
    k: cython.Py_ssize_t
    out = []
    for k in range(len(xs)):
        v = xs[k]
        out.append(cython.cast(cython.bint, v))
    return out
'''

TAIL = '''
def cast_float_from_double(xs: list):
    d: cython.double
    k: cython.Py_ssize_t
    out = []
    for k in range(len(xs)):
        d = xs[k]
        out.append(cython.cast(cython.float, d))
    return out

def cast_double_from_float(xs: list):
    f: cython.float
    k: cython.Py_ssize_t
    out = []
    for k in range(len(xs)):
        f = xs[k]
        out.append(cython.cast(cython.double, f))
    return out

def cast_bint_from_double(xs: list):
    d: cython.double
    k: cython.Py_ssize_t
    out = []
    for k in range(len(xs)):
        d = xs[k]
        out.append(cython.cast(cython.bint, d))
    return out

def is_compiled():
    return cython.compiled
'''


def source():
    out = ['# cython: language_level=3', 'import cython']
    for n, (t, lo, hi) in INT_TYPES.items():
        out.append(TEMPLATE_DIVMOD.format(n=n, t=t))
        wide = ('longlong', 'cython.longlong') if lo < 0 else ('ulonglong', 'cython.ulonglong')
        out.append(TEMPLATE_CAST.format(n=n, t=t, w=wide[0], wt=wide[1]))
    out.append(TAIL)
    return '\n'.join(out) + '\n'
