"""C42 corpus: (1) pysyntax modules, (2) template-generated .pyx/.pxd modules that cimport each other
(cdef classes, inheritance across modules, fused functions, memoryviews, structs/enums, closures, many names),
(3) a seeded sample of the repository's tests/run files."""
import os
import re

from vlib import core
from vlib.gen import pysyntax

PXD = '''\
cdef struct Point%(i)d:
    double x
    double y

cdef enum Color%(i)d:
    RED%(i)d = %(k)d
    GREEN%(i)d
    BLUE%(i)d

cdef class Base%(i)d%(basedecl)s:
    cdef public int count%(i)d
    cdef readonly double total%(i)d
    cdef dict registry%(i)d
    cdef list names%(i)d
    cpdef double add%(i)d(self, double v)
    cdef int _bump%(i)d(self) except -1

cdef class Derived%(i)d(Base%(i)d):
    cdef object extra%(i)d

cdef inline int helper%(i)d(int x) noexcept nogil:
    return x * %(k)d + %(k2)d
'''

PYX = '''\
# cython: language_level=3
cimport cython
from libc.math cimport sqrt, floor
%(cimports)s

cdef extern from "pm_hdr_a.h":
    int PM_HDR_A
cdef extern from "pm_hdr_b.h":
    int PM_HDR_B
cdef extern from "pm_hdr_c.h":
    int PM_HDR_C

ctypedef fused num%(i)d_t:
    int
    long
    double
    float

NAMES%(i)d = {%(nameset)s}
TABLE%(i)d = {%(namedict)s}


cdef class Base%(i)d%(basedecl)s:
    """Base class %(i)d.

    >>> Base%(i)d().count%(i)d
    0
    """
    def __cinit__(self):
        self.count%(i)d = 0
        self.total%(i)d = %(k)d.5
        self.registry%(i)d = {}
        self.names%(i)d = []

    cpdef double add%(i)d(self, double v):
        self.total%(i)d += v
        self._bump%(i)d()
        return self.total%(i)d

    cdef int _bump%(i)d(self) except -1:
        self.count%(i)d += 1
        if self.count%(i)d > %(k)d000:
            raise OverflowError("too many: %%d" %% self.count%(i)d)
        return self.count%(i)d

    def register%(i)d(self, str name, value=None, *args, **kwargs):
        self.registry%(i)d[name] = (value, args, kwargs)
        self.names%(i)d.append(name)
        return sorted(self.registry%(i)d)

    @property
    def mean%(i)d(self):
        return self.total%(i)d / self.count%(i)d if self.count%(i)d else 0.0

    def __eq__(self, other):
        return isinstance(other, Base%(i)d) and (<Base%(i)d>other).count%(i)d == self.count%(i)d

    def __hash__(self):
        return hash((self.count%(i)d, %(k)d))

    def __repr__(self):
        return f"Base%(i)d(count={self.count%(i)d!r}, total={self.total%(i)d:.3f})"


cdef class Derived%(i)d(Base%(i)d):
    def __init__(self, extra=None):
        self.extra%(i)d = extra

    cpdef double add%(i)d(self, double v):
        return Base%(i)d.add%(i)d(self, v * %(k2)d)

    def __len__(self):
        return len(self.names%(i)d)

    def __getitem__(self, Py_ssize_t idx):
        return self.names%(i)d[idx]


cpdef num%(i)d_t fused_add%(i)d(num%(i)d_t a, num%(i)d_t b):
    return a + b * %(k)d


def fused_user%(i)d(x, y):
    return fused_add%(i)d[int](x, y), fused_add%(i)d[double](x, y), fused_add%(i)d(<long>x, <long>y)

%(memview)s

cdef Point%(i)d make_point%(i)d(double x, double y) noexcept:
    cdef Point%(i)d p
    p.x = x
    p.y = y
    return p


def point_norm%(i)d(double x, double y):
    cdef Point%(i)d p = make_point%(i)d(x, y)
    return sqrt(p.x * p.x + p.y * p.y), floor(p.x), <int>GREEN%(i)d, helper%(i)d(<int>x), PM_HDR_A + PM_HDR_B + PM_HDR_C


def closures%(i)d(n, scale=%(k)d):
    acc = []
    total = [0]

    def push(x, _acc=acc):
        _acc.append(x * scale)
        total[0] += x
        return lambda y: x + y + len(acc)

    def drain():
        while acc:
            yield acc.pop()

    adders = [push(i) for i in range(n)]
    return [a(%(k2)d) for a in adders], list(drain()), total[0], {name: len(name) for name in NAMES%(i)d}


def strings%(i)d(obj, key="%(word)s"):
    parts = ["%(word)s", u"%(word)s_u", b"%(word)s_b", "%(word)s" + str(obj), "%(word)s" * 2]
    text = " ".join(str(p) for p in parts)
    if key in TABLE%(i)d:
        text = text.replace(key, TABLE%(i)d[key]).strip().upper()
    return text.split(), text.startswith("%(word)s"), text.encode("utf-8"), "%%s=%%r" %% (key, obj)


def errors%(i)d(d, key, default=None):
    try:
        try:
            return d[key]
        except (KeyError, IndexError) as exc:
            if default is None:
                raise ValueError("missing %%r" %% (key,)) from exc
            return default
        finally:
            d.get("%(word)s")
    except TypeError:
        return getattr(d, "%(word)s", default)


def kwmerge%(i)d(f, a, b, *rest):
    # the first merged keyword dict of the module: a literal part (duplicate check) and a mapping part
    return f(*rest, **a, %(word)s=%(k)d, **b), dict(a, **b), {**a, "%(word)s": 1, **b}


def with_stmt%(i)d(cm, *args, **kwargs):
    with cm as f, cm:
        return f.read(*args, **kwargs), [a for a in args if a], kwargs.get("%(word)s")

%(useprev)s
'''

MEMVIEW = '''
def mv_sum%(i)d(double[:] a, int[:, ::1] b):
    cdef double total = 0
    cdef Py_ssize_t i, j
    for i in range(a.shape[0]):
        total += a[i]
    for i in range(b.shape[0]):
        for j in range(b.shape[1]):
            total += b[i, j] * %(k)d
    return total, a[::2].shape[0]
'''

USEPREV = '''
def use_prev%(i)d(int n):
    cdef Base%(j)d b = Derived%(j)d()
    cdef Derived%(i)d d = Derived%(i)d(b)
    for _ in range(n):
        b.add%(j)d(helper%(j)d(n))
        d.add%(i)d(0.5)
    return b.count%(j)d, d.total%(i)d, b == d, <int>RED%(j)d + <int>BLUE%(i)d
'''

WORDS = ['alpha', 'beta', 'gamma', 'delta', 'omega', 'kappa', 'sigma', 'theta', 'lambda_', 'zeta', 'eta', 'iota']


def pyx_modules(rng, count):
    """-> {relpath: text}, [module rel paths]"""
    files, mods = {}, []
    for i in range(count):
        k = rng.randrange(2, 9)
        k2 = rng.randrange(2, 7)
        j = i - 1
        inherit = i > 0 and rng.random() < 0.5
        words = rng.sample(WORDS, 6)
        names = ['%s_%d_%d' % (w, i, n) for n, w in enumerate(words)]
        d = {'i': i, 'j': j, 'k': k, 'k2': k2, 'word': words[0],
             'basedecl': '(Base%d)' % j if inherit else '',
             'nameset': ', '.join('"%s"' % n for n in names),
             'namedict': ', '.join('"%s": "%s"' % (n, n[::-1]) for n in names),
             'cimports': ('from pm%d cimport Base%d, Derived%d, helper%d, RED%d' % (j, j, j, j, j)) if i > 0 else '',
             'memview': (MEMVIEW % {'i': i, 'k': k}) if i % 3 == 0 else '',
             'useprev': (USEPREV % {'i': i, 'j': j}) if i > 0 else ''}
        pxd = PXD % d
        if inherit:
            pxd = 'from pm%d cimport Base%d\n\n' % (j, j) + pxd
        files['pm%d.pxd' % i] = pxd
        files['pm%d.pyx' % i] = PYX % d
        mods.append('pm%d.pyx' % i)
    for h in 'abc':
        files['pm_hdr_%s.h' % h] = '#define PM_HDR_%s %d\n' % (h.upper(), ord(h))
    return files, mods


def py_modules(seed_tag, count, rng_factory):
    files, mods, rejected = {}, [], 0
    for i in range(count):
        prof = 'names' if i % 2 == 0 else 'mixed'
        text, info = pysyntax.generate(rng_factory('%s:%d' % (seed_tag, i)), profile=prof)
        rejected += info['rejected']
        files['gm%d.py' % i] = text
        mods.append('gm%d.py' % i)
    return files, mods, rejected


SKIP_TAGS = re.compile(r'#\s*tag:.*\b(cpp|cpp11|cpp17|cpp20|numpy|openmp|pythran|no-cpp|gdb|perf_hints|warnings|trace|cimport_from_pyx)\b')


def tests_run_modules(rng, count, maxsize=40000):
    """a seeded sample of tests/run/*.pyx|*.py of the tree under observation that are self-contained C-mode tests"""
    d = os.path.join(core.REPO, 'tests', 'run')
    cand = []
    for fn in sorted(os.listdir(d)):
        if not fn.endswith(('.pyx', '.py')) or fn.startswith(('test_', 'cpp_', 'numpy', 'pstats', 'line_')):
            continue
        p = os.path.join(d, fn)
        try:
            if os.path.getsize(p) > maxsize:
                continue
            head = open(p, encoding='utf-8').read(2000)
        except (OSError, UnicodeDecodeError):
            continue
        if SKIP_TAGS.search(head) or re.search(r'#\s*mode:\s*(error|compile)', head) or 'distutils:' in head:
            continue
        cand.append(fn)
    rng.shuffle(cand)
    files, mods = {}, []
    for fn in cand[:count]:
        base = os.path.splitext(fn)[0]
        try:
            files['tr/' + fn] = open(os.path.join(d, fn), encoding='utf-8').read()
        except UnicodeDecodeError:
            continue
        mods.append('tr/' + fn)
        for ext in ('.pxd',):
            q = os.path.join(d, base + ext)
            if os.path.exists(q):
                files['tr/' + base + ext] = open(q, encoding='utf-8').read()
    return files, mods
