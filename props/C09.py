"""C09 Compile-time constants keep their exact Python values (DESIGN.md section 5, C09).

Workload: generated .py modules; every function returns one constant expression (also as default argument,
class attribute, module global, right-hand side of `x in <literal collection>`).
Monitors: (M1) deep type-qualified signature of the run-time value vs CPython executing the same source;
(M6) vlib/mon/constpool.py inside the interpreted compiler: dedup keys / pooled number constants vs the values the
nodes denote.  Discrepancies are classified by leaf difference, innermost container, and the ablation "translate the
same function with constant pooling switched off"."""
import ast
import json
import os
import re
from concurrent.futures import ThreadPoolExecutor

from vlib import core, creach, cy, diff
from vlib.gen import constexpr

PLUGIN = 'vlib.mon.constpool'
HEADER = '# cython: language_level=3\n' + constexpr.PRELUDE + '\n'
IN_ARGS = ['0', '0.0', '-0.0', 'False', '1', '1.0', 'True', '0j', "''", "b''", 'None', '2', "'a'", "b'a'", '(0,)',
           '-1', '1j', 'F(0.0)', 'I(1)', '()', '2.0']


# ----------------------------------------------------------------------------------------------- workload

def make_function(rng, idx, expr):
    """source block for one expression; returns dict(name, shape, expr, src, cases)"""
    name = 'fz%dz' % idx
    r = rng.random()
    if isinstance(expr, tuple):         # directed: (shape, expression)
        r = {'ret': 0.0, 'default': 0.85, 'class': 0.9, 'global': 0.99}[expr[0]]
        expr = expr[1]
    m = re.match(r'^(\S+) (in|not in) (.+)$', expr)
    if m and m.group(1) in constexpr.MIX and rng.random() < 0.7:
        src = 'def %s(x):\n    return x %s %s\n' % (name, m.group(2), m.group(3))
        return {'name': name, 'shape': 'in', 'expr': expr, 'src': src,
                'cases': [{'f': name, 'a': '(%s,)' % a, 't': 'in'} for a in IN_ARGS]}
    if r < 0.80:
        shape, src = 'ret', 'def %s():\n    return %s\n' % (name, expr)
    elif r < 0.88:
        shape, src = 'default', 'def %s(a=(%s), *, k=(%s)):\n    return a, k\n' % (name, expr, expr)
    elif r < 0.94:
        shape, src = 'class', 'class K%d:\n    A = %s\ndef %s():\n    return K%d.A\n' % (idx, expr, name, idx)
    else:
        shape, src = 'global', 'G%d = %s\ndef %s():\n    return G%d\n' % (idx, expr, name, idx)
    cases = [{'f': name, 'a': '()', 't': shape}]
    if shape == 'default':
        cases.append({'x': '(M.%s.__defaults__, M.%s.__kwdefaults__)' % (name, name), 'f': name, 't': 'default-attr'})
    return {'name': name, 'shape': shape, 'expr': expr, 'src': src, 'cases': cases}


def directed():
    """shapes named in DESIGN C09 W and by the recon, always present"""
    return [
        '(-0.0, 0.0), (0.0, -0.0)', '(0.0, -0.0)', '(-0.0, 0.0)', '(0, 0.0), (0.0, 0), (False, 0), (0, False)',
        '(1, 1.0, True), (True, 1, 1.0), (1.0, True, 1)', '(0j, -0j), (-0j, 0j)', '(0.0,) * 3', '(-0.0,) * 3',
        '(0.0,) * 2', '(1,) * 2', '(1,) * 3', '(1.0,) * 3', '(True,) * 3', '3 * (1,)', '(True,) * 2', '(1,) * 1',
        'frozenset((0.0, 0))', 'frozenset((0, 0.0))', 'frozenset((1, 1.0, True))', 'frozenset((True, 1.0, 1))',
        'frozenset((0.0, -0.0))', 'frozenset((-0.0, 0.0))', 'frozenset((0.0,))', 'frozenset((-0.0,))',
        'frozenset((1, 2))', 'frozenset((2, 1))', 'frozenset((1.0, 2))', 'frozenset((1, 2.0))',
        'slice(0.0, -0.0)', 'slice(-0.0, 0.0)', 'slice(0, 1)', 'slice(0.0, 1)', 'slice(False, True)', 'slice(None, 0.0)',
        'GETKEY[0.0:-0.0]', 'GETKEY[-0.0:0.0]', 'GETKEY[0:1:1.0]', 'GETKEY[0:1:True]', 'GETKEY[0:1:1]',
        '(-0.0, (0.0, -0.0))', '(0.0, (-0.0, 0.0))', '((0, 0.0), (0.0, 0))', '((0.0, 0), (0, 0.0))',
        '-(2**63)', '-2**63', '7 // -2', '-7 // 2', '7 % -2', '-7 % 2', '1e400', '-1e400', '0.0 * -1', '-1 * 0.0',
        '2 ** -1', '2 ** -2', '(-2) ** -1', '1 << 62', '1 << 63', '1 << 64', '-1 << 63', '-1 >> 1', '-(1 << 63) >> 63',
        '2**64 >> 1', '0xffff_ffff_ffff_ffff', '0b1' + '0' * 64, '0o1777777777777777777777', '10**13', '10**13 + 1',
        '9999999999999', '10000000000001', '1e22', '1e23', '5e-324', '-5e-324', '-0.0', '+0.0', '-(0.0)', '-(-0.0)',
        '0.0, -0.0', '(1, 2.0), (1.0, 2)', '(1, 2), (1.0, 2.0), (True, 2)', "('', b''), (b'', '')", "('a',), (b'a',)",
        '(None, 0, False), (0, None, 0.0)', 'True + True', 'True * 2', '~True', '-True', '+True', 'True & True',
        'True | False', 'True ^ True', 'True & 1', 'not 0.0', 'not -0.0', '0.0 or -0.0', '-0.0 or 0.0', '0 or 0.0',
        '0.0 and 1', '1 and 1.0', '1.0 if 1 else 1', '(1.0 if 0 else 1, 1 if 0 else 1.0)',
        '2**2000', '-(2**2000)', '2**2000 - 1', '(2**63, 2**63 - 1, -(2**63), -(2**63) - 1)',
        '(2147483647, 2147483648, -2147483648, -2147483649)', '(0x7fffffff, 0x80000000, -0x80000000, -0x80000001)',
        '[(0.0, -0.0), (-0.0, 0.0)]', '{0.0: (0.0, -0.0), 1: (-0.0, 0.0)}', '(0.0, -0.0) + (-0.0, 0.0)',
        '((0.0, -0.0) * 2, (-0.0, 0.0) * 2)', '1_000_000', '0x_ff', '0b_1', '0o_7', '1_0.0_1', '1e1_0',
        '-0x80000000', '-0X8000_0000', '-0o20000000000', '-0b1' + '0' * 31, '-0x7fffffff', '-(0x80000000)', '-0x1', '-00',
        '-0xffffffff', '-0x80000001', '0x80000000', '0xffffffff', '0o17777777777', '-0o17777777777', '-2147483648',
        '-~(2147483647)', '(~-0o17777777777) << 63', '~5', '~-5 << 62', '~0x7fffffff', '-~0x7fffffff', '~(2**63)',
        '~-1', '~0 >> 1', '(~1, -~1, ~-1, ~~1)', '~0x7fffffff - 1', '~5 * 2**62', '~(-2**31) + 1',
        ('default', '(0x0,) * 5'), ('default', '0 * (0.0j,)'), ('default', '(0,) * 2'), ('default', '(0.0,) * 3'),
        ('default', '(False,) * 2'), ('default', '(0.0,) * 2'), ('default', '(-0.0,) * 2'), ('default', '(1,) * 2'),
        ('default', '(1.0,) * 2'), ('default', '(0, 0.0)'), ('default', '(0.0, 0)'), ('default', '0.0'),
        ('default', '-0.0'), ('default', '(0.0, -0.0)'), ('default', '(-0.0, 0.0)'), ('class', '(0.0, -0.0)'),
        ('global', '(-0.0, 0.0)'), ('default', "('a',) * 2"), ('default', "(b'a',) * 2"),
        '(1, 2) * 2 * 3', '2 * (0.0,) * 3', '(1,) * 3 * 1', '3 * ((0,) * 2)', '[1, 2] * 2 * 2', '(0.0, -0.0) * 2 * 2',
        '(1e400, -1e400)', '(-1e400, 1e400)', '(1e400 - 1e400,)', '(0j, 0.0, 0)', '(0, 0.0, 0j)',
    ]


def workload(ck):
    rng = ck.rng('exprs')
    n = ck.pick(2000, 60000)
    exprs = directed() + constexpr.generate(rng, n)
    # pooling pressure: a few hundred expressions are repeated verbatim elsewhere in the run
    reps = [rng.choice(exprs[len(directed()):]) for _ in range(len(exprs) // 12)]
    exprs = exprs + reps
    head = exprs[:len(directed())]
    tail = exprs[len(directed()):]
    rng.shuffle(tail)
    # directed shapes are spread over the first module(s) so that equal-but-distinct shapes meet in one pool
    exprs = head + tail
    rng2 = ck.rng('shapes')
    return [make_function(rng2, i, e) for i, e in enumerate(exprs)]


# ----------------------------------------------------------------------------------------------- build

def module_text(funcs):
    """module source and {name: (first line, last line)}"""
    lines = HEADER.count('\n')
    parts = [HEADER]
    span = {}
    for f in funcs:
        n = f['src'].count('\n')
        span[f['name']] = (lines + 1, lines + n)
        parts.append(f['src'])
        lines += n
    return ''.join(parts), span


def _error_lines(text):
    """source lines of compiler *errors* (warnings are not rejections)"""
    out = set()
    for ln in text.splitlines():
        if ln.startswith('warning:'):
            continue
        m = re.search(r'\.py:(\d+):\d+:', ln)
        if m:
            out.add(int(m.group(1)))
    return out


def _c_error_py_lines(c_file, modname, err):
    """map gcc error positions to source lines through the `/* "mod.py":N` position comments of the generated C"""
    clines = sorted({int(m.group(1)) for m in re.finditer(re.escape(modname) + r'\.c:(\d+):\d+: error', err)})
    if not clines:
        return set()
    try:
        text = open(c_file, encoding='utf-8', errors='replace').read().splitlines()
    except OSError:
        return set()
    pat = re.compile(r'/\* "%s\.py":(\d+)' % re.escape(modname))
    out = set()
    for cl in clines[:200]:
        for k in range(min(cl, len(text)) - 1, max(0, cl - 400), -1):
            m = pat.search(text[k])
            if m:
                out.add(int(m.group(1)))
                break
    return out


def build_modules(tree, subdir, mods, plugin_args=None, rounds=4):
    """mods: {name: [funcs]}. Translate with the pool monitor and build with gcc. Functions on source lines that the
    compiler or the C compiler rejects are dropped (counted, left to C43) and the module is rebuilt.
    Returns (dir, {name: {funcs, src, c, so, ok, errors, plugin, span, dropped, crash}})"""
    d = tree.subdir(subdir)
    state = {}
    pending = dict(mods)
    for attempt in range(rounds):
        if not pending:
            break
        jobs, names = [], []
        for name, funcs in pending.items():
            text, span = module_text(funcs)
            p = os.path.join(d, name + '.py')
            with open(p, 'w', encoding='utf-8') as fh:
                fh.write(text)
            st = state.setdefault(name, {'dropped': []})
            st.update({'funcs': funcs, 'src': p, 'span': span, 'text': text})
            jobs.append({'src': p})
            names.append(name)
        res, _ = tree.translate(jobs, plugins=[PLUGIN], plugin_args={PLUGIN: plugin_args or {}})
        for name, r in zip(names, res):
            state[name].update({'c': r.get('c'), 'ok': bool(r['ok']), 'stage': 'translate',
                                'errors': (r.get('exc') or '') + (r.get('errors') or ''),
                                'plugin': (r.get('plugin') or {}).get(PLUGIN, {}), 'crash': bool(r.get('exc'))})
        tobuild = [n for n in names if state[n]['ok']]
        for n, b in zip(tobuild, tree.cbuild_many([state[n]['c'] for n in tobuild])):
            state[n].update({'so': b['so'], 'ok': b['ok'], 'stage': 'cc'})
            if not b['ok']:
                state[n]['errors'] = b['err']
        nxt = {}
        for name in names:
            st = state[name]
            if st['ok']:
                continue
            if st['stage'] == 'translate':
                bad_lines = _error_lines(st['errors'])
            else:
                bad_lines = _c_error_py_lines(st['c'], name, st['errors'])
            bad = [f for f in st['funcs'] if any(st['span'][f['name']][0] <= ln <= st['span'][f['name']][1]
                                                 for ln in bad_lines)]
            if bad and attempt < rounds - 1:
                for f in bad:
                    lo, hi = st['span'][f['name']]
                    msg = next((ln for ln in st['errors'].splitlines()
                                if re.search(r':(%s):' % '|'.join(str(x) for x in range(lo, hi + 1)), ln)), '')
                    if st['stage'] == 'cc':
                        msg = next((ln for ln in st['errors'].splitlines() if ' error' in ln), '')
                    st['dropped'].append({'expr': f['expr'], 'shape': f['shape'], 'stage': st['stage'],
                                          'error': msg[-220:]})
                badn = {f['name'] for f in bad}
                nxt[name] = [f for f in st['funcs'] if f['name'] not in badn]
        pending = nxt
    return d, state


# ----------------------------------------------------------------------------------------------- classification

NUMERIC = ('int', 'float', 'bool', 'complex')


def first_diff(e, g, path=()):
    """(path of container kinds, expected leaf, observed leaf) at the first difference of two signatures"""
    if e == g:
        return None
    if not (isinstance(e, list) and isinstance(g, list)) or not e or not g or e[0] != g[0]:
        return path, e, g
    t = e[0]
    if t in ('frozenset', 'set') and len(e) > 1 and isinstance(e[1], list) and len(e[1]) == len(g[1]):
        # signatures of sets are sorted by repr: a changed element may sit at another position, so pair the elements
        # that are not common to both sides by their skeleton (container kinds and lengths) before descending
        eo = [x for x in e[1] if x not in g[1]]
        go = [x for x in g[1] if x not in e[1]]
        for a in eo:
            b = next((y for y in go if _skel(y) == _skel(a)), None)
            if b is not None:
                return first_diff(a, b, path + (t,)) or (path + (t,), a, b)
        if eo and go:
            return first_diff(eo[0], go[0], path + (t,)) or (path + (t,), eo[0], go[0])
    if t in ('tuple', 'list') and len(e) > 1 and isinstance(e[1], list) and len(e[1]) == len(g[1]):
        for a, b in zip(e[1], g[1]):
            d = first_diff(a, b, path + (t,))
            if d:
                return d
    if t == 'dict' and len(e[1]) == len(g[1]):
        for (ka, va), (kb, vb) in zip(e[1], g[1]):
            d = first_diff(ka, kb, path + ('dictkey',)) or first_diff(va, vb, path + ('dict',))
            if d:
                return d
    if t == 'slice':
        for a, b in zip(e[1:], g[1:]):
            d = first_diff(a, b, path + ('slice',))
            if d:
                return d
    return path, e, g


def _skel(x):
    if isinstance(x, list) and len(x) > 1 and isinstance(x[1], list):
        return [x[0], [_skel(c) for c in x[1]]]
    if isinstance(x, list) and x and x[0] == 'slice':
        return ['slice']
    return 'leaf'


def _num(leaf):
    try:
        return eval(leaf[1], {'__builtins__': {}}, {'inf': float('inf'), 'nan': float('nan')})
    except Exception:
        return None


def leaf_kind(e, g):
    if not (isinstance(e, list) and isinstance(g, list) and len(e) == 2 and len(g) == 2
            and isinstance(e[1], str) and isinstance(g[1], str)):
        return 'shape:%s' % (e[0] if isinstance(e, list) and e else '?')
    te, tg = e[0], g[0]
    if te in NUMERIC and tg in NUMERIC:
        ve, vg = _num(e), _num(g)
        if ve is not None and vg is not None and ve == vg:
            if te == tg == 'float':
                return 'float-zero-sign'
            if te == tg == 'complex':
                return 'complex-zero-sign'
            if te != tg:
                return 'equal-value-type:' + '/'.join(sorted((te, tg)))
        if te == tg:
            return 'value:' + te
    return 'value:%s->%s' % (te, tg)


def equal_elements_in_frozenset_literal(src):
    """does the source contain a frozenset(<literal>) call (or `in {..}` set) whose constant items are mutually equal?"""
    try:
        tree = ast.parse(src)
    except SyntaxError:
        return False
    for node in ast.walk(tree):
        elts = None
        if isinstance(node, ast.Call) and getattr(node.func, 'id', None) == 'frozenset' and len(node.args) == 1 \
                and isinstance(node.args[0], (ast.Tuple, ast.List, ast.Set)):
            elts = node.args[0].elts
        elif isinstance(node, ast.Set):
            elts = node.elts
        if not elts:
            continue
        vals = []
        for e in elts:
            try:
                vals.append(eval(compile(ast.Expression(e), '<e>', 'eval'), {'__builtins__': {}}, {}))
            except Exception:
                pass
        for i in range(len(vals)):
            for j in range(i + 1, len(vals)):
                try:
                    if vals[i] == vals[j] and hash(vals[i]) == hash(vals[j]):
                        return True
                except Exception:
                    pass
    return False


def _fkind(v):
    if isinstance(v, bool):
        return 'bool'
    if isinstance(v, int):
        return 'int'
    if isinstance(v, float):
        if v != v:
            return 'nan'
        if v in (float('inf'), float('-inf')):
            return 'inf'
        if v == 0:
            return 'zero'
        return 'finite'
    return type(v).__name__


_OPNAME = {ast.Add: 'add', ast.Sub: 'sub', ast.Mult: 'mul', ast.Div: 'truediv', ast.FloorDiv: 'floordiv', ast.Mod: 'mod',
           ast.Pow: 'pow'}


def _c_model(op, a, b):
    """what plain C double arithmetic (as the utility code spells it) gives; None when not modelled"""
    import math
    try:
        a, b = float(a), float(b)
        if op == 'floordiv':
            q = a / b
            if q == 0 or math.isinf(q) or q != q:
                return q            # floor() keeps zeros (with their sign), infinities and nan
            return float(math.floor(q))
        if op == 'mod':
            r = math.fmod(a, b)        # CMath.c ModFloat: r += ((r != 0) & ((r < 0) ^ (b < 0))) * b
            return r + float((r != 0) and ((r < 0) != (b < 0))) * b
    except (OverflowError, ZeroDivisionError, ValueError, TypeError):
        return None
    return None


def runtime_float_binops(expr):
    """binary operations on constants whose result is a float/complex: the compiler does not fold these into a
    literal (ConstantFolding.visit_BinopNode returns the node), they are evaluated by C arithmetic at run time.
    Returns [(operator name, True when a model of the C spelling differs from CPython's result)]"""
    out = []
    try:
        tree = ast.parse(expr, mode='eval')
    except SyntaxError:
        return out
    for node in ast.walk(tree):
        if isinstance(node, ast.BinOp) and type(node.op) in _OPNAME:
            try:
                lv = eval(compile(ast.Expression(node.left), '<e>', 'eval'), {'__builtins__': {}}, {})
                rv = eval(compile(ast.Expression(node.right), '<e>', 'eval'), {'__builtins__': {}}, {})
                v = eval(compile(ast.Expression(node), '<e>', 'eval'), {'__builtins__': {}}, {})
            except Exception:
                continue
            if isinstance(v, (float, complex)) and isinstance(lv, (int, float, complex)) \
                    and isinstance(rv, (int, float, complex)):
                op = _OPNAME[type(node.op)]
                culprit = False
                if isinstance(v, float) and not isinstance(lv, complex) and not isinstance(rv, complex):
                    m = _c_model(op, lv, rv)
                    culprit = m is not None and repr(m) != repr(v)
                out.append((op, culprit))
    return out


def structural_class(f, exp, got):
    if exp[0] != got[0] or exp[0] != 'ok':
        k = 'outcome:%s->%s' % (exp[0] + ':' + (exp[1][0] if exp[0] == 'ok' else exp[1]),
                                got[0] + ':' + (got[1][0] if got[0] == 'ok' else got[1]))
        return k, k
    d = first_diff(exp[1], got[1])
    if d is None:
        return 'outcome:same-value-other-field', 'outcome:same-value-other-field'
    path, e, g = d
    cont = next((p for p in reversed(path) if p in ('frozenset', 'slice', 'tuple', 'list', 'set', 'dict', 'dictkey')),
                'scalar')
    # the outer tuple of `return a, b` / default shapes is not the pooled container when a pooled one is inside
    inner = [p for p in path if p in ('frozenset', 'slice')]
    if inner:
        cont = inner[-1]
    kind = leaf_kind(e, g)
    leaf_types = (e[0] if isinstance(e, list) and e else '?', g[0] if isinstance(g, list) and g else '?')
    if cont == 'slice' and 'GETKEY[' in f['src'] and leaf_types[1] == 'int' and leaf_types[0] in ('float', 'complex',
                                                                                                    'bool'):
        # o[a:b] with a bound the compiler typed as C double / C complex / bint: passed as Py_ssize_t
        k = 'subscript-bound-of-non-integer-c-type-coerced-to-ssize_t:slice'
        return k, k
    base = '%s:%s' % (kind, cont)
    if cont == 'frozenset' and equal_elements_in_frozenset_literal(f['src']):
        base = 'equal-elements-order:frozenset'
    elif leaf_types[0] in ('float', 'complex') and leaf_types[1] in ('float', 'complex'):
        ops = runtime_float_binops(f['expr'])
        culprits = sorted({o for o, c in ops if c})
        if culprits:
            return base, 'c-arith:%s:%s:%s' % ('+'.join(culprits), kind, cont)
        if ops:
            return base, 'c-arith:unexplained(%s):%s:%s' % ('+'.join(sorted({o for o, c in ops})), kind, cont)
    if leaf_types == ('int', 'int') and unfolded_int_arith(f['expr']):
        return base, 'c-int-arith-on-unfolded-invert:%s:%s' % (kind, cont)
    return base, base


def unfolded_int_arith(expr):
    """`~<int literal>` is not replaced by a literal in ConstantFolding.visit_UnopNode; an operator applied to it is then
    not folded either (operands must be literals) and is evaluated in C integer arithmetic at run time"""
    try:
        tree = ast.parse(expr, mode='eval')
    except SyntaxError:
        return False
    for node in ast.walk(tree):
        kids = []
        if isinstance(node, ast.BinOp):
            kids = [node.left, node.right]
        elif isinstance(node, ast.UnaryOp) and isinstance(node.op, (ast.USub, ast.UAdd, ast.Invert)):
            kids = [node.operand]
        for k in kids:
            while isinstance(k, ast.UnaryOp) and isinstance(k.op, (ast.USub, ast.UAdd)):
                k = k.operand
            if isinstance(k, ast.UnaryOp) and isinstance(k.op, ast.Invert):
                return True
    return False


def monitor_class(coll):
    vals = coll['values']
    a, b = vals[0], vals[1]
    d = first_diff(a['sig'], b['sig'])
    if d is None:
        return 'identical?:?'
    path, e, g = d
    outer = 'frozenset' if 'frozenset' in coll['outer'] else 'slice' if 'slice' in coll['outer'] else 'tuple'
    inner = [p for p in path if p in ('frozenset', 'slice')]
    cont = inner[-1] if inner else outer
    kind = leaf_kind(e, g)
    if outer == 'frozenset':
        oa = [sorted(eval(o), key=repr) for o in a.get('orders', [])]
        ob = [sorted(eval(o), key=repr) for o in b.get('orders', [])]
        if any(x in ob for x in oa):
            kind = 'equal-elements-order'
    if all(v.get('via_default') for v in vals[:2]):
        # both constants are literal argument defaults wrapped in DefaultLiteralArgNode (keyed by constant_result)
        return 'default-literal-arg:%s:%s' % (kind, cont)
    return '%s:%s' % (kind, cont)


# ----------------------------------------------------------------------------------------------- main

def run_modules(tree, d, state, compare):
    names = [n for n, st in state.items() if st['ok']]

    def one(n):
        st = state[n]
        cases = [c for f in st['funcs'] for c in f['cases']]
        return n, diff.run_cases(tree, d, n, cases, ref=st['src'], compare=compare, tagdir='run_' + n, timeout=600,
                                 nproc=2)
    with ThreadPoolExecutor(max(1, min(8, core.NCPU // 2))) as ex:
        return dict(ex.map(one, names))


def main(ck):
    tree = cy.Tree('C09')
    funcs = workload(ck)
    per_mod = ck.pick(150, 600)
    mods = {}
    for i in range(0, len(funcs), per_mod):
        mods['c09m%d' % (i // per_mod)] = funcs[i:i + per_mod]
    d, state = build_modules(tree, 'b', mods)
    ck.cov['t_build_s'] = round(ck.elapsed(), 1)
    compare = {'log': False, 'exc_args': False}
    results = run_modules(tree, d, state, compare)
    ck.cov['t_run_s'] = round(ck.elapsed(), 1)

    fmap = {f['name']: (n, f) for n, st in state.items() for f in st['funcs']}
    total_n = 0
    samples = []
    hist = {}
    mon = {'dedup_calls': 0, 'dedup_none': 0, 'keys': 0, 'shared_keys': 0, 'py_const_keyed': 0, 'py_const_hits': 0,
           'num_calls': 0, 'num_consts': 0, 'num_shared': 0, 'fold_visited': 0, 'fold_replaced': 0, 'sig_errors': 0}
    failed = 0
    dropped = []
    nontrivial = set()
    judged_funcs = set()
    static_pooled = 0
    shapes = {}
    for n, st in state.items():
        dropped += st['dropped']
        if not st['ok']:
            failed += 1
            ck.note('module %s failed (%s): %s' % (n, 'compiler crash' if st.get('crash') else 'build', st['errors'][-600:]))
            continue
        pl = st['plugin']
        if 'plugin_error' in pl or not pl:
            ck.inconclusive_if(True, 'pool monitor failed in %s: %s' % (n, str(pl)[-300:]))
            continue
        for k in mon:
            mon[k] += pl.get(k, 0)
        lines = {int(k): v for k, v in pl.get('lines', {}).items()}
        res = results[n]
        total_n += res.n
        samples.extend(res.samples[:1])
        for k, v in res.hist.items():
            hist[k] = hist.get(k, 0) + v
        for ft in res.fatal:
            ck.inconclusive_if(True, 'driver failed for %s: %s' % (n, str(ft)[-300:]))
        crashed = {c['case']['f'] for c in res.crashes}
        ctext = open(st['c'], encoding='utf-8', errors='replace').read()
        bodies = creach.bodies_by_token(ctext, [f['name'] for f in st['funcs']])
        for f in st['funcs']:
            lo, hi = st['span'][f['name']]
            ev = set()
            for ln in range(lo, hi + 1):
                ev.update(lines.get(ln, ()))
            f['events'] = sorted(ev)
            if re.search(r'__pyx_(int|float|tuple|slice|frozenset|number_tab)', bodies.get(f['name'], '')):
                static_pooled += 1
            if f['name'] not in crashed and not res.fatal:
                judged_funcs.add(f['name'])
                if ev:
                    nontrivial.add((f['shape'], f['expr']))
                    shapes[f['shape']] = shapes.get(f['shape'], 0) + 1
        # ---- compiler-side monitor findings
        for coll in pl.get('collisions', []):
            key = 'pool-merge:' + monitor_class(coll)
            ln = [v['line'] for v in coll['values']]
            srcs = [f['src'] for f in st['funcs'] if any(st['span'][f['name']][0] <= x <= st['span'][f['name']][1]
                                                         for x in ln if x)]
            ck.discrepancy(key, 'constant pool monitor: one dedup key (%s) is shared by nodes denoting %s and %s' % (
                coll['outer'], coll['values'][0]['sig'], coll['values'][1]['sig']),
                {'monitor': 'constpool', 'module_source': HEADER + ''.join(srcs[:4]), 'ext': '.py',
                 'collision': coll})
        for coll in pl.get('num_collisions', []):
            ck.discrepancy('numconst-merge', 'pooled number constant %s serves literals with different values: %s' % (
                coll['cname'], coll['values']), {'monitor': 'constpool', 'collision': coll})
        for mm in pl.get('num_text_mismatch', []):
            ck.discrepancy('literal-parse:' + mm['python'][0], 'compiler value of literal %r is %s, CPython gives %s' % (
                mm['text'], mm['constant_result'], mm['python']), {'monitor': 'constpool', 'mismatch': mm})
        for c in res.crashes:
            f = fmap[c['case']['f']][1]
            ck.discrepancy('crash:%s' % f['shape'], 'crash/hang %s evaluating %s' % (c['kind'], f['expr']),
                           {'module_source': HEADER + f['src'], 'ext': '.py', 'case': c['case'], 'stderr': c['stderr'],
                            'compare': compare})
    # ---- run-time discrepancies: structural class, then the pooling ablation on representatives of each class
    mism = []
    for n, res in results.items():
        for m in res.mismatches:
            f = fmap[m['case']['f']][1]
            base, refined = structural_class(f, m['exp'], m['got'])
            mism.append((base, refined, f, m))
    by_class = {}
    for base, refined, f, m in mism:
        by_class.setdefault(refined, []).append((base, f, m))
    ablation = {}
    # the pooling ablation is run for every function with a discrepancy (capped; beyond the cap the class verdict is used)
    reps = []
    seen = set()
    for cls, items in sorted(by_class.items()):
        for base, f, m in items:
            if len(seen) < 6000 or f['name'] in seen:
                seen.add(f['name'])
                reps.append((cls, f, m))
    fixed_case = {}
    if reps:
        afuncs, names = [], set()
        for cls, f, m in reps:
            if f['name'] not in names:
                names.add(f['name'])
                afuncs.append(f)
        amods = {'c09abl%d' % (i // 500): afuncs[i:i + 500] for i in range(0, len(afuncs), 500)}
        da, astate = build_modules(tree, 'abl', amods, plugin_args={'ablate': True})
        for an, ast_ in astate.items():
            if not ast_['ok']:
                ck.note('ablation module %s failed to build: %s' % (an, ast_['errors'][-300:]))
                continue
            have = {f['name'] for f in ast_['funcs']}
            cases = [m['case'] for cls, f, m in reps if f['name'] in have]
            ares = diff.run_cases(tree, da, an, cases, ref=ast_['src'], compare=compare, nproc=2, tagdir='run_' + an)
            still = {json.dumps(mm['case'], sort_keys=True) for mm in ares.mismatches} | \
                    {json.dumps(c['case'], sort_keys=True) for c in ares.crashes}
            if ares.fatal:
                continue
            for cls, f, m in reps:
                if f['name'] in have:
                    fx = json.dumps(m['case'], sort_keys=True) not in still
                    fixed_case[json.dumps(m['case'], sort_keys=True)] = fx
                    a = ablation.setdefault(cls, {'fixed': 0, 'not_fixed': 0})
                    a['fixed' if fx else 'not_fixed'] += 1
    keyed = {}
    for cls, items in sorted(by_class.items()):
        a = ablation.get(cls)
        for base, f, m in items:
            fx = fixed_case.get(json.dumps(m['case'], sort_keys=True))
            if fx is None and a and bool(a['fixed']) != bool(a['not_fixed']):
                fx = bool(a['fixed'])              # not ablated itself (cap): its class was unanimous
            if fx is True and m['case'].get('t') == 'default-attr':
                key = 'pool-merge:default-literal-arg:' + base    # only __defaults__/__kwdefaults__ differ
            elif fx is True:
                key = 'pool-merge:' + base          # disappears when pooling is switched off
            elif fx is False:
                key = 'const-value:' + cls         # independent of pooling
            else:
                key = 'unclassified:' + cls
            keyed[key] = keyed.get(key, 0) + 1
            ck.discrepancy(key,
                           '%s (shape %s): CPython %s, compiled %s' % (f['expr'], f['shape'], m['exp'], m['got']),
                           {'module_source': HEADER + f['src'], 'ext': '.py', 'case': m['case'], 'expected': m['exp'],
                            'observed': m['got'], 'compare': compare, 'cflags': [], 'directives': {},
                            'note': 'a pool merge needs the partner constant in the same module: replay rebuilds the '
                                    'witness together with `partner_sources` (functions sharing a dedup key per the '
                                    'pool monitor)',
                            'partner_sources': partners(state, fmap, f)})
    nfuncs = sum(len(st['funcs']) for st in state.values() if st['ok'])
    ck.inconclusive_if(failed > 0.2 * max(1, len(state)), '%d of %d modules failed to build' % (failed, len(state)))
    ck.inconclusive_if(mon['dedup_calls'] == 0, 'pool monitor saw no make_dedup_key call')
    ck.inconclusive_if(mon['shared_keys'] == 0, 'no dedup key was shared by two nodes (pooling did not happen)')
    ck.inconclusive_if(mon['py_const_hits'] == 0, 'get_py_const never returned an already pooled constant')
    ck.inconclusive_if(mon['fold_replaced'] == 0, 'ConstantFolding never replaced an operator node by a literal')
    ck.inconclusive_if(mon['num_shared'] == 0, 'no pooled number constant was shared')
    ck.inconclusive_if(total_n < ck.pick(1500, 40000), 'fewer observed executions than the floor')
    return ck.finish(
        total_n, len(nontrivial),
        'each generated constant expression is the body of one function (shapes: return value, default argument, class '
        'attribute, module global, `x in <literal>`) compiled by the working-tree compiler and called once (membership: '
        'once per probe value); deep type-qualified signature compared with CPython running the same source. '
        'distinct_nontrivial = distinct (shape, expression text) whose source lines produced at least one compile-time '
        'constant event in the in-compiler monitor (pooled tuple/slice/frozenset key, pooled Python number constant, '
        'operator node replaced by a literal in ConstantFolding) and whose execution was judged',
        samples,
        extra={'functions': nfuncs, 'modules': len(state), 'modules_failed': failed,
               'cython_rejected_expressions': len(dropped), 'rejected_samples': dropped[:8],
               'shapes_nontrivial': shapes, 'functions_referencing_pooled_constant_in_C': static_pooled,
               'pool_monitor': mon,
               'folded_fraction': round(mon['fold_replaced'] / max(1, mon['fold_visited']), 3),
               'runtime_mismatches': len(mism), 'structural_classes': {k: len(v) for k, v in by_class.items()},
               'runtime_mismatch_keys': keyed,
               'ablation_no_pooling': ablation,
               'outcome_hist': dict(sorted(hist.items(), key=lambda kv: -kv[1])[:30])},
        assumptions=['CPython 3.12.1 executing the identical source is the reference',
                     'expressions CPython rejects, warns about or that raise are not generated; expressions the '
                     'compiler rejects are counted (cython_rejected_expressions) and left to C43',
                     'object identity of constants is not compared, only deep type-qualified values'])


def partners(state, fmap, f):
    """sources of the functions whose constants share a dedup key (per the pool monitor) with a constant of f"""
    n = fmap[f['name']][0]
    st = state[n]
    lo, hi = st['span'][f['name']]
    want = set()
    for coll in st['plugin'].get('collisions', []):
        mine = [v for v in coll['values'] if any(ln is not None and lo <= ln <= hi for ln in v.get('lines', []))]
        if mine:
            for v in coll['values']:
                if v not in mine and v.get('line') is not None:
                    want.add(v['line'])
    out = []
    for g in st['funcs']:
        a, b = st['span'][g['name']]
        if g is not f and any(a <= ln <= b for ln in want):
            out.append(g['src'])
    return out[:6]


# ----------------------------------------------------------------------------------------------- replay

def replay(ck, data):
    w = data.get('witness', data)
    tree = cy.Tree('C09r')
    src = w.get('module_source', '')
    partners = ''.join(w.get('partner_sources') or [])
    # partners first: they were pooled first in the original module more often than not; try both orders
    outcomes = []
    for order, text in (('partners-first', HEADER + partners + src[len(HEADER):] if src.startswith(HEADER) else partners + src),
                        ('witness-first', src + partners)):
        d = tree.subdir('r_' + order)
        p = os.path.join(d, 'replaymod.py')
        open(p, 'w').write(text)
        res, _ = tree.translate([{'src': p}], plugins=[PLUGIN])
        r = res[0]
        if not r['ok']:
            print('translation failed', (r.get('exc') or '') + (r.get('errors') or ''))
            continue
        pl = (r.get('plugin') or {}).get(PLUGIN, {})
        for coll in pl.get('collisions', []):
            print('[%s] pool monitor collision: %s' % (order, coll))
            outcomes.append('collision')
        if w.get('case'):
            b = tree.cbuild(r['c'])
            if not b['ok']:
                print('C build failed', b['err'][-800:])
                continue
            dr = diff.run_cases(tree, d, 'replaymod', [w['case']], ref=p, compare=w.get('compare') or {'log': False},
                                nproc=1, tagdir='rr_' + order)
            for m in dr.mismatches:
                print('[%s] expected %s\n[%s] observed %s' % (order, m['exp'], order, m['got']))
                outcomes.append('mismatch')
            for c in dr.crashes:
                print('[%s] crash %s' % (order, c['kind']))
                outcomes.append('crash')
    if outcomes:
        print('VIOLATION property=%s replay=<replayed>' % ck.pid)
        return 1
    print('replay: no discrepancy reproduced')
    return 0
