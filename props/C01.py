"""C01 Compiled pure-Python code behaves exactly like CPython (DESIGN.md section 5, C01)."""
import json
import os
import re

from vlib import cy, diff
from vlib.gen import pygen

REQUIRED = ['closure', 'nonlocal', 'global', 'class_use', 'listcomp', 'setcomp', 'dictcomp', 'genexp', 'lambda',
            'late_binding', 'augassign', 'unpack', 'starred', 'condexpr', 'walrus', 'builtin_call']


def classify(m):
    """mechanism key of a discrepancy from its structure (never from concrete values)"""
    exp, got = m['exp'], m['got']
    # split off log
    elog = [x for x in exp if isinstance(x, list) and x and x[0] == 'log']
    glog = [x for x in got if isinstance(x, list) and x and x[0] == 'log']
    ecore = [x for x in exp if not (isinstance(x, list) and x and x[0] == 'log')]
    gcore = [x for x in got if not (isinstance(x, list) and x and x[0] == 'log')]
    if ecore and ecore[0] == 'exc' and ecore[1] == 'TypeError' and "for &: 'float' and 'int'" in json.dumps(ecore) and ecore != gcore:
        # `obj & 7` used as a slice bound / repetition count is computed in C after converting obj to a C integer, which
        # accepts a float (truncated; NaN -> ValueError) where CPython rejects `float & int` with TypeError
        return 'float-operand-of-bitand-converted-to-C-integer'
    if ecore == gcore:
        try:
            el, gl = elog[0][1], glog[0][1]
            if (ecore[0] == 'exc' and ecore[1] == 'TypeError' and len(gl) < len(el) and el[:len(gl)] == gl
                    and 'unhashable' in json.dumps(ecore)):
                # CPython evaluates all keys and values of a (small) dict display and then builds the dict; compiled
                # code inserts item by item, so an unhashable key fails before the later items are evaluated
                return 'dict-display-item-inserted-before-later-items-are-evaluated'
            if (ecore[0] == 'exc' and ecore[1] == 'AttributeError' and len(gl) > len(el) and gl[:len(el)] == el):
                # CPython looks the method up before it evaluates the call arguments; compiled code evaluates the
                # arguments first, so their side effects happen although the lookup then fails (C20 finding)
                return 'method-lookup-after-argument-evaluation'
            k = next((i for i, (x, y) in enumerate(zip(el, gl)) if x != y), None)
            if k is not None and el[k][0] == 'tuple' and gl[k][0] == 'tuple' and el[k][1][0] == ['str', "'AttributeError'"] \
                    and gl[k][1][0][0] == 'str' and gl[k][1][0] != el[k][1][0] and el[k + 1:] == gl[k + 1:]:
                # the same mechanism observed from inside a handler that logs (type name, arity) of what it caught: CPython
                # caught the failed method lookup, compiled code an exception raised by the argument evaluation
                return 'method-lookup-after-argument-evaluation'
        except Exception:
            pass
        return 'sideeffect-log-differs'
    if ecore[0] == 'exc' and gcore[0] == 'exc':
        if ecore[1] != gcore[1]:
            # different exception class: keyed by both classes and CPython's (normalised) message, which names the operation
            msg = ''
            try:
                msg = eval(ecore[2][1][0][1]) if ecore[2][1] and ecore[2][1][0][0] == 'str' else ''
                msg = re.sub(r"'[^']*'", "'_'", msg)
                msg = re.sub(r'\d+', 'N', msg)[:60]
            except Exception:
                pass
            if ecore[1] == 'AttributeError' and 'has no attribute' in msg:
                # o.meth(args) on an object without that method: CPython fails at the lookup, compiled code evaluates
                # the arguments first and may fail there with another exception (same mechanism as the key below)
                return 'method-lookup-after-argument-evaluation'
            return 'exc-type:%s->%s:%s' % (ecore[1], gcore[1], msg)
        # same type, different args. Only a difference in the *wording* of a single message string produced by
        # Cython's own runtime helper is classed as msg-text (keyed by the normalised compiled wording);
        # any other difference in args (arity, non-str values such as a KeyError key) is exc-args.
        try:
            ea, ga = ecore[2][1], gcore[2][1]
            if len(ea) == len(ga) == 1 and ea[0][0] == ga[0][0] == 'str':
                msg = eval(ga[0][1])
                msg = re.sub(r"'[^']*'", "'_'", msg)
                msg = re.sub(r'\d+', 'N', msg)[:80]
                return 'msg-text:%s:%s' % (ecore[1], msg)
        except Exception:
            pass
        return 'exc-args:%s' % ecore[1]
    def _msg(core):
        try:
            return eval(core[2][1][0][1]) if core[2][1] and core[2][1][0][0] == 'str' else ''
        except Exception:
            return ''
    if ecore[0] == 'exc':
        if ecore[1] == 'AttributeError' and 'has no attribute' in _msg(ecore):
            # the failing attribute lookup comes first in CPython; compiled code evaluated the arguments first, something in
            # them raised and the program handled that (or went on differently)
            return 'method-lookup-after-argument-evaluation'
        return 'missing-exception:%s' % ecore[1]
    if gcore[0] == 'exc':
        if gcore[1] == 'TypeError' and _msg(gcore) == 'an integer is required' and re.search(r'\bIdx\(', m['case'].get('a', '')):
            # an object that is an integer only through __index__ reaches a C-integer conversion ('%d' % obj, range(obj), ...)
            return 'cint-rejects-index-only'
        return 'spurious-exception:%s' % gcore[1]
    et, gt = ecore[1][0], gcore[1][0]
    if et != gt:
        return 'result-type:%s->%s' % (et, gt)
    return 'result-value:%s' % et


def offending_function(src, modname, errors):
    """name of the generated function containing the first source line an error/crash message points at"""
    lines = []
    for l in errors.splitlines():
        if l.lstrip().startswith('warning'):
            continue
        for m in re.finditer(r'%s\.py:(\d+):\d+' % re.escape(modname), l):
            lines.append(int(m.group(1)))
    if not lines:
        return None
    target = lines[0]
    cur = None
    for no, l in enumerate(src.splitlines(), 1):
        m = re.match(r'def (fz\d+z)\(', l)
        if m:
            cur = m.group(1)
        elif l and not l[0].isspace() and not l.startswith('def fz'):
            cur = None if not l.startswith('#') else cur
        if no == target:
            return cur
    return None


def bisect_crashing_function(tree, src, modname, names):
    """A compiler crash without a source position: find one function whose presence alone crashes the compiler."""
    head = src[:src.find('\ndef fz')]
    bodies = {}
    for n in names:
        i0 = src.find('\ndef %s(' % n)
        i1 = src.find('\ndef fz', i0 + 1)
        bodies[n] = src[i0:i1 if i1 > 0 else len(src)]
    d = tree.subdir('bisect_' + modname)

    def crashes(subset):
        p = os.path.join(d, modname + '.py')
        with open(p, 'w', encoding='utf-8') as f:
            f.write(head + ''.join(bodies[n] for n in subset) + '\n')
        res, _ = tree.translate([{'src': p}])
        return bool(res[0].get('exc'))
    cand = list(names)
    for _ in range(8):
        if len(cand) <= 1:
            break
        half = cand[:len(cand) // 2]
        if crashes(half):
            cand = half
            continue
        other = cand[len(cand) // 2:]
        if crashes(other):
            cand = other
            continue
        return None
    return cand[0] if len(cand) == 1 else None


def remove_function(src, fn):
    out, skip = [], False
    for l in src.splitlines():
        if l.startswith('def %s(' % fn):
            skip = True
            continue
        if skip and l and not l[0].isspace():
            skip = False
        if not skip:
            out.append(l)
    return '\n'.join(out) + '\n'


def main(ck):
    tree = cy.Tree('C01')
    rng = ck.rng('programs')
    nmods = ck.pick(6, 120)
    nfuncs = ck.pick(40, 40)
    ncalls = ck.pick(12, 16)
    feats = {}
    mods, meta = {}, {}
    for i in range(nmods):
        name = 'c01m%d' % i
        src, funcs = pygen.gen_module(rng, nfuncs, start_index=0, feats=feats)
        try:
            compile(src, name, 'exec')
        except SyntaxError as e:
            ck.note('generator produced invalid Python (skipped): %s' % e)
            continue
        mods[name] = src
        meta[name] = funcs
    d, info = tree.build_sources(mods, subdir='b', ext='.py')
    # A function the compiler rejects or crashes on (C43's subject) must not hide the other ~39 functions of its
    # module: drop the offending function (located through the reported source line) and rebuild, a few times.
    dropped = []
    for attempt in range(6):
        redo = {}
        for name, inf in info.items():
            if inf['ok'] or inf['stage'] != 'translate':
                continue
            fn = offending_function(mods[name], name, inf['errors'])
            if fn is None and inf.get('crash'):
                fn = bisect_crashing_function(tree, mods[name], name, [f['name'] for f in meta[name]])
            if fn is None:
                continue
            msg = [l for l in inf['errors'].splitlines() if l.strip() and 'warning' not in l][-1:]
            dropped.append({'module': name, 'function': fn, 'reason': (msg[0] if msg else '')[-160:]})
            mods[name] = remove_function(mods[name], fn)
            meta[name] = [f for f in meta[name] if f['name'] != fn]
            redo[name] = mods[name]
        if not redo:
            break
        d2, info2 = tree.build_sources(redo, subdir='b', ext='.py')
        info.update(info2)
    ck.cov['functions_dropped_because_compiler_rejected_or_crashed'] = dropped
    total = distinct = 0
    samples, hist = [], {}
    failed = 0
    crashes = 0
    for name, inf in info.items():
        if not inf['ok']:
            failed += 1
            ck.note('build failure %s at %s: %s' % (name, inf['stage'], inf['errors'][-400:]))
            continue
        cases = []
        for f in meta[name]:
            for a in pygen.gen_args(rng, f['param_kinds'], ncalls):
                cases.append({'f': f['name'], 'a': a, 't': 'ret=' + f['ret']})
        res = diff.run_cases(tree, d, name, cases, ref=inf['src'], compare={'exc_args': True, 'log': True},
                             tagdir='run_' + name, timeout=600, nproc=ck.pick(3, 2), as_gb=4)
        total += res.n
        distinct += res.distinct
        samples.extend(res.samples[:1])
        for k, v in res.hist.items():
            hist[k] = hist.get(k, 0) + v
        fsrc = {f['name']: None for f in meta[name]}
        for m in res.mismatches:
            fn = m['case']['f']
            i0 = mods[name].find('def %s(' % fn)
            i1 = mods[name].find('\ndef fz', i0 + 1)
            ck.discrepancy(classify(m), '%s%s: CPython %s, compiled %s' % (fn, m['case']['a'], str(m['exp'])[:200], str(m['got'])[:200]),
                           {'module_source': mods[name], 'module_name': name, 'ext': '.py', 'case': m['case'],
                            'function_source': None, 'function_text': mods[name][i0:i1], 'compare': {'exc_args': True, 'log': True},
                            'expected': m['exp'], 'observed': m['got']})
        for c in res.crashes:
            crashes += 1
            ck.discrepancy('crash', 'crash/hang %s on %s' % (c['kind'], c['case']),
                           {'module_source': mods[name], 'module_name': name, 'ext': '.py', 'case': c['case'],
                            'stderr': c['stderr'], 'compare': {'exc_args': True, 'log': True}})
        for ft in res.fatal:
            ck.inconclusive_if(True, 'driver failed for %s: %s' % (name, str(ft)[-300:]))
    floor = ck.pick(20, 500)
    low = {k: feats.get(k, 0) for k in REQUIRED if feats.get(k, 0) < floor}
    ck.inconclusive_if(bool(low), 'construct classes below the floor of %d: %s' % (floor, low))
    ck.inconclusive_if(failed > max(1, nmods // 5), '%d of %d generated modules failed to build' % (failed, nmods))
    exc_share = sum(v for k, v in hist.items() if '|exc:' in k) / max(1, total)
    return ck.finish(
        total, distinct,
        'pygen modules (closures, nonlocal/global, classes with super/property/classmethod, list/set/dict/generator '
        'comprehensions, lambdas with default capture and late binding, augmented assignment, (starred) unpacking, '
        'conditional expressions, walrus, builtins, try/finally, loops) compiled and called on generated argument tuples '
        '(typed pools + hostile values); result signature, exception type AND args, ordered log() side effects compared with '
        'CPython executing the same source in the same process. distinct = distinct (function, CPython outcome) pairs',
        samples,
        extra={'modules': len(mods), 'modules_failed_build': failed, 'functions': sum(len(v) for v in meta.values()),
               'construct_histogram': dict(sorted(feats.items())), 'outcome_hist': dict(sorted(hist.items())),
               'exception_share': round(exc_share, 3), 'crashes': crashes},
        assumptions=['CPython 3.12.1 executing the identical source is the reference',
                     'programs are generator-bounded: constructs outside the histogram are not covered'])
