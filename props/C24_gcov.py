"""Dynamic reach through gcov (shared by C24, C18, C19, C20): rebuild one generated module with --coverage,
let the driver flush the counters, read per-function execution counts of the utility-code helpers."""
import json
import os

from vlib import core

DUMP_C = os.path.join(core.VERIF, 'csrc', 'gcovdump.c')

SETUP = r'''
def _gcov_dump(M):
    import ctypes
    f = getattr(M, '__file__', '') or ''
    if f.endswith('.so'):
        try:
            ctypes.CDLL(f).verif_gcov_dump()
        except (OSError, AttributeError):
            pass
    return 0
'''


def dump_cases(n=None):
    """append these to the END of a case list: run_cases deals cases round-robin, so the last NCPU entries
    put one flush at the tail of every chunk"""
    return [{'x': '_gcov_dump(M)', 't': 'gcovflush'} for _ in range(n or core.NCPU)]


def rebuild(tree, inf, cflags=(), cplus=False):
    """re-link inf['so'] from inf['c'] with coverage instrumentation; True on success"""
    b = tree.cbuild(inf['c'], so=inf['so'], cflags=list(cflags) + ['--coverage', DUMP_C], ldflags=['--coverage'],
                    cplus=cplus)
    return b['ok']


def counts(inf, names=None, prefix=None):
    """{function name: execution count} for helper functions (by exact name set and/or prefix tuple)"""
    so = inf['so']
    d = os.path.dirname(so)
    base = os.path.splitext(os.path.basename(inf['c']))[0]
    gcda = '%s-%s.gcda' % (os.path.basename(so), base)
    if not os.path.exists(os.path.join(d, gcda)):
        return {}
    r = core.run(['gcov', '--json-format', '--stdout', gcda], cwd=d, timeout=300, as_gb=0)
    out = {}
    if r.rc != 0 or not r.out:
        return out
    for line in r.out.splitlines():
        try:
            data = json.loads(line)
        except ValueError:
            continue
        for fl in data.get('files', []):
            for fn in fl.get('functions', []):
                n = fn['name']
                if (names and n in names) or (prefix and n.startswith(prefix)):
                    out[n] = out.get(n, 0) + fn.get('execution_count', 0)
    return out
