"""C14 Optimised loops iterate exactly like Python loops (DESIGN.md section 5, C14).

Generated `.pyx` loop templates (vlib/gen/c14loops.py) are compiled by the tree under observation and every call
is compared with CPython executing the plain-Python text of the same function: iteration log, break/continue/else
markers, final loop variable, exception type and the final state of the (possibly mutated) container argument.
For every function the generated C is inspected for the optimised loop form (C for loop, __Pyx_dict_iter_next,
__Pyx_set_iter_next, unicode/bytes/C-array pointer loop); functions whose loop stayed a generic iterator loop are
run as well but reported as `not_optimised` and do not count towards distinct_nontrivial."""
import os
import re
from concurrent.futures import ThreadPoolExecutor

from vlib import creach, cy, diff
from vlib.gen import c14loops as G

_CFOR = re.compile(r'for \(__pyx_t_\d+ = [^;]*; __pyx_t_\d+ (?:<|>|<=|>=) [^;]*; (?:__pyx_t_\d+\s*(?:\+\+|--|\+=|-=)[^;{]*)?\) \{')
_GETITER = re.compile(r'PyObject_GetIter\(')


def reach(marker, body):
    """(optimised?, helper/anchor found) from the C body of the implementation function"""
    body = re.sub(r'/\*.*?\*/', '', body, flags=re.S)
    generic = bool(_GETITER.search(body))
    if marker == 'cfor':
        return bool(_CFOR.search(body)) and not generic, 'C for loop'
    if marker == 'py-range':
        return False, 'range() call'
    if marker == 'dict':
        return '__Pyx_dict_iter_next(' in body, '__Pyx_dict_iter_next'
    if marker == 'set':
        return '__Pyx_set_iter_next(' in body, '__Pyx_set_iter_next'
    if marker == 'str':
        return '__Pyx_init_unicode_iteration(' in body and not generic, '__Pyx_init_unicode_iteration'
    if marker == 'bytes':
        return '__Pyx_PyBytes_AsWritableString(' in body and bool(_CFOR.search(body)) and not generic, 'bytes pointer loop'
    if marker == 'bytearray':
        return 'while (1)' in body.replace('while (1) {', 'while (1)') and not generic, 'indexed while loop'
    if marker == 'carray':
        return bool(_CFOR.search(body)) and not generic, 'C pointer loop'
    if marker == 'list':
        return (not generic) and bool(re.search(r'__Pyx_PyList_GET_SIZE|__Pyx_PyTuple_GET_SIZE|PyList_GET_SIZE|PyTuple_GET_SIZE', body)), 'list/tuple index loop'
    if marker == 'enum':
        return 'enumerate' not in body, 'inlined enumerate counter'
    return False, '?'


def impl_bodies(ctext):
    """fz<N>z -> body of the __pyx_pf_ implementation function(s) only (argument-parsing wrappers excluded)"""
    out = {}
    for cname, body in creach.function_bodies(ctext).items():
        if '_pf_' not in cname and '_gb_' not in cname:
            continue
        for m in re.finditer(r'fz\d+z', cname):
            out[m.group(0)] = out.get(m.group(0), '') + '\n' + body
    return out


def oclass(o):
    return o[0] + ':' + (o[1][0] if o[0] == 'ok' else o[1])


def first_diff(exp, got, n):
    """index of the first loop of a packed function whose (observations, final) differ"""
    try:
        if exp[0] == 'ok' and got[0] == 'ok' and exp[1][0] == 'list' and got[1][0] == 'list':
            for i, (x, y) in enumerate(zip(exp[1][1], got[1][1])):
                if x != y:
                    return min(i, n - 1)
            return min(len(got[1][1]), len(exp[1][1]), n - 1)
    except Exception:
        pass
    return 0


def _log_of(o):
    for part in o[2:]:
        if isinstance(part, list) and part and part[0] == 'log':
            return part[1]
    return None


def only_first_two_log_entries_swapped(exp, got):
    le, lg = _log_of(exp), _log_of(got)
    if not le or not lg or len(le) < 2 or len(lg) < 2 or le == lg:
        return False
    if [le[1], le[0]] + le[2:] != lg:
        return False
    strip = lambda o: [p for p in o if not (isinstance(p, list) and p and p[0] == 'log')]
    return strip(exp) == strip(got)


def stop_logged_first(exp, got):
    """both runs end in the same exception type and differ only in the log, where the compiled code logged (and
    converted) the stop bound before the start bound was evaluated"""
    le, lg = _log_of(exp), _log_of(got)
    if not le or not lg or len(le) < 2 or le == lg or exp[0] != 'exc' or got[:2] != exp[:2]:
        return False
    strip = lambda o: [p for p in o if not (isinstance(p, list) and p and p[0] == 'log')]
    return strip(exp) == strip(got) and lg[0] == le[1]


def range_limits(fn, info):
    """limits of the C type of the loop counter (object / inferred targets run on a C long counter)"""
    return G.CTYPES.get(fn.typing, G.CTYPES['long'])


def counter_overflow_expected(lo, hi, a, b, c, rev):
    """does the C counter arithmetic of the loop form the compiler uses leave [lo, hi] although all values fit?
    forward ascending / signed descending: the exit value start + len*step; forward unsigned descending (dedicated
    form `for (t = a + s; t > b + s; ) { t -= s; ...`): a + s and b + s; reversed(range()): the loop runs from the
    last value towards `start`, the first value comes from a formula whose intermediates go up to 2*|step| beyond
    the bounds.  Nearness to 0 of unsigned counters is NOT in this class: the dedicated loop form handles it."""
    n = len(range(a, b, c))
    s = abs(c)
    if not rev:
        if c > 0:
            return a + n * c > hi
        if lo < 0:
            return a + n * c < lo
        return a + s > hi or (b >= 0 and b + s > hi)
    return max(a, b) + 2 * s > hi or (lo < 0 and min(a, b) - 2 * s < lo)


def classify(fn, info, exp, got):
    """mechanism key from structural features of the template and the case (never from concrete values)"""
    if 'packed' in info:
        info = info['packed'][first_diff(exp, got, len(info['packed']))]
        # outcome classes of a packed function are per loop: (observations, final value)
        ek = gk = 'ok'
    else:
        ek, gk = oclass(exp), oclass(got)
    kind = fn.kind
    tcls = fn.typing if fn.typing not in G.CTYPES else ('ctarget:' + ('unsigned' if G.CTYPES[fn.typing][0] == 0 else 'signed'))
    if kind.startswith(('range-', 'revrange-')):
        rev = ':reversed' if info.get('rev') else ''
        if info.get('bkind') == 'expr' and (only_first_two_log_entries_swapped(exp, got) or stop_logged_first(exp, got)):
            return 'range-bounds-evaluated-stop-first' + rev
        if info.get('feat') == 'hostile-bound':
            return '%s:%s:hostile-bound:%s->%s' % (kind, tcls, ek, gk)
        if 'triple' in info and info['triple'][2] != 0:
            a, b, c = info['triple']
            lo, hi = range_limits(fn, info)
            sign = 'unsigned' if lo == 0 else 'signed'
            if info.get('bkind') in ('obj', 'expr') and max(a, b) > 2 ** 63 - 1 and gk == 'exc:OverflowError':
                # object bounds are converted to Py_ssize_t whatever the target type is
                return 'range-object-bound-exceeds-ssize_t'
            if counter_overflow_expected(lo, hi, a, b, c, bool(info.get('rev'))):
                # all produced values fit the counter type, but the counter arithmetic (exit value start+len*step,
                # the +step offset of descending unsigned loops, the first-value formula of reversed(range()))
                # leaves the range of the type
                return 'crange-counter-arithmetic-overflow-at-type-limit:%s%s' % (sign, rev)
        extra = ':neg-stop' if info.get('neg_stop_unsigned') else ''
        return '%s:%s:%s%s:%s->%s' % (kind, tcls, info.get('feat'), extra, ek, gk)
    mut = info.get('mut') or fn.info.get('mut', 'none')
    feat = info.get('feat', '')
    if kind.startswith('dict-') and mut in ('replace', 'readd') and ek == 'exc:RuntimeError' and gk != 'exc:RuntimeError' and feat != 'mu0':
        return 'dict-iter-keys-changed-undetected'
    if kind == 'enum-logorder' and (only_first_two_log_entries_swapped(exp, got) or stop_logged_first(exp, got)):
        return 'enumerate-start-evaluated-before-iterable'
    if kind.startswith('enum-') and feat == 'start-hostile':
        return 'enumerate-start-used-as-is'
    if kind.startswith('bytes-') and info.get('highbyte') and fn.typing in ('int', 'long', 'short'):
        return 'bytes-iter-signed-char-widening'
    if kind.startswith('bytes-literal-objtarget'):
        return 'bytes-literal-object-target-yields-bytes'
    if kind.startswith('bytes-literal') and kind.endswith('-rev') and fn.typing == 'literal':
        return 'bytes-literal-object-target-yields-bytes'
    if kind.startswith('bytes-literal') and fn.typing == 'literal' and "['bytes', " in str(got) and "['bytes', " not in str(exp):
        # same mechanism with a target that is not inferred as a C integer (e.g. a loop variable that is also read after
        # the loop and may be unbound there: since repo fix d058c0a38 such a variable stays a Python object)
        return 'bytes-literal-object-target-yields-bytes'
    return '%s:%s:mut=%s:%s:%s->%s' % (kind, tcls, mut, feat, ek, gk)


def classify_crash(fn, info, crash):
    if info.get('container') == 'None' and 'Assertion' in (crash.get('stderr') or ''):
        grp = 'set' if fn.kind.startswith('set-') else ('enumerate-' + ('tuple' if fn.kind.startswith('tuple') else 'list')
                                                       if 'enum' in fn.kind else fn.kind)
        return 'none-iterable-unchecked:' + grp
    return 'crash:%s:%s' % (fn.kind, fn.typing)


def build_all(ck, tree, fns, per_mod, tagbase):
    """-> (list of (modname, builddir, info, [fns], ref path), lost [(fn, info)]).  A module that fails to translate
    is rebuilt without the functions the compiler's error positions point into; if no position is usable (crash,
    C compiler failure) the module is split.  Functions finally lost are counted, never reported as violations."""
    done = []
    lost = []
    pending = [fns[i:i + per_mod] for i in range(0, len(fns), per_mod)]
    rnd = 0
    while pending:
        mods = {}
        groups = {}
        for gi, grp in enumerate(pending):
            name = '%s_r%d_%d' % (tagbase, rnd, gi)
            text = G.HEADER
            starts = []
            for f in grp:
                starts.append(text.count('\n') + 1)
                text += f.src + '\n'
            mods[name] = text
            groups[name] = (grp, starts)
        d, info = tree.build_sources(mods, subdir='b_%s_r%d' % (tagbase, rnd), ext='.pyx')
        pending = []
        for name, (grp, starts) in groups.items():
            inf = info[name]
            if inf['ok']:
                refp = inf['src'][:-4] + '_ref.py'
                with open(refp, 'w', encoding='utf-8') as f:
                    f.write(G.HEADER + '\n'.join(x.ref for x in grp))
                done.append((name, d, inf, grp, refp))
                continue
            bad = set()
            if inf['stage'] == 'translate' and not inf.get('crash'):
                for m in re.finditer(r'%s\.pyx:(\d+):\d+:' % re.escape(name), inf['errors'] or ''):
                    ln = int(m.group(1))
                    idx = max(i for i, st in enumerate(starts) if st <= ln) if ln >= starts[0] else None
                    if idx is not None:
                        bad.add(idx)
            if inf['stage'] == 'cc':
                # the C compiler names the function ("In function '__pyx_pf_..._fz12z'")
                toks = set(re.findall(r'fz\d+z', inf['errors'] or ''))
                bad = {i for i, f in enumerate(grp) if f.name in toks}
            if bad and rnd < 6:
                lost.extend((grp[i], inf) for i in sorted(bad))
                rest = [f for i, f in enumerate(grp) if i not in bad]
                if rest:
                    pending.append(rest)
            elif len(grp) == 1 or rnd >= 4:
                lost.extend((x, inf) for x in grp)
            else:
                k = max(1, (len(grp) + 1) // 2)
                pending.extend(grp[i:i + k] for i in range(0, len(grp), k))
        rnd += 1
    return done, lost


def generate(ck):
    g = G.Gen()
    rng = ck.rng('gen')
    if ck.quick:
        G.gen_range_literal(g, 3, ['untyped', 'long'], rng)
        G.gen_range_literal(g, 4, ['untyped', 'long', 'unsigned int', 'objinit', 'cinit', 'int'], rng, sample=10)
        G.gen_range_literal(g, 3, ['untyped'], rng, rev=True)
        G.gen_range_literal(g, 4, ['long', 'unsigned int', 'int'], rng, rev=True, sample=9)
    else:
        G.gen_range_literal(g, 8, ['untyped'], rng)
        G.gen_range_literal(g, 6, ['long'], rng)
        G.gen_range_literal(g, 6, ['untyped'], rng, rev=True)
        G.gen_range_literal(g, 4, ['long'], rng, rev=True)
        G.gen_range_literal(g, 4, ['objinit', 'cinit', 'int', 'unsigned int', 'Py_ssize_t', 'signed char', 'size_t', 'object'], rng, sample=40)
        G.gen_range_literal(g, 4, ['unsigned int', 'int', 'cinit', 'size_t', 'signed char'], rng, rev=True, sample=20)
    G.gen_range_typebounds(g, list(G.CTYPES), rng, ck.pick(16, 160))
    ctypes = list(G.CTYPES)
    steps_q = ['n1', 'n2', -3, -2, -1, 1, 2, 3]
    steps_t = ['n1', 'n2', -7, -4, -3, -2, -1, 0, 1, 2, 3, 4, 7]
    if ck.quick:
        G.gen_range_args(g, ['untyped', 'objinit'] + ctypes, steps_q, ['cvar'], ['full'], 4, rng, 6)
        G.gen_range_args(g, ['untyped', 'long', 'unsigned int'], steps_q, ['cvar'], ['rebind', 'nested'], 4, rng, 6)
        G.gen_range_args(g, ['untyped', 'long', 'unsigned int', 'signed char'], steps_q, ['obj'], ['full', 'rebind', 'plain'], 4, rng, 6)
        G.gen_range_args(g, ['object', 'int', 'size_t'], ['n2', -2, 1, 3], ['obj', 'expr'], ['full'], 4, rng, 6)
        G.gen_range_args(g, ['untyped', 'long', 'unsigned int'], ['n2', -3, -2, -1, 1, 2, 3], ['cvar'], ['full'], 4, rng, 4, rev=True)
        G.gen_range_args(g, ['long', 'unsigned int', 'int'], [-3, -2, 2, 3], ['obj'], ['full'], 4, rng, 4, rev=True)
    else:
        alls = ['untyped', 'objinit', 'object'] + ctypes
        G.gen_range_args(g, alls, steps_t, ['cvar', 'obj', 'expr'], ['full', 'rebind', 'nested', 'plain'], 6, rng, 30)
        G.gen_range_args(g, alls, steps_t, ['cvar', 'obj'], ['full'], 6, rng, 20, rev=True)
    G.gen_range_dynstep(g)
    nper = ck.pick(5, 18)
    G.gen_dict(g, rng, nper, list(G.DICT_MUT))
    G.gen_set(g, rng, nper, list(G.SET_MUT))
    G.gen_list(g, rng, nper, list(G.LIST_MUT))
    G.gen_enumerate(g, rng)
    G.gen_str_bytes(g, rng, nper)
    G.gen_carray(g, rng)
    if not ck.quick:
        # further, differently seeded draws of mutation histories for the containers
        for r in range(3):
            rng2 = ck.rng('gen%d' % (r + 2))
            G.gen_dict(g, rng2, nper, list(G.DICT_MUT))
            G.gen_set(g, rng2, nper, list(G.SET_MUT))
            G.gen_list(g, rng2, nper, list(G.LIST_MUT))
    only = os.environ.get('VERIF_C14_ONLY')
    if only:
        # development aid (never set by ./check users): restrict the workload to template kinds matching a regex
        ck.note('VERIF_C14_ONLY=%s: partial workload, reach floors not applicable' % only)
        return [f for f in g.fns if re.search(only, f.kind)]
    return g.fns


def main(ck):
    tree = cy.Tree('C14')
    fns = generate(ck)
    per_mod = max(40, min(ck.pick(300, 90), -(-len(fns) // ck.pick(14, 48))))
    done, lost = build_all(ck, tree, fns, per_mod, 'c14')
    ck.cov['t_build'] = round(ck.elapsed(), 1)
    for f, inf in lost[:10]:
        ck.note('template lost to a build failure (%s/%s): %s' % (f.kind, f.typing, (inf['errors'] or '')[-300:]))
    total_n = nontrivial = 0
    samples = []
    reach_hist = {}
    not_optimised = {}
    unexpected_unopt = []
    cells = {}
    hist = {}
    kinds_opt = set()
    byname = {f.name: f for f in fns}
    nfun_opt = 0
    jobs = []
    for name, d, inf, grp, refp in done:
        bodies = impl_bodies(open(inf['c'], encoding='utf-8', errors='replace').read())
        runs = {True: [], False: [], 'risky': []}
        infos = {}
        for f in grp:
            opt, anchor = reach(f.marker, bodies.get(f.name, ''))
            cellk = '%s/%s' % (f.kind, f.typing)
            if opt:
                reach_hist[anchor] = reach_hist.get(anchor, 0) + 1
                kinds_opt.add(f.kind)
                nfun_opt += 1
            else:
                not_optimised[cellk] = not_optimised.get(cellk, 0) + 1
                if f.expect_opt and f.marker != 'py-range':
                    unexpected_unopt.append('%s/%s/%s' % (f.kind, f.typing, f.shape))
            for i, (args, info) in enumerate(f.cases):
                tag = '%s/%s/%s/%s%s' % (f.kind, f.typing, info.get('mut') or f.info.get('mut', f.shape), info.get('feat', '') if 'packed' not in info else 'packed', '' if opt else '/unopt')
                c = {'f': f.name, 'a': args, 't': tag, 'ci': i}
                # calls that may bring the process down (None for a typed container) are kept apart so that the
                # outcome histogram of the other cases survives
                runs['risky' if info.get('container') == 'None' and opt else opt].append(c)
        for opt in (True, False, 'risky'):
            if runs[opt]:
                jobs.append((name, d, refp, opt, runs[opt]))

    def run_one(job):
        name, d, refp, opt, cases = job
        return diff.run_cases(tree, d, name, cases, ref=refp, compare={'post_args': True, 'log': True, 'exc_args': False},
                              setup=G.SETUP, tagdir='run_%s_%s' % (name, opt), timeout=1200,
                              nproc=1 if opt == 'risky' else min(4, max(1, len(cases) // 400)), max_restarts=80)

    ck.cov['t_reach'] = round(ck.elapsed(), 1)
    with ThreadPoolExecutor(6) as ex:
        results = list(ex.map(run_one, jobs))
    for (name, d, refp, opt, cases), res in zip(jobs, results):
        if True:
            total_n += res.n
            if opt:
                nontrivial += res.distinct
                samples.extend(res.samples[:1])
            for k, v in res.hist.items():
                hist[k] = hist.get(k, 0) + v
                ck_ = k.split('|')[0]
                cells[ck_] = cells.get(ck_, 0) + v
            for m in res.mismatches:
                f = byname[m['case']['f']]
                info = f.cases[m['case']['ci']][1]
                key = classify(f, info, m['exp'], m['got'])
                ck.discrepancy(key, '%s/%s %s: CPython %s, compiled %s' % (f.kind, f.typing, m['case']['a'], str(m['exp'])[:300], str(m['got'])[:300]),
                               {'module_source': G.HEADER + f.src, 'ref_source': G.HEADER + f.ref, 'ext': '.pyx',
                                'case': {k: v for k, v in m['case'].items() if k != 'ci'},
                                'compare': {'post_args': True, 'log': True}, 'setup': G.SETUP, 'cflags': [], 'directives': {},
                                'expected': m['exp'], 'observed': m['got'], 'optimised': opt, 'case_info': info})
            for c in res.crashes:
                f = byname[c['case']['f']]
                info = f.cases[c['case']['ci']][1]
                ck.discrepancy(classify_crash(f, info, c), 'crash/hang %s in %s on %s' % (c['kind'], f.kind, c['case']['a']),
                               {'module_source': G.HEADER + f.src, 'ref_source': G.HEADER + f.ref, 'ext': '.pyx',
                                'case': {k: v for k, v in c['case'].items() if k != 'ci'}, 'setup': G.SETUP,
                                'stderr': c['stderr'][-1500:]})
            for ft in res.fatal:
                ck.inconclusive_if(True, 'driver failed for %s: %s' % (name, str(ft)[-300:]))
    # ---- reach floors (DESIGN R): each container kind x mutation kind observed on an optimised loop
    need = []
    for cont, muts in (('dict-', G.DICT_MUT), ('set-iter', G.SET_MUT), ('list-plain', G.LIST_MUT), ('bytearray-plain', G.BA_MUT)):
        for m in muts:
            if not any(k.startswith(cont) and ('/%s/' % m) in k and not k.endswith('/unopt') for k in cells):
                need.append('%s x %s' % (cont, m))
    for kind in ('range-lit', 'range-bound', 'range-cvar', 'range-obj', 'range-expr', 'revrange-lit', 'revrange-cvar', 'revrange-obj',
                 'dict-iter', 'dict-keys', 'dict-values', 'dict-items', 'set-iter', 'list-plain', 'list-reversed', 'list-enumerate',
                 'tuple-reversed', 'str-plain', 'str-reversed', 'bytes-plain', 'bytes-reversed', 'bytearray-plain',
                 'carray-full', 'carray-slice-ab', 'carray-ptr-ab', 'enum-objstart'):
        if kind not in kinds_opt:
            need.append('kind ' + kind)
    if os.environ.get('VERIF_C14_ONLY'):
        need = []
    ck.inconclusive_if(bool(need), 'optimised loop form not reached for: %s' % ', '.join(need[:12]))
    ck.inconclusive_if(len(lost) > 0.2 * len(fns), '%d of %d templates lost to build failures' % (len(lost), len(fns)))
    expected_opt = sum(1 for f in fns if f.expect_opt and f.marker != 'py-range')
    ck.inconclusive_if(len(unexpected_unopt) > 0.15 * max(1, expected_opt),
                       '%d of %d templates expected to be optimised were not (floor 85%%)' % (len(unexpected_unopt), expected_opt))
    return ck.finish(
        total_n, nontrivial,
        'one function per loop template (range literal cube x target typing, type-bound triples, runtime bounds x step x '
        'bound kind x body shape, reversed/enumerate, dict/set/list/bytearray x mutation kind, str/bytes/C arrays); each called '
        'with generated bounds / containers / (mutation step, break step, continue step); compared with CPython on the '
        'plain-Python text: log of iterations, else/break markers, returned final loop variable, exception type, final '
        'argument state. distinct = distinct (function, CPython outcome) among functions whose generated C shows the '
        'optimised loop form',
        samples,
        extra={'functions': len(fns), 'functions_optimised': nfun_opt, 'not_optimised': not_optimised,
               'not_optimised_total': sum(not_optimised.values()), 'unexpectedly_not_optimised': sorted(set(unexpected_unopt))[:40],
               'skipped_build_failure': len(lost), 'reach': reach_hist, 'kinds_optimised': sorted(kinds_opt),
               'cells': dict(sorted(cells.items())[:400]), 'ncells': len(cells),
               'outcome_hist_top': dict(sorted(hist.items(), key=lambda kv: -kv[1])[:40])},
        assumptions=['CPython 3.12.1 executing the plain-Python text of each template is the reference',
                     'C-typed targets: only ranges whose start, stop and produced values fit the target type are compared '
                     '(a negative stop is admitted for descending unsigned ranges)',
                     'typed loop variables are initialised before the loop; untyped ones are read after the loop only if it ran',
                     'exception messages are not compared (type only)'])


def replay(ck, data):
    from vlib import replay as R
    w = data.get('witness', data)
    tree = cy.Tree('replay')
    d, info = tree.build_sources({'replaymod': w['module_source']}, subdir='r', ext='.pyx')
    inf = info['replaymod']
    if not inf['ok']:
        print('build failed at', inf['stage'], inf['errors'][-2000:])
        return 2
    refp = inf['src'] + '.ref.py'
    open(refp, 'w').write(w['ref_source'])
    res = diff.run_cases(tree, d, 'replaymod', [w['case']], ref=refp, compare=w.get('compare') or {'post_args': True},
                         setup=w.get('setup'), nproc=1)
    for m in res.mismatches:
        print('expected', m['exp'])
        print('observed', m['got'])
    for c in res.crashes:
        print('crash', c['kind'], c['stderr'][-1500:])
    if res.mismatches or res.crashes:
        print('VIOLATION property=%s replay=<replayed>' % ck.pid)
        return 1
    print('replay: case now agrees with the reference (%d evaluated)' % res.n)
    return 0
