"""C14 Optimised loops iterate exactly like Python loops (DESIGN.md section 5, C14).

Generated `.pyx` loop templates (vlib/gen/c14loops.py) are compiled by the tree under observation and every call
is compared with CPython executing the plain-Python text of the same function: iteration log, break/continue/else
markers, final loop variable, exception type and the final state of the (possibly mutated) container argument.
For every function the generated C is inspected for the optimised loop form (C for loop, __Pyx_dict_iter_next,
__Pyx_set_iter_next, unicode/bytes/C-array pointer loop); functions whose loop stayed a generic iterator loop are
run as well but reported as `not_optimised` and do not count towards distinct_nontrivial."""
import re

from vlib import creach, cy, diff
from vlib.gen import c14loops as G

_CFOR = re.compile(r'for \(__pyx_t_\d+ = [^;]*; __pyx_t_\d+ (?:<|>|<=|>=) [^;]*; (?:__pyx_t_\d+\s*(?:\+\+|--|\+=|-=)[^;{]*)?\) \{')
_GETITER = re.compile(r'PyObject_GetIter\(')


def reach(marker, body):
    """(optimised?, helper/anchor found) from the C body of the implementation function"""
    body = re.sub(r'/\*.*?\*/', '', body, flags=re.S)
    generic = bool(_GETITER.search(body))
    if marker == 'cfor':
        return bool(_CFOR.search(body)) and not generic, 'C for loop'
    if marker == 'py-range':
        return False, 'range() call'
    if marker == 'dict':
        return '__Pyx_dict_iter_next(' in body, '__Pyx_dict_iter_next'
    if marker == 'set':
        return '__Pyx_set_iter_next(' in body, '__Pyx_set_iter_next'
    if marker == 'str':
        return '__Pyx_init_unicode_iteration(' in body and not generic, '__Pyx_init_unicode_iteration'
    if marker == 'bytes':
        return '__Pyx_PyBytes_AsWritableString(' in body and bool(_CFOR.search(body)) and not generic, 'bytes pointer loop'
    if marker == 'bytearray':
        return 'while (1)' in body.replace('while (1) {', 'while (1)') and not generic, 'indexed while loop'
    if marker == 'carray':
        return bool(_CFOR.search(body)) and not generic, 'C pointer loop'
    if marker == 'list':
        return (not generic) and bool(re.search(r'__Pyx_PyList_GET_SIZE|__Pyx_PyTuple_GET_SIZE|PyList_GET_SIZE|PyTuple_GET_SIZE', body)), 'list/tuple index loop'
    if marker == 'enum':
        return 'enumerate' not in body, 'inlined enumerate counter'
    return False, '?'


def impl_bodies(ctext):
    """fz<N>z -> body of the __pyx_pf_ implementation function(s) only (argument-parsing wrappers excluded)"""
    out = {}
    for cname, body in creach.function_bodies(ctext).items():
        if '_pf_' not in cname and '_gb_' not in cname:
            continue
        for m in re.finditer(r'fz\d+z', cname):
            out[m.group(0)] = out.get(m.group(0), '') + '\n' + body
    return out


def oclass(o):
    return o[0] + ':' + (o[1][0] if o[0] == 'ok' else o[1])


def classify(fn, info, exp, got):
    """mechanism key from structural features of the template and the case (never from concrete values)"""
    ek, gk = oclass(exp), oclass(got)
    kind = fn.kind
    tcls = fn.typing if fn.typing not in G.CTYPES else ('ctarget:' + ('unsigned' if G.CTYPES[fn.typing][0] == 0 else 'signed'))
    if kind.startswith(('range-', 'revrange-')):
        if info.get('feat') == 'hostile-bound':
            return '%s:%s:hostile-bound:%s->%s' % (kind, tcls, ek, gk)
        if info.get('exit_fits') is False:
            # every produced value fits the target type but start + len*step (the value the C counter takes after
            # the last iteration) does not: the C loop counter overflows / wraps before the exit test
            return 'crange-exit-value-overflow:%s%s' % (tcls.split(':')[-1], ':reversed' if info.get('rev') else '')
        extra = ':neg-stop' if info.get('neg_stop_unsigned') else ''
        return '%s:%s:%s%s:%s->%s' % (kind, tcls, info.get('feat'), extra, ek, gk)
    mut = fn.info.get('mut', 'none')
    feat = info.get('feat', '')
    if kind.startswith('dict-') and mut in ('replace', 'readd') and ek == 'exc:RuntimeError' and feat != 'mu0':
        return 'dict-iter-keys-changed-undetected:%s' % ('typed' if fn.typing == 'dict' else fn.typing)
    if kind.startswith('enum-') and feat == 'start-hostile':
        return 'enumerate-start-used-as-is:%s->%s' % (ek, gk)
    if kind.startswith('bytes-') and info.get('highbyte') and fn.typing in ('int', 'long', 'short'):
        return 'bytes-iter-signed-char-widening:%s' % fn.typing
    return '%s:%s:mut=%s:%s:%s->%s' % (kind, tcls, mut, feat, ek, gk)


def build_all(ck, tree, fns, per_mod, tagbase):
    """-> list of (modname, builddir, info, [fns]); failed modules are split (bisection) so that one bad template
    does not hide the others; functions finally lost are counted"""
    done = []
    lost = []
    pending = [fns[i:i + per_mod] for i in range(0, len(fns), per_mod)]
    rnd = 0
    while pending:
        mods = {}
        groups = {}
        for gi, grp in enumerate(pending):
            name = '%s_r%d_%d' % (tagbase, rnd, gi)
            mods[name] = G.HEADER + '\n'.join(f.src for f in grp)
            groups[name] = grp
        d, info = tree.build_sources(mods, subdir='b_%s_r%d' % (tagbase, rnd), ext='.pyx')
        pending = []
        for name, grp in groups.items():
            inf = info[name]
            if inf['ok']:
                refp = inf['src'][:-4] + '_ref.py'
                with open(refp, 'w', encoding='utf-8') as f:
                    f.write(G.HEADER + '\n'.join(x.ref for x in grp))
                done.append((name, d, inf, grp, refp))
            elif len(grp) == 1:
                lost.append((grp[0], inf))
            elif rnd >= 4:
                lost.extend((x, inf) for x in grp)
            else:
                k = max(1, len(grp) // 4)
                pending.extend(grp[i:i + k] for i in range(0, len(grp), k))
        rnd += 1
    return done, lost


def generate(ck):
    g = G.Gen()
    rng = ck.rng('gen')
    R = ck.pick(4, 8)
    cube_typings = ['untyped', 'objinit', 'cinit', 'int', 'long', 'unsigned int']
    if ck.quick:
        G.gen_range_literal(g, R, cube_typings, rng, rev_typings=[])
        G.gen_range_literal(g, 3, [], rng, rev_typings=['untyped', 'long', 'unsigned int'])
    else:
        G.gen_range_literal(g, R, ['untyped', 'long'], rng, rev_typings=['untyped'])
        G.gen_range_literal(g, 5, ['objinit', 'cinit', 'int', 'unsigned int', 'Py_ssize_t', 'signed char', 'size_t'], rng,
                            rev_typings=['long', 'unsigned int', 'int', 'cinit'])
    G.gen_range_typebounds(g, list(G.CTYPES), rng, ck.pick(260, 4000))
    arg_typings = ['untyped', 'objinit', 'object'] + list(G.CTYPES)
    steps = ck.pick(['n1', 'n2', -3, -2, -1, 1, 2, 3], ['n1', 'n2', -7, -4, -3, -2, -1, 0, 1, 2, 3, 4, 7])
    G.gen_range_args(g, arg_typings, steps, ['cvar', 'obj', 'expr'], ['full', 'rebind', 'nested', 'plain'], 4, rng,
                     ck.pick(6, 30))
    G.gen_range_args(g, ck.pick(['untyped', 'long', 'unsigned int', 'int', 'size_t'], arg_typings),
                     ck.pick(['n2', -3, -2, -1, 1, 2, 3], steps), ['cvar', 'obj'], ['full'], 4, rng, ck.pick(4, 20), rev=True)
    G.gen_range_dynstep(g)
    nper = ck.pick(5, 18)
    G.gen_dict(g, rng, nper, list(G.DICT_MUT))
    G.gen_set(g, rng, nper, list(G.SET_MUT))
    G.gen_list(g, rng, nper, list(G.LIST_MUT))
    G.gen_enumerate(g, rng)
    G.gen_str_bytes(g, rng, nper)
    G.gen_carray(g, rng)
    if not ck.quick:
        # second, differently seeded draw of mutation histories for the containers
        rng2 = ck.rng('gen2')
        G.gen_dict(g, rng2, nper, list(G.DICT_MUT))
        G.gen_set(g, rng2, nper, list(G.SET_MUT))
        G.gen_list(g, rng2, nper, list(G.LIST_MUT))
    return g.fns


def main(ck):
    tree = cy.Tree('C14')
    fns = generate(ck)
    done, lost = build_all(ck, tree, fns, 420, 'c14')
    for f, inf in lost[:10]:
        ck.note('template lost to a build failure (%s/%s): %s' % (f.kind, f.typing, (inf['errors'] or '')[-300:]))
    total_n = nontrivial = 0
    samples = []
    reach_hist = {}
    not_optimised = {}
    unexpected_unopt = []
    cells = {}
    hist = {}
    kinds_opt = set()
    byname = {f.name: f for f in fns}
    nfun_opt = 0
    for name, d, inf, grp, refp in done:
        bodies = impl_bodies(open(inf['c'], encoding='utf-8', errors='replace').read())
        runs = {True: [], False: []}
        infos = {}
        for f in grp:
            opt, anchor = reach(f.marker, bodies.get(f.name, ''))
            cellk = '%s/%s' % (f.kind, f.typing)
            if opt:
                reach_hist[anchor] = reach_hist.get(anchor, 0) + 1
                kinds_opt.add(f.kind)
                nfun_opt += 1
            else:
                not_optimised[cellk] = not_optimised.get(cellk, 0) + 1
                if f.expect_opt and f.marker != 'py-range':
                    unexpected_unopt.append('%s/%s/%s' % (f.kind, f.typing, f.shape))
            for i, (args, info) in enumerate(f.cases):
                tag = '%s/%s/%s/%s%s' % (f.kind, f.typing, f.info.get('mut', f.shape), info.get('feat', ''), '' if opt else '/unopt')
                c = {'f': f.name, 'a': args, 't': tag, 'ci': i}
                runs[opt].append(c)
        for opt in (True, False):
            if not runs[opt]:
                continue
            res = diff.run_cases(tree, d, name, runs[opt], ref=refp, compare={'post_args': True, 'log': True, 'exc_args': False},
                                 setup=G.SETUP, tagdir='run_%s_%d' % (name, opt), timeout=600)
            total_n += res.n
            if opt:
                nontrivial += res.distinct
                samples.extend(res.samples[:1])
            for k, v in res.hist.items():
                hist[k] = hist.get(k, 0) + v
                ck_ = k.split('|')[0]
                cells[ck_] = cells.get(ck_, 0) + v
            for m in res.mismatches:
                f = byname[m['case']['f']]
                info = f.cases[m['case']['ci']][1]
                key = classify(f, info, m['exp'], m['got'])
                ck.discrepancy(key, '%s/%s %s: CPython %s, compiled %s' % (f.kind, f.typing, m['case']['a'], str(m['exp'])[:300], str(m['got'])[:300]),
                               {'module_source': G.HEADER + f.src, 'ref_source': G.HEADER + f.ref, 'ext': '.pyx',
                                'case': {k: v for k, v in m['case'].items() if k != 'ci'},
                                'compare': {'post_args': True, 'log': True}, 'setup': G.SETUP, 'cflags': [], 'directives': {},
                                'expected': m['exp'], 'observed': m['got'], 'optimised': opt, 'case_info': info})
            for c in res.crashes:
                f = byname[c['case']['f']]
                ck.discrepancy('crash:%s:%s' % (f.kind, f.typing), 'crash/hang %s in %s on %s' % (c['kind'], f.kind, c['case']['a']),
                               {'module_source': G.HEADER + f.src, 'ref_source': G.HEADER + f.ref, 'ext': '.pyx',
                                'case': {k: v for k, v in c['case'].items() if k != 'ci'}, 'setup': G.SETUP,
                                'stderr': c['stderr'][-1500:]})
            for ft in res.fatal:
                ck.inconclusive_if(True, 'driver failed for %s: %s' % (name, str(ft)[-300:]))
    # ---- reach floors (DESIGN R): each container kind x mutation kind observed on an optimised loop
    need = []
    for cont, muts in (('dict-', G.DICT_MUT), ('set-iter', G.SET_MUT), ('list-plain', G.LIST_MUT), ('bytearray-plain', G.BA_MUT)):
        for m in muts:
            if not any(k.startswith(cont) and ('/%s/' % m) in k and not k.endswith('/unopt') for k in cells):
                need.append('%s x %s' % (cont, m))
    for kind in ('range-lit', 'range-bound', 'range-cvar', 'range-obj', 'range-expr', 'revrange-lit', 'revrange-cvar', 'revrange-obj',
                 'dict-iter', 'dict-keys', 'dict-values', 'dict-items', 'set-iter', 'list-plain', 'list-reversed', 'list-enumerate',
                 'tuple-reversed', 'str-plain', 'str-reversed', 'bytes-plain', 'bytes-reversed', 'bytearray-plain',
                 'carray-full', 'carray-slice-ab', 'carray-ptr-ab', 'enum-objstart'):
        if kind not in kinds_opt:
            need.append('kind ' + kind)
    ck.inconclusive_if(bool(need), 'optimised loop form not reached for: %s' % ', '.join(need[:12]))
    ck.inconclusive_if(len(lost) > 0.2 * len(fns), '%d of %d templates lost to build failures' % (len(lost), len(fns)))
    expected_opt = sum(1 for f in fns if f.expect_opt and f.marker != 'py-range')
    ck.inconclusive_if(len(unexpected_unopt) > 0.15 * max(1, expected_opt),
                       '%d of %d templates expected to be optimised were not (floor 85%%)' % (len(unexpected_unopt), expected_opt))
    return ck.finish(
        total_n, nontrivial,
        'one function per loop template (range literal cube x target typing, type-bound triples, runtime bounds x step x '
        'bound kind x body shape, reversed/enumerate, dict/set/list/bytearray x mutation kind, str/bytes/C arrays); each called '
        'with generated bounds / containers / (mutation step, break step, continue step); compared with CPython on the '
        'plain-Python text: log of iterations, else/break markers, returned final loop variable, exception type, final '
        'argument state. distinct = distinct (function, CPython outcome) among functions whose generated C shows the '
        'optimised loop form',
        samples,
        extra={'functions': len(fns), 'functions_optimised': nfun_opt, 'not_optimised': not_optimised,
               'not_optimised_total': sum(not_optimised.values()), 'unexpectedly_not_optimised': sorted(set(unexpected_unopt))[:40],
               'skipped_build_failure': len(lost), 'reach': reach_hist, 'kinds_optimised': sorted(kinds_opt),
               'cells': dict(sorted(cells.items())[:400]), 'ncells': len(cells),
               'outcome_hist_top': dict(sorted(hist.items(), key=lambda kv: -kv[1])[:40])},
        assumptions=['CPython 3.12.1 executing the plain-Python text of each template is the reference',
                     'C-typed targets: only ranges whose start, stop and produced values fit the target type are compared '
                     '(a negative stop is admitted for descending unsigned ranges)',
                     'typed loop variables are initialised before the loop; untyped ones are read after the loop only if it ran',
                     'exception messages are not compared (type only)'])


def replay(ck, data):
    from vlib import replay as R
    w = data.get('witness', data)
    tree = cy.Tree('replay')
    d, info = tree.build_sources({'replaymod': w['module_source']}, subdir='r', ext='.pyx')
    inf = info['replaymod']
    if not inf['ok']:
        print('build failed at', inf['stage'], inf['errors'][-2000:])
        return 2
    refp = inf['src'] + '.ref.py'
    open(refp, 'w').write(w['ref_source'])
    res = diff.run_cases(tree, d, 'replaymod', [w['case']], ref=refp, compare=w.get('compare') or {'post_args': True},
                         setup=w.get('setup'), nproc=1)
    for m in res.mismatches:
        print('expected', m['exp'])
        print('observed', m['got'])
    for c in res.crashes:
        print('crash', c['kind'], c['stderr'][-1500:])
    if res.mismatches or res.crashes:
        print('VIOLATION property=%s replay=<replayed>' % ck.pid)
        return 1
    print('replay: case now agrees with the reference (%d evaluated)' % res.n)
    return 0
