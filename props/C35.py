"""C35 Reference counts stay balanced on every path, including errors (DESIGN.md section 5, C35).

Fault enumeration: every generated function is run once unarmed over instrumented operands (counting N fallible
dunder/iterator/conversion calls) and then N times with the k-th such call raising Injected(k). Monitors: (a) the
outcome under injection equals CPython's for the same k, (b) Cython's reference nanny (built from the tree,
modules built with CYTHON_REFNANNY=1) reports nothing, (c) the live-instance count of instrumented objects returns
to its baseline after every run and refcounts of tracked objects are unchanged, (d) thorough: the same under ASan
with PYTHONMALLOC=malloc."""
import json
import os
import re
import shutil
from concurrent.futures import ThreadPoolExecutor

from vlib import core, cy, san
from vlib.gen import faultgen

LEVEL = 'fault_enumeration'


def cls(o):
    return o[0] + (':' + str(o[1]) if o[0] == 'exc' else '')


def run_module(tree, d, name, refpath, todo, tag, extra_env=None, as_gb=6, timeout=1200, max_k=80):
    """returns (records, summaries, crashes, fatal, nanny_text)"""
    rd = tree.subdir('run_%s_%s' % (tag, name))
    out = os.path.join(rd, 'out.jsonl')
    prog = os.path.join(rd, 'prog')
    so = os.path.join(rd, 'stdout.txt')
    se = os.path.join(rd, 'stderr.txt')
    records, summaries, crashes, fatal = [], [], [], []
    start = 0
    restarts = 0
    while start < len(todo):
        spec = {'builddir': d, 'mod': name, 'ref': refpath, 'todo': todo, 'start': start, 'out': out, 'progress': prog,
                'stdout_path': so, 'stderr_path': se, 'max_k': max_k}
        sf = os.path.join(rd, 'spec.json')
        json.dump(spec, open(sf, 'w'))
        for p in (out, prog):
            if os.path.exists(p):
                os.unlink(p)
        r = core.run([core.PY, '-m', 'props.C35_driver', sf], env=tree.env(d, extra=extra_env), timeout=timeout, as_gb=as_gb)
        done = False
        if os.path.exists(out):
            for ln in open(out).read().splitlines():
                try:
                    rec = json.loads(ln)
                except ValueError:
                    continue
                if rec.get('type') == 'done':
                    summaries.append(rec['summary'])
                    done = True
                else:
                    records.append(rec)
        if done and r.rc == 0:
            break
        at = None
        if os.path.exists(prog):
            try:
                parts = open(prog).read().split()
                at = (int(parts[0]), int(parts[1]))
            except Exception:
                at = None
        if at is None or at[0] < start:
            fatal.append({'rc': r.rc, 'timed_out': r.timed_out, 'stderr': (open(se).read()[-2000:] if os.path.exists(se) else '')})
            break
        crashes.append({'f': todo[at[0]][0], 'vals': todo[at[0]][1], 'k': at[1], 'kind': 'HANG' if r.timed_out else 'CRASH rc=%s' % r.rc,
                        'stderr': (open(se).read()[-2500:] if os.path.exists(se) else '')})
        start = at[0] + 1
        restarts += 1
        if restarts > 20:
            fatal.append({'rc': r.rc, 'stderr': 'too many restarts'})
            break
    nanny = open(so, errors='replace').read() if os.path.exists(so) else ''
    return records, summaries, crashes, fatal, nanny


def main(ck):
    tree = cy.Tree('C35')
    rng = ck.rng('programs')
    nmods = ck.pick(6, 48)
    nfuncs = ck.pick(20, 40)
    mods, names = {}, {}
    feats = {}
    for i in range(nmods):
        src, fn, ft = faultgen.gen_module(rng, nfuncs)
        try:
            compile(src, 'm', 'exec')
        except SyntaxError as e:
            ck.note('generator produced invalid python: %s' % e)
            continue
        name = 'c35m%d' % i
        mods[name] = src
        names[name] = fn
        for k, v in ft.items():
            feats[k] = feats.get(k, 0) + v
    # ---- reference nanny from the tree
    d = tree.subdir('b')
    open(os.path.join(d, 'frt.py'), 'w').write(faultgen.RUNTIME)
    nanny_src = os.path.join(tree.mirror, 'Cython', 'Runtime', 'refnanny.pyx')
    shutil.copy(nanny_src, os.path.join(d, 'refnanny.pyx'))
    tres, _ = tree.translate([{'src': os.path.join(d, 'refnanny.pyx')}])
    nanny_ok = tres[0]['ok'] and tree.cbuild(tres[0]['c'])['ok']
    if not nanny_ok:
        ck.inconclusive_if(True, 'refnanny could not be built from the tree: %s' % (tres[0].get('errors') or '')[-300:])
    d, info = tree.build_sources(mods, subdir='b', ext='.py', cflags=['-DCYTHON_REFNANNY=1'])
    vals_pool = [[3, 2, 1], [0, 5, 2], [7, 3, 10], [2, 2, 2], [1, 0, 3], [6, 1, 4]]
    nvals = ck.pick(2, 3)
    jobs = []
    failed = 0
    for name, inf in info.items():
        if not inf['ok']:
            failed += 1
            ck.note('build failure %s at %s: %s' % (name, inf['stage'], inf['errors'][-400:]))
            continue
        todo = []
        for fn in names[name]:
            for v in rng.sample(vals_pool, nvals):
                todo.append([fn, v])
        jobs.append((name, inf['src'], todo))
    configs = [('nanny', d, None, 6)]
    if not ck.quick:
        # the same programs under ASan on a malloc-backed heap (use-after-free / double free of objects)
        d2, info2 = tree.build_sources(mods, subdir='basan', ext='.py', cflags=san.SAN_CFLAGS, opt=san.SAN_OPT)
        open(os.path.join(d2, 'frt.py'), 'w').write(faultgen.RUNTIME)
        configs.append(('asan', d2, info2, 0))
    totals = {'functions': 0, 'runs': 0, 'injected_runs': 0, 'order_mismatch': 0, 'kinds': {}, 'ref_unclean': 0, 'max_ticks': 0,
              'distinct': 0, 'caught_by_program': 0, 'propagated': 0}
    samples = []
    nanny_reports = 0
    asan_reports = {}
    crashes_n = 0
    order_examples = []
    nanny_loaded = []

    for cfg, bdir, binfo, as_gb in configs:
        def one(job):
            name, refpath, todo = job
            if binfo is not None and not binfo[name]['ok']:
                return name, None
            env = None
            if cfg == 'asan':
                env = san.run_env(os.path.join(tree.work, 'asanlogs_' + name))
            return name, run_module(tree, bdir, name, refpath, todo, cfg, extra_env=env, as_gb=as_gb,
                                    max_k=ck.pick(60, 120))
        with ThreadPoolExecutor(min(core.NCPU, max(1, len(jobs)))) as ex:
            results = list(ex.map(one, jobs))
        for name, res in results:
            if res is None:
                continue
            records, summaries, crashes, fatal, nanny = res
            for s in summaries:
                for k in ('functions', 'runs', 'injected_runs', 'order_mismatch', 'ref_unclean', 'distinct', 'caught_by_program', 'propagated'):
                    totals[k] += s[k]
                totals['max_ticks'] = max(totals['max_ticks'], s['max_ticks'])
                for k, v in s['kinds'].items():
                    totals['kinds'][k] = totals['kinds'].get(k, 0) + v
                samples.extend(s['samples'][:1])
                if cfg == 'nanny':
                    nanny_loaded.append(bool(s.get('refnanny_module') and s['refnanny_module'].startswith(bdir)))
            wit = {'module_source': mods[name], 'module_name': name, 'config': cfg, 'runtime': 'vlib/gen/faultgen.py RUNTIME'}
            for rec in records:
                t = rec['type']
                if t == 'order':
                    # different dunder-call sequences without injection: evaluation order/count differs (C19/C20's
                    # subject); such functions are dropped from the injection comparison and counted
                    order_examples.append({'f': rec['f'], 'ref': rec['ref'], 'got': rec['got']})
                elif t == 'refcount':
                    ck.discrepancy('refcount-drift', 'refcount of tracked objects changed %s -> %s after %s' %
                                   (rec['before'], rec['after'], rec['f']), dict(wit, record=rec))
                else:
                    if rec.get('leak'):
                        ck.discrepancy('leak:%s:%s' % (t, rec.get('kind', '-')),
                                       '%d instrumented object(s) still alive after %s%s k=%s (%s)' %
                                       (rec['leak'], rec['f'], rec['vals'], rec.get('k'), rec.get('kind')), dict(wit, record=rec))
                    if rec['exp'] == rec['got'] and not rec.get('kinds_equal', True) and not rec.get('leak'):
                        totals['order_mismatch'] += 1
                        order_examples.append({'f': rec['f'], 'k': rec.get('k'), 'kind': rec.get('kind')})
                    if rec['exp'] != rec['got']:
                        ck.discrepancy('%s:%s:%s->%s' % (t, rec.get('kind', '-'), cls(rec['exp']), cls(rec['got'])),
                                       '%s%s k=%s (%s): CPython %s, compiled %s' % (rec['f'], rec['vals'], rec.get('k'), rec.get('kind'),
                                                                                  str(rec['exp'])[:200], str(rec['got'])[:200]),
                                       dict(wit, record=rec))
            for c in crashes:
                crashes_n += 1
                ck.discrepancy('crash:%s' % cfg, 'crash/hang %s in %s%s at injection k=%s' % (c['kind'], c['f'], c['vals'], c['k']),
                               dict(wit, crash=c))
            for ft in fatal:
                ck.inconclusive_if(True, 'driver failed for %s/%s: %s' % (cfg, name, str(ft)[-300:]))
            if cfg == 'nanny':
                lines = nanny.splitlines()
                for i, ln in enumerate(lines):
                    if ln.startswith('REFNANNY:') or 'refnanny raised an exception' in ln:
                        nanny_reports += 1
                        where = lines[i - 1] if i else ''
                        msg = re.sub(r'\d+', 'N', ln)[:80]
                        ck.discrepancy('refnanny:%s' % msg.split(',')[0], '%s %s' % (where, ln[:300]),
                                       dict(wit, nanny_output='\n'.join(lines[max(0, i - 2):i + 6])))
            else:
                for r in san.parse_logs(os.path.join(tree.work, 'asanlogs_' + name)):
                    key = san.dedupe_key(r)
                    asan_reports[key] = asan_reports.get(key, 0) + 1
                    ck.discrepancy(key, '%s report in %s: %s' % (r['tool'], r['func'], r['kind']), dict(wit, report=r['text']))
    ck.inconclusive_if(failed > max(1, nmods // 5), '%d of %d modules failed to build' % (failed, nmods))
    ck.inconclusive_if(totals['injected_runs'] < ck.pick(1000, 20000), 'fewer injected runs than the floor')
    ck.inconclusive_if(not nanny_loaded or not all(nanny_loaded), 'the reference nanny built from the tree was not the one loaded')
    ck.inconclusive_if(len(totals['kinds']) < 10, 'fewer than 10 kinds of fallible call were injected')
    return ck.finish(
        totals['runs'], totals['distinct'],
        'faultgen programs over instrumented T objects; run 0 counts the fallible dunder/iterator/conversion calls, run k makes '
        'the k-th raise Injected(k); compared with CPython under the same k; refnanny (from the tree) output, live-instance '
        'conservation and refcounts of tracked objects checked after every run. distinct = distinct (function, injected kind, '
        'CPython outcome) triples',
        samples,
        extra={'modules': len(mods), 'functions_x_inputs': totals['functions'], 'injected_runs': totals['injected_runs'],
               'injection_points_by_kind': dict(sorted(totals['kinds'].items())), 'max_fallible_calls_in_one_run': totals['max_ticks'],
               'injection_propagated_to_caller': totals['propagated'], 'injection_handled_by_program': totals['caught_by_program'],
               'dropped_tick_order_mismatch': totals['order_mismatch'], 'tick_order_mismatch_examples': order_examples[:5], 'dropped_reference_not_clean': totals['ref_unclean'],
               'refnanny_reports': nanny_reports, 'refnanny_from_tree_loaded_in_runs': len(nanny_loaded), 'asan_reports': asan_reports, 'crashes': crashes_n,
               'configs': [c[0] for c in configs], 'statement_templates_used': len(feats),
               'blocks': {k: v for k, v in feats.items() if k.startswith('block:')}},
        assumptions=['no debug CPython (no sys.gettotalrefcount): balance is observed through refnanny, live-instance counters, '
                     'sys.getrefcount of tracked objects and ASan on a malloc-backed heap',
                     'evaluation order of dunder calls equals CPython (C20); functions where it does not are reported, not injected'])
