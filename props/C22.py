"""C22 Exception handling semantics match CPython (DESIGN.md section 5, C22).

excgen functions (nested try/except/else/finally, with, except*, raise / raise from / bare raise,
return/break/continue in handlers and finally blocks inside loops, nested functions and generators) are compiled and
called with every single injection, sampled pairs of injections (which point raises which exception class) and directed
scenarios (for every return/break/continue/raise nested in except / finally clauses the injections that run all enclosing
clauses on their exception path, so that several exceptions are alive at the jump).
Every block logs its id and the exception being handled; the log, the result and the propagating exception (class,
args, __cause__/__context__/__suppress_context__ chain, ExceptionGroup structure) are compared with CPython
executing the same source.
"""
import ast
import json
from concurrent.futures import ThreadPoolExecutor

from vlib import cy, diff
from vlib.gen import excgen

COMPARE = {'exc_args': True, 'exc_chain': True, 'log': True}


def _log_of(o):
    for x in o[2:]:
        if isinstance(x, list) and x and x[0] == 'log':
            return x[1]
    return []


def _entry(e):
    """sig of a logged tuple -> (tag, id or None, rest)"""
    try:
        if e[0] == 'tuple':
            items = e[1]
            tag = ast.literal_eval(items[0][1]) if items[0][0] == 'str' else '?'
            ident = items[1][1] if len(items) > 1 and items[1][0] == 'int' else None
            return tag, ident, items[1:]
    except Exception:
        pass
    return '?', None, e


def _strip_chain(x):
    if isinstance(x, list):
        if x and x[0] == 'exc' and len(x) >= 3 and isinstance(x[1], str):
            out = ['exc', x[1], _strip_chain(x[2])]
            for extra in x[3:]:
                if isinstance(extra, list) and extra and extra[0] == 'group':
                    out.append(['group', [_strip_chain(g) for g in extra[1]]])
            return out
        return [_strip_chain(e) for e in x]
    return x


def _chain_kind(e, g):
    """two exception sigs equal up to chain information: how do the chains differ"""
    def slot(x, name):
        for y in x[3:]:
            if isinstance(y, list) and y and y[0] == name:
                return y[1]
        return 'n/a'
    for name in ('context', 'cause', 'suppress'):
        a, b = slot(e, name), slot(g, name)
        if a != b:
            if name == 'suppress':
                return 'suppress-flag'
            if a is not None and b is None:
                return name + '-missing'
            if a is None and b is not None:
                return name + '-extra'
            if isinstance(a, list) and isinstance(b, list) and _strip_chain(a) == _strip_chain(b):
                return name + '>' + _chain_kind(a, b)
            return name + '-other'
    return 'group-member-chain'


def _norm_gen_finalisers(o):
    """observation in which the log entries written by the finally block of an *abandoned* nested generator
    (('gf', id, GeneratorExit): it runs when the generator object is finalised) are taken out of the sequence and kept as
    a sorted list: when a dropped generator gets finalised relative to other code (CPython: when the frame releases its
    value stack; compiled code: when the iterator temp is released, e.g. at a 'return' inside the loop) and in which
    order several of them are finalised is reference-count timing, not exception semantics"""
    o = json.loads(json.dumps(o))
    for x in o[2:]:
        if isinstance(x, list) and x and x[0] == 'log':
            items = x[1]
            fin = [it for it in items if _entry(it)[0] == 'gf' and 'GeneratorExit' in json.dumps(it)]
            rest = [it for it in items if not (_entry(it)[0] == 'gf' and 'GeneratorExit' in json.dumps(it))]
            x[1] = rest + [['finalised-generators', sorted(fin, key=json.dumps)]]
    return o


def crash_key(f):
    """crashes are keyed by the construct combination of the function (two confirmed mechanisms, see notes/C22.md)"""
    src = f['src']
    feats = set(f['feat'])
    import re
    if 'except-star' in feats and ('with' in feats or 'with-suppress' in feats):
        return 'crash-with-statement-sees-null-traceback-of-except-star-group'
    if any(x in feats for x in ('break-in-finally', 'continue-in-finally')) and any(x.startswith('return-in-') for x in feats) \
            and ('nested-generator' in feats or 'loop' in feats):
        return 'crash-return-in-loop-overridden-by-jump-in-finally'
    if any(x.startswith('raise-in-') and x.endswith('-intercepted') for x in feats):
        return 'crash-bare-raise-caught-again-inside-its-clause'
    if re.search(r'^\s*raise$', src, re.M) and any(x.split('-in-')[0] in ('return', 'break', 'continue') for x in feats):
        return 'crash-jump-out-of-except-clause-after-bare-raise'
    return 'crash'


def mechanism(f, exp, got):
    """mechanism key from structural features of the first difference"""
    le, lg = _log_of(exp), _log_of(got)
    gen = '+gen' if 'nested-generator' in f['feat'] else ''
    if 'orig must be a raised exception' in json.dumps(got) and 'orig must be a raised exception' not in json.dumps(exp):
        # PyUnstable_Exc_PrepReraiseStar() refused the group caught by an (outer) except*: it has no traceback because
        # the inner except* that created it skipped add_traceback
        return 'except-star-regroup-of-group-without-traceback', {}
    i = 0
    while i < len(le) and i < len(lg) and le[i] == lg[i]:
        i += 1
    if i < len(le) or i < len(lg):
        if i >= len(le) or i >= len(lg):
            return 'blocks-executed:%s-log-longer%s' % ('compiled' if i >= len(le) else 'cpython', gen), {'log_index': i}
        te, ie, re_ = _entry(le[i])
        tg, ig, rg = _entry(lg[i])
        info = {'log_index': i, 'expected_entry': json.dumps(le[i])[:200], 'observed_entry': json.dumps(lg[i])[:200]}
        if (te, ie) != (tg, ig):
            return 'blocks-executed:%s-instead-of-%s%s' % (tg, te, gen), info
        if te == 'eg':
            return 'exception-group-structure', info
        if te == 'e':
            return 'handler-exception-chain%s' % gen, info
        # same block, different sys.exc_info()
        ee, eg_ = re_[-1], rg[-1]
        kind = 'stale' if ee == ['NoneType', 'None'] else 'lost' if eg_ == ['NoneType', 'None'] else 'other'
        return 'exc-info-%s@%s%s' % (kind, te, gen), info
    # logs agree: result / propagating exception
    info = {}
    if exp[0] != got[0]:
        return 'outcome:%s-vs-%s%s' % (exp[0] if exp[0] == 'ok' else 'exc:' + exp[1], got[0] if got[0] == 'ok' else 'exc:' + got[1], gen), info
    if exp[0] == 'ok':
        return 'return-value%s' % gen, info
    if exp[1] != got[1]:
        return 'exception-class:%s-vs-%s%s' % (exp[1], got[1], gen), info
    if _strip_chain(exp[:-1]) != _strip_chain(got[:-1]):
        return 'exception-args-or-group-structure:%s%s' % (exp[1], gen), info
    return 'exception-chain:%s%s' % (_chain_kind(exp, got), gen), info


def main(ck):
    tree = cy.Tree('C22')
    rng = ck.rng('exc')
    nfuncs = ck.pick(400, 2000)
    per_mod = ck.pick(50, 125)
    mods = {}
    fmap = {}
    feat = {}
    nscen = nscen_funcs = 0
    for mi in range(0, nfuncs, per_mod):
        name = 'c22m%d' % (mi // per_mod)
        funcs = [excgen.gen_function(rng, 'ez%dz' % (mi + i), star=((mi + i) % 5 == 4)) for i in range(min(per_mod, nfuncs - mi))]
        mods[name] = (excgen.HEADER + '\n\n'.join(f['src'] for f in funcs), funcs)
        for f in funcs:
            fmap[f['name']] = f
            nscen += len(f['scenarios'])
            nscen_funcs += bool(f['scenarios'])
            for x in f['feat']:
                feat[x] = feat.get(x, 0) + 1
    d, info = tree.build_sources({n: s for n, (s, _) in mods.items()}, subdir='b', ext='.py')
    ck.cov['build_wall_s'] = round(ck.elapsed(), 1)
    skipped = 0
    total_n = total_distinct = 0
    samples = []
    hist = {}
    irng = ck.rng('inj')
    ncases_feat = {}
    order_only = 0
    jobs = []
    for n, inf in info.items():
        if not inf['ok']:
            skipped += 1
            ck.note('build failure %s at %s: %s' % (n, inf['stage'], inf['errors'][-800:]))
            continue
        cases = []
        for f in mods[n][1]:
            tag = 'star' if f['star'] else 'gen' if 'nested-generator' in f['feat'] else 'plain'
            for inj in excgen.injections(irng, f, max_pairs=ck.pick(24, 40)):
                cases.append({'f': f['name'], 'a': '(%r,)' % (inj,), 't': '%s/%d' % (tag, len(inj))})
                for x in f['feat']:
                    ncases_feat[x] = ncases_feat.get(x, 0) + 1
        jobs.append((n, inf, cases))

    def run_module(job):
        n, inf, cases = job
        return diff.run_cases(tree, d, n, cases, ref=inf['src'], compare=COMPARE, tagdir='run_' + n, timeout=3600,
                              nproc=ck.pick(1, 2), spec_extra={'catch_base': True, 'nsample': 2})

    with ThreadPoolExecutor(8) as ex:
        results = list(ex.map(run_module, jobs))
    for (n, inf, cases), res in zip(jobs, results):
        total_n += res.n
        total_distinct += res.distinct
        samples.extend(res.samples[:1])
        for k, v in res.hist.items():
            hist[k] = hist.get(k, 0) + v
        for m in res.mismatches:
            f = fmap[m['case']['f']]
            if _norm_gen_finalisers(m['exp']) == _norm_gen_finalisers(m['got']):
                # only the order in which several abandoned nested generators are finalised differs (frame teardown
                # order vs closure field order): every cleanup ran exactly once, the statement asks no more
                order_only += 1
                continue
            key, inf2 = mechanism(f, m['exp'], m['got'])
            ck.discrepancy(key, '%s%s: CPython %s | compiled %s | %s' % (f['name'], m['case']['a'], json.dumps(m['exp'])[:260],
                                                                       json.dumps(m['got'])[:260], json.dumps(inf2)[:300]),
                           witness(f, m['case'], m['exp'], m['got'], inf2))
        for c in res.crashes:
            f = fmap[c['case']['f']]
            if c['kind'].startswith('HANG'):
                ck.inconclusive_if(True, 'watchdog fired on %s%s' % (f['name'], c['case']['a']))
                continue
            ck.discrepancy(crash_key(f), 'crash %s in %s%s' % (c['kind'], f['name'], c['case']['a']),
                           dict(witness(f, c['case'], None, None, {}), stderr=c['stderr']))
        for ft in res.fatal:
            ck.inconclusive_if(True, 'driver failed for %s: %s' % (n, str(ft)[-300:]))
    floor = ck.pick(10, 50)
    required = ['return-in-finally', 'raise-in-handler', 'with-suppress', 'except-star', 'break-in-handler', 'continue-in-handler',
                'break-in-finally', 'continue-in-finally', 'return-in-handler', 'raise-from-in-handler', 'nested-generator',
                'nested-function', 'try-else']
    for x in required:
        ck.inconclusive_if(feat.get(x, 0) < floor, 'construct %s only in %d functions (< %d)' % (x, feat.get(x, 0), floor))
    # jumps in a finally clause of a try statement that is itself inside an except clause (two exceptions alive at once):
    # rarer construct, own floors; 'directed' = injection vectors that make every enclosing clause run on its exception path
    floor2 = ck.pick(4, 20)
    fih = sum(v for k, v in feat.items() if k.endswith('-in-finally-in-handler'))
    ck.inconclusive_if(feat.get('raise-in-finally', 0) < floor, 'bare raise in a finally clause only in %d functions' % feat.get('raise-in-finally', 0))
    ck.inconclusive_if(feat.get('raise-in-finally-in-handler', 0) < floor2,
                       'bare raise in a finally clause inside an except clause only in %d functions' % feat.get('raise-in-finally-in-handler', 0))
    ck.inconclusive_if(fih < 3 * floor2, 'jumps in finally clauses inside except clauses only in %d functions' % fih)
    ck.inconclusive_if(nscen < 10 * floor2, 'only %d directed scenarios' % nscen)
    ck.inconclusive_if(skipped * 5 > len(mods), '%d of %d modules failed to build' % (skipped, len(mods)))
    return ck.finish(
        total_n, total_distinct,
        'excgen functions (depth <= 3) called with no injection, every single injection (2 exception classes per point; '
        'ExceptionGroups for except* functions), conditional-jump flags, sampled pairs and directed scenarios (for every jump '
        'nested in except/finally clauses: the body of every enclosing try raises an exception the clause receives); compared with CPython: ordered '
        'log of executed blocks with sys.exc_info() at each, result, propagating exception with args, chain and group '
        'structure. distinct = distinct (function, CPython observation)',
        samples,
        extra={'functions': nfuncs, 'modules_failed_build': skipped, 'construct_functions': feat, 'directed_scenarios': nscen,
               'functions_with_directed_scenarios': nscen_funcs,
               'cases_differing_only_in_generator_finalisation_order': order_only,
               'construct_case_counts': ncases_feat, 'outcome_hist': dict(sorted(hist.items(), key=lambda kv: -kv[1])[:30])},
        assumptions=['CPython 3.12.1 executing the identical source is the reference',
                     '__traceback__ objects are not compared (C44); sys.exc_info() is compared by class and last argument'])


def witness(f, case, exp, got, info):
    return {'function_source': excgen.HEADER + f['src'], 'ext': '.py', 'case': case, 'compare': COMPARE, 'cflags': [],
            'directives': {}, 'expected': exp, 'observed': got, 'first_difference': info}


def replay(ck, data):
    w = data.get('witness', data)
    tree = cy.Tree('C22r')
    d, info = tree.build_sources({'replaymod': w['function_source']}, subdir='r', ext='.py')
    inf = info['replaymod']
    if not inf['ok']:
        print('build failed at', inf['stage'], inf['errors'][-2000:])
        return 2
    res = diff.run_cases(tree, d, 'replaymod', [w['case']], ref=inf['src'], compare=COMPARE, nproc=1,
                         spec_extra={'catch_base': True})
    for m in res.mismatches:
        print('expected', json.dumps(m['exp']))
        print('observed', json.dumps(m['got']))
    for c in res.crashes:
        print('crash', c['kind'], c['stderr'][-1500:])
    if res.mismatches or res.crashes:
        print('VIOLATION property=%s replay=<replayed>' % ck.pid)
        return 1
    print('replay: case now agrees with the reference (%d evaluated)' % res.n)
    return 0
