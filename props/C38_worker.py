"""C38 part (b): sweeps of Shadow.cdiv / Shadow.cmod / Shadow.cast against (1) the compiled pure-mode module,
(2) natively compiled `//` and `%` under cdivision(True) and (3) a first-principles model.
Runs in a subprocess: python -m props.C38_worker spec.json   (PYTHONPATH = mirror, /verif, builddir)"""
import json
import math
import os
import random
import struct
import sys
import types


def trunc_div(a, b):
    q = abs(a) // abs(b)
    return -q if (a < 0) != (b < 0) else q


def trunc_mod(a, b):
    return a - trunc_div(a, b) * b


def boundary_values(lo, hi):
    vals = {lo, lo + 1, lo + 2, hi, hi - 1, hi - 2, 0, 1, 2, 3, 5, 7, 8, 10, 15, 16, 17, 100, 127, 128, 255, 256,
            1000, 32767, 32768, 65535, 65536, 2 ** 31 - 1, 2 ** 31, 2 ** 32 - 1, 2 ** 32, 2 ** 53, 2 ** 62, (lo + hi) // 2}
    vals |= {-v for v in list(vals)}
    vals |= {hi // 2, hi // 3, lo // 2, lo // 3, hi // 7}
    return sorted(v for v in vals if lo <= v <= hi)


def pairs_for(name, lo, hi, tier, rng):
    """yield lists (xs, ys) in batches"""
    width = (hi - lo + 1).bit_length() - 1
    bv = boundary_values(lo, hi)
    out = []
    if width <= 8:
        out += [(a, b) for a in range(lo, hi + 1) for b in range(lo, hi + 1)]
    else:
        out += [(a, b) for a in bv for b in bv]
        if tier == 'thorough':
            if width <= 16:
                allv = range(lo, hi + 1)
                out += [(a, b) for a in allv for b in bv]
                out += [(a, b) for a in bv for b in allv]
            w = 512 if width <= 16 else 256
            wl, wh = max(lo, -w), min(hi, w - 1 if lo < 0 else 2 * w - 1)
            out += [(a, b) for a in range(wl, wh + 1) for b in range(wl, wh + 1)]
        nrand = 6000 if tier == 'quick' else 250000
        for _ in range(nrand):
            k = rng.random()
            if k < 0.5:
                a, b = rng.randint(lo, hi), rng.randint(lo, hi)
            elif k < 0.8:
                a = rng.randint(lo, hi)
                b = rng.choice(bv) if rng.random() < 0.5 else rng.randint(max(lo, -1000), min(hi, 1000))
            else:
                bits = rng.randint(1, width)
                a = rng.getrandbits(bits) if lo >= 0 else rng.getrandbits(bits) - (1 << (bits - 1))
                bits = rng.randint(1, width)
                b = rng.getrandbits(bits) if lo >= 0 else rng.getrandbits(bits) - (1 << (bits - 1))
                a, b = min(max(a, lo), hi), min(max(b, lo), hi)
            out.append((a, b))
    # C leaves b == 0 and TYPE_MIN / -1 (for types that are not promoted to a wider type) undefined
    promoted = width < 31
    out = [(a, b) for a, b in out if b != 0 and not (not promoted and a == lo and b == -1 and lo < 0)]
    return out


def sigv(x):
    return [type(x).__name__, repr(x)]


def f32(x):
    return struct.unpack('f', struct.pack('f', x))[0]


def sign_class(a, b):
    exact = (a % b == 0)
    return '%s%s%s' % ('neg' if a < 0 else ('zero' if a == 0 else 'pos'), 'neg' if b < 0 else 'pos',
                       ':exact' if exact else ':inexact')


def main():
    spec = json.load(open(sys.argv[1]))
    sys.path.insert(0, spec['builddir'])
    import Cython.Shadow as shadow
    mroot = os.path.realpath(spec['mirror'])
    assert os.path.realpath(shadow.__file__).startswith(mroot) and shadow.__file__.endswith('.py'), shadow.__file__
    assert shadow.compiled is False
    sys.modules['cython'] = shadow
    interp = types.ModuleType('c38sweep_interp')
    src = open(spec['source']).read()
    exec(compile(src, spec['source'], 'exec'), interp.__dict__)
    comp = __import__(spec['mod'])
    assert comp.__file__.endswith('.so'), comp.__file__
    assert comp.is_compiled() is True and interp.is_compiled() is False
    from props.C38_sweep_src import INT_TYPES
    rng = random.Random(spec['seed'])
    tier = spec['tier']
    res = {'evaluations': 0, 'by_function': {}, 'mismatches': [], 'keys': {}, 'distinct_classes': {}}

    def record(key, rec):
        res['keys'][key] = res['keys'].get(key, 0) + 1
        if res['keys'][key] <= 3:
            rec['key'] = key
            res['mismatches'].append(rec)

    for name in spec['types']:
        cyt, lo, hi = INT_TYPES[name]
        prs = pairs_for(name, lo, hi, tier, rng)
        B = 50000
        for i in range(0, len(prs), B):
            chunk = prs[i:i + B]
            xs = [p[0] for p in chunk]
            ys = [p[1] for p in chunk]
            for opname, sh, model, nat in (('cdiv', shadow.cdiv, trunc_div, 'nativediv'),
                                           ('cmod', shadow.cmod, trunc_mod, 'nativemod')):
                r_int = getattr(interp, '%s_%s' % (opname, name))(xs, ys)
                r_cmp = getattr(comp, '%s_%s' % (opname, name))(xs, ys)
                r_nat = getattr(comp, '%s_%s' % (nat, name))(xs, ys)
                fn = '%s_%s' % (opname, name)
                res['by_function'][fn] = res['by_function'].get(fn, 0) + len(chunk)
                res['evaluations'] += len(chunk)
                for k, (a, b) in enumerate(chunk):
                    m = model(a, b)
                    s = sh(a, b)
                    if not (s == m == r_int[k] == r_cmp[k] == r_nat[k]) or type(s) is not int or type(r_cmp[k]) is not int:
                        wrong = [w for w, v in (('shadow', s), ('shadow-via-module', r_int[k]), ('compiled', r_cmp[k]),
                                                ('native-cdivision', r_nat[k])) if v != m or type(v) is not int]
                        record('%s:%s:%s:differs=%s' % (opname, 'signed' if lo < 0 else 'unsigned', sign_class(a, b),
                                                         '+'.join(wrong)),
                               {'fn': fn, 'a': a, 'b': b, 'model': m, 'shadow': sigv(s), 'shadow_via_module': sigv(r_int[k]),
                                'compiled': sigv(r_cmp[k]), 'native': sigv(r_nat[k])})
                    else:
                        c = '%s:%s' % (opname, sign_class(a, b))
                        res['distinct_classes'][c] = res['distinct_classes'].get(c, 0) + 1
        # ---- casts
        bv = boundary_values(lo, hi)
        ints = bv + [rng.randint(lo, hi) for _ in range(2000 if tier == 'quick' else 40000)]
        if hi - lo < 2 ** 16 + 1:
            ints += list(range(lo, hi + 1))
        dbls = []
        for v in ints:
            for d in (float(v), v + 0.5, v - 0.5, v + 0.999, v - 0.999, v + 1e-9):
                if abs(d) < 2 ** 62 and lo - 1 < d < hi + 1 and lo <= math.trunc(d) <= hi:
                    dbls.append(d)
        dbls += [0.0, -0.0, 1e-300, -1e-300, 0.9999999999999999, -0.9999999999999999]
        dbls = [d for d in dbls if lo <= math.trunc(d) <= hi]
        wide = 'longlong' if lo < 0 else 'ulonglong'
        jobs = [('cast_%s_from_double' % name, dbls, lambda d: math.trunc(d), cyt),
                ('cast_%s_from_%s' % (name, wide), ints, lambda v: v, cyt),
                ('cast_double_from_%s' % name, ints, lambda v: float(v), 'cython.double'),
                ('cast_bint_from_%s' % name, ints, lambda v: v != 0, 'cython.bint')]
        for fn, xs, model, tgt in jobs:
            r_int = getattr(interp, fn)(xs)
            r_cmp = getattr(comp, fn)(xs)
            tobj = eval(tgt, {'cython': shadow})
            res['by_function'][fn] = res['by_function'].get(fn, 0) + len(xs)
            res['evaluations'] += len(xs)
            for k, x in enumerate(xs):
                m = sigv(model(x))
                s = sigv(shadow.cast(tobj, x))
                got = (s, sigv(r_int[k]), sigv(r_cmp[k]))
                if not (got[0] == got[1] == got[2] == m):
                    wrong = [w for w, v in zip(('shadow', 'shadow-via-module', 'compiled'), got) if v != m]
                    kind = 'frac' if isinstance(x, float) and x != math.trunc(x) else 'whole'
                    record('cast:%s:%s:%s:differs=%s' % (fn.replace('_' + name, '_T'), 'neg' if x < 0 else 'nonneg', kind,
                                                          '+'.join(wrong)),
                           {'fn': fn, 'x': repr(x), 'model': m, 'shadow': got[0], 'shadow_via_module': got[1],
                            'compiled': got[2]})
                else:
                    c = 'cast:%s' % fn.replace('_' + name, '_T')
                    res['distinct_classes'][c] = res['distinct_classes'].get(c, 0) + 1
    if spec.get('float_casts'):
        fl = [f32(rng.uniform(-1e6, 1e6)) for _ in range(3000)] + [f32(x) for x in (0.1, 1e-30, 3.4e38, -3.4e38, 1.5, -0.0, 0.0)]
        for fn, model, tgt in (('cast_float_from_double', lambda d: d, 'cython.float'),
                               ('cast_double_from_float', lambda d: d, 'cython.double'),
                               ('cast_bint_from_double', lambda d: d != 0, 'cython.bint')):
            r_int = getattr(interp, fn)(fl)
            r_cmp = getattr(comp, fn)(fl)
            tobj = eval(tgt, {'cython': shadow})
            res['by_function'][fn] = len(fl)
            res['evaluations'] += len(fl)
            for k, x in enumerate(fl):
                m = sigv(model(x))
                got = (sigv(shadow.cast(tobj, x)), sigv(r_int[k]), sigv(r_cmp[k]))
                if not (got[0] == got[1] == got[2] == m):
                    wrong = [w for w, v in zip(('shadow', 'shadow-via-module', 'compiled'), got) if v != m]
                    record('cast:%s:differs=%s' % (fn, '+'.join(wrong)),
                           {'fn': fn, 'x': repr(x), 'model': m, 'shadow': got[0], 'shadow_via_module': got[1],
                            'compiled': got[2]})
                else:
                    res['distinct_classes']['cast:' + fn] = res['distinct_classes'].get('cast:' + fn, 0) + 1
    with open(spec['out'], 'w') as f:
        json.dump(res, f)
    return 0


if __name__ == '__main__':
    rc = main()
    sys.stdout.flush()
    os._exit(rc)
