"""C43 input families other than the pysyntax generator: literal/structure stress programs, mutated and truncated
texts, directed programs (one per deliberate-reject entry and per crash mechanism reported by other checks),
corpus files.  Every input is bytes; validity is decided by the caller with CPython's compile()."""
import io
import os
import sysconfig
import tokenize

from vlib import core


# ----------------------------------------------------------------------------------------------- literal stress

def literal_programs(rng, count):
    """-> list of (category, text or bytes)"""
    P = []

    def add(cat, text):
        P.append((cat, text))

    # ---- numbers
    for nd in (1, 17, 100, 4300, 4301, 100000):
        add('int-dec-%d-digits' % nd, 'x = %s\n' % ('7' * nd))
    for nd in (100, 20000, 100000):
        add('int-hex-%d-digits' % nd, 'x = 0x%s\ny = -0x%s\n' % ('f' * nd, 'a' * nd))
        add('int-bin-%d-digits' % nd, 'x = 0b%s\n' % ('10' * (nd // 2)))
        add('int-oct-%d-digits' % nd, 'x = 0o%s\n' % ('7' * nd))
    add('int-forms', 'a = [0, 00, 0_0, 1_000_000, 0x_ff, 0XFF, 0b1_0, 0B11, 0o7_7, 0O17, 10**2, -0, +0, ~0, 0xdeadbeefcafebabe]\n')
    add('int-boundaries', 'a = [%s]\n' % ', '.join(str(v) for b in (15, 30, 31, 32, 62, 63, 64, 127, 128) for v in (2 ** b - 1, 2 ** b, -(2 ** b), 2 ** b + 1)))
    add('float-forms', 'a = [1., .5, 0e0, 1E5, 1e+5, 1e-5, 1_0.0_1e+1_0, 0.0, -0.0, 1e308, 1e309, 1e-323, 1e-324, 1e400, 1e-400, 4.9e-324, '
                       '1.7976931348623157e308, 0.1 + 0.2, 00.5, 0_0.0]\n')
    add('float-400-digit-exponent', 'x = 1e%s\ny = 1e-%s\n' % ('9' * 400, '9' * 400))
    add('float-long-mantissa', 'x = 0.%s\ny = %s.5\nz = %se-4290\n' % ('123456789' * 500, '9' * 4000, '1' * 4300))
    add('complex-forms', 'a = [1j, 1J, .5j, 1e3j, 1e400j, 0j, 1_0j, 1.5e-3J, 1 + 2j, -1j, 3.j]\n')
    # ---- strings: every escape form
    add('str-escapes', 'a = ["\\0", "\\01", "\\012", "\\377", "\\x41", "\\u0041", "\\U00000041", "\\N{LATIN SMALL LETTER A}", '
                       '"\\a\\b\\f\\n\\r\\t\\v", "\\\\", "\\\'", "\\"", "line\\\ncontinued", "\\N{GREEK SMALL LETTER ALPHA}", '
                       '"\\ud800", "\\udfff", "\\U0010ffff", "\\uffff", "\\x00", "\\x7f\\x80\\xff", "\\N{DIGIT ONE}\\N{BLACK STAR}"]\n')
    add('bytes-escapes', 'a = [b"\\0", b"\\01", b"\\012", b"\\377", b"\\x41", b"\\xff\\x00", b"\\a\\b\\f\\n\\r\\t\\v", b"\\\\", '
                         'b"\\\'", b"\\"", b"line\\\ncontinued", b"\\N{x}", b"\\u0041", rb"\\x41", Rb"\\", bR"\\n", BR"\\0"]\n')
    add('str-invalid-escapes', 'a = ["\\d", "\\ ", "\\8", "\\400", b"\\400", "\\q\\w\\e"]\n')
    add('str-bad-N-escape', 'a = "\\N{NO SUCH CHARACTER NAME}"\n')
    add('str-truncated-x-escape', 'a = "\\x4"\n')
    add('str-truncated-u-escape', 'a = "\\u123"\n')
    add('str-bad-U-escape', 'a = "\\U00110000"\n')
    add('bytes-nonascii', 'a = b"é"\n')
    add('str-prefixes', "a = [r'\\d', R'\\d', u'x', U'x', b'x', B'x', br'\\d', rb'\\d', Br'\\d', rB'\\d', f'{1}', F'{1}', fr'{1}\\d', "
                        "rf'{1}\\d', Rf'{1}', fR'{1}', '''triple'\"''', \"\"\"tri\"'\nple\"\"\", r'''raw\ntriple\\''']\n")
    add('str-implicit-concat', "x = 1\na = ('a' \"b\" r'c\\d' u'e' f'{x}' '''f''' \"\"\"g\"\"\"\n     'h'  # comment\n     'i')\nb = (b'a' br'\\d' B\"c\")\n")
    add('str-mixed-bytes-concat', "a = 'a' b'b'\n")
    add('fstring-nesting', "x, w, d = 1, 10, {'k': 'v'}\na = [f\"{x!r:>{w}}\", f\"{f'{x}'}\", f\"{x=}\", f\"{x = !r:^{w}.{3}}\", f'{{}}', f'{{{x}}}', "
                           "f\"{d['k']}\", f'''{\nx\n}''', f\"{x:{'>'}{w}}\", f'{x!s}{x!a}', f\"{'a' 'b'}\", f'{x:%Y}', f'{lambda: 1}' if 0 else f'{(lambda: 1)()}', "
                           "f'{x,}', f'{*[x],}', f'{x:{w}.{w}}', f'{(yield_ := 5)}', f\"{'{'}\", f'{x!r:}', f'{x:}' ]\n")
    add('fstring-pep701', 'x, d = 1, {"k": "v"}\na = [f"{d["k"]}", f"{"a" + "b"}", f"{f"{f"{x}"}"}", f"{x # comment\n}", f"{\'\\n\'.join([\'a\'])}", f"{"\\N{BLACK STAR}"}"]\n')
    add('fstring-deep-nesting', "x = 1\na = f'{f\"{f\'\'\'{f\"\"\"{x}\"\"\"}\'\'\'}\"}'\n")
    add('fstring-errors', "a = f'{}'\n")
    add('fstring-unterminated', "a = f'{x'\n")
    add('fstring-backslash-spec', "x = 1\na = f'{x:\\n>10}'\nb = f'{x:{chr(10)}>4}'\n")
    for n in (10 ** 3, 10 ** 5, 10 ** 6):
        add('str-%d-chars' % n, 'a = "%s"\nb = b"%s"\nc = """%s"""\n' % ('x' * n, 'y' * n, 'z\n' * (n // 2)))
    add('str-100k-nonascii', 'a = "%s"\n' % ('é日😀' * 33000))
    add('str-many-distinct', '\n'.join('s%d = "string constant number %d"' % (i, i) for i in range(3000)) + '\n')
    add('unicode-identifiers', 'é = 1\nπ = 3.14\n名前 = "x"\n𝐱 = 2\nℌ = 3\nªº = 1\nx = é + π + 𝐱 + ℌ\nclass Ünï: pass\ndef ƒ(ß, *, ñ=1): return ß + ñ\n')
    add('identifier-nfkc', 'ﬁ = 1\nprint(fi)\n')
    add('keywords-soft', 'match = 1\ncase = 2\ntype = 3\n_ = 4\nprint(match + case + type + _)\nmatch match:\n    case case: pass\n')
    # ---- nesting depth
    for n in (10, 50, 90, 99, 150, 199, 250):
        add('paren-depth-%d' % n, 'x = %s1%s\n' % ('(' * n, ')' * n))
        add('list-depth-%d' % n, 'x = %s%s\n' % ('[' * n, ']' * n))
        add('call-depth-%d' % n, 'def f(x=0): return x\ny = %s0%s\n' % ('f(' * n, ')' * n))
        add('subscript-depth-%d' % n, 'x = {}\ny = x%s\n' % ('[0]' * n))
        add('lambda-depth-%d' % n, 'f = %s0\n' % ('lambda: ' * n))
        add('unary-depth-%d' % n, 'x = 1\ny = %sx\nz = %sx\n' % ('not ' * n, '-' * n))
    for n in (5, 20, 50, 99, 101):
        body = ''
        for i in range(n):
            body += '    ' * i + 'if x:\n'
        body += '    ' * n + 'pass\n'
        add('indent-depth-%d' % n, 'x = 1\n' + body)
    for n in (5, 18, 21, 40):
        body = ''
        for i in range(n):
            body += '    ' * i + 'def f%d():\n' % i
        body += '    ' * n + 'return 1\n'
        add('def-depth-%d' % n, body)
        body = ''
        for i in range(n):
            body += '    ' * i + 'class C%d:\n' % i
        body += '    ' * n + 'x = 1\n'
        add('class-depth-%d' % n, body)
        body = ''
        for i in range(n):
            body += '    ' * i + 'for i%d in range(2):\n' % i
        body += '    ' * n + 'pass\n'
        add('for-depth-%d' % n, body)
        body = ''
        for i in range(n):
            body += '    ' * i + 'try:\n'
        body += '    ' * n + 'pass\n'
        for i in reversed(range(n)):
            body += '    ' * i + 'finally:\n' + '    ' * (i + 1) + 'pass\n'
        add('try-depth-%d' % n, body)
        body = ''
        for i in range(n):
            body += '    ' * i + 'with open("f%d") as w%d:\n' % (i, i)
        body += '    ' * n + 'pass\n'
        add('with-depth-%d' % n, body)
    for n in (10, 20, 30):
        add('comprehension-depth-%d' % n, 'x = %s 0 %s\n' % ('[' * n, ''.join(' for i%d in range(2)]' % i for i in range(n))))
    for n in (100, 1000, 5000, 20000):
        add('binop-chain-%d' % n, 'x = 1\ny = %s\n' % ' + '.join(['x'] * n))
        add('boolop-chain-%d' % n, 'x = 1\ny = %s\n' % ' and '.join(['x'] * n))
        add('compare-chain-%d' % n, 'x = 1\ny = %s\n' % ' < '.join(['x'] * n))
        add('attr-chain-%d' % n, 'x = 1\ny = x%s\n' % ('.a' * n))
        add('str-concat-chain-%d' % n, 'y = %s\n' % ' + '.join(['"ab"'] * n))
        add('elif-chain-%d' % n, 'x = 1\nif x == 0:\n    pass\n' + ''.join('elif x == %d:\n    pass\n' % i for i in range(1, n)))
        add('assign-chain-%d' % n, ' = '.join('a%d' % i for i in range(n)) + ' = 1\n')
        add('statements-%d' % n, ''.join('a%d = %d\n' % (i % 50, i) for i in range(n)))
    # ---- big displays and argument lists
    for n in (255, 256, 1000, 10000):
        add('list-display-%d' % n, 'a = [%s]\n' % ', '.join(str(i) for i in range(n)))
        add('tuple-display-%d' % n, 'a = (%s,)\n' % ', '.join(repr(str(i)) for i in range(n)))
        add('set-display-%d' % n, 'a = {%s}\n' % ', '.join(str(i) for i in range(n)))
        add('dict-display-%d' % n, 'a = {%s}\n' % ', '.join('"k%d": %d' % (i, i) for i in range(n)))
        add('call-args-%d' % n, 'def f(*a, **k): return a\nx = f(%s)\ny = f(%s)\n' % (', '.join(str(i) for i in range(n)),
                                                                                 ', '.join('k%d=%d' % (i, i) for i in range(n))))
        add('def-params-%d' % n, 'def f(%s): return a0\n' % ', '.join('a%d' % i for i in range(n)))
        add('def-defaults-%d' % n, 'def f(%s): return a0\n' % ', '.join('a%d=%d' % (i, i) for i in range(n)))
        add('unpack-targets-%d' % n, '%s = range(%d)\n' % (', '.join('a%d' % i for i in range(n)), n))
        add('star-args-%d' % n, 'def f(*a): return a\nx = f(%s)\n' % ', '.join('*[%d]' % i for i in range(n)))
        add('global-names-%d' % n, 'def f():\n    global %s\n    a0 = 1\n' % ', '.join('a%d' % i for i in range(n)))
        add('import-names-%d' % n, 'from os import (%s)\n' % ', '.join('path as p%d' % i for i in range(n)))
        add('decorators-%d' % n, 'def d(f): return f\n' + '@d\n' * min(n, 1000) + 'def f(): pass\n')
    add('class-1000-methods', 'class C:\n' + ''.join('    def m%d(self, x=%d): return x\n' % (i, i) for i in range(1000)))
    add('match-many-cases', 'def f(x):\n    match x:\n' + ''.join('        case %d: return %d\n' % (i, i) for i in range(1000)) + '        case _: return -1\n')
    add('def-in-match-case', 'def f(x):\n    match x:\n        case 1:\n            def g(): return x\n            return g\n        case [a, *b] if a:\n'
                             '            class K:\n                y = a\n            return K, b\n        case _:\n            return lambda: x\n')
    # ---- layout and encoding
    add('layout-semicolons', 'x = 1; y = 2;\nif x: pass; z = 3\nwhile 0: break\nclass C: pass\ndef f(): return 1;\n')
    add('layout-continuations', 'x = 1 + \\\n    2 + \\\n3\nif x and \\\n   x:\n    pass\ny = (1,\n\n\n  # comment\n 2)\n')
    add('layout-formfeed-tabs', 'x = 1\n\x0c\ny = 2\nif x:\n\tz = 1\n\tw = 2\n')
    add('layout-tabs-spaces-mixed-consistent', 'if 1:\n\tif 2:\n\t    x = 1\n')
    add('layout-tabs-spaces-inconsistent', 'if 1:\n        x = 1\n\ty = 2\n')
    add('layout-crlf', b'x = 1\r\nif x:\r\n    y = 2\r\n')
    add('layout-cr-only', b'x = 1\rif x:\r    y = 2\r')
    add('layout-no-trailing-newline', 'x = 1\nif x:\n    y = 2')
    add('layout-trailing-backslash', 'x = 1\\')
    add('layout-empty', '')
    add('layout-only-comment', '# nothing\n')
    add('layout-only-newlines', '\n\n\n')
    add('layout-only-whitespace', '   \n\t\n')
    add('layout-dedent-at-eof', 'if 1:\n    if 2:\n        x = 1\n  ')
    add('layout-long-line', 'x = [%s]\n' % ', '.join('1' for _ in range(100000)))
    add('enc-bom', b'\xef\xbb\xbfx = "\xc3\xa9"\n')
    add('enc-only-bom', b'\xef\xbb\xbf')
    add('enc-cookie-latin1', b'# -*- coding: latin-1 -*-\nx = "\xe9"\n')
    add('enc-cookie-utf8', b'# coding: utf-8\nx = "\xc3\xa9"\n')
    add('enc-cookie-second-line', b'#!/usr/bin/python\n# vim: set fileencoding=iso-8859-15 :\nx = "\xa4"\n')
    add('enc-cookie-unknown', b'# coding: no-such-codec\nx = 1\n')
    add('enc-cookie-bom-mismatch', b'\xef\xbb\xbf# coding: latin-1\nx = 1\n')
    add('enc-invalid-utf8', b'x = "\xff\xfe"\n')
    add('enc-invalid-utf8-comment', b'# \xff\nx = 1\n')
    add('enc-utf16', 'x = 1\n'.encode('utf-16'))
    add('enc-nul-byte', b'x = 1\x00\ny = 2\n')
    add('enc-nul-in-string', b'x = "a\x00b"\n')
    add('enc-nul-in-comment', b'# a\x00b\nx = 1\n')
    add('enc-ctrl-z', b'x = 1\n\x1a')
    add('enc-lone-surrogate-utf8', b'x = "\xed\xa0\x80"\n')
    add('enc-cp1252-cookie', b'# coding: cp1252\nx = "\x80\x9f"\n')
    rng.shuffle(P)
    P.sort(key=lambda p: len(p[1]) > 300000)      # the few huge ones last
    return P[:count] if count < len(P) else P


# ----------------------------------------------------------------------------------------------- mutation

def tokens_of(text):
    try:
        return list(tokenize.generate_tokens(io.StringIO(text).readline))
    except Exception:
        return []


def untok(toks):
    try:
        return tokenize.untokenize([(t.type, t.string) for t in toks])
    except Exception:
        return ''.join(t.string + ' ' for t in toks)


NASTY = ['(', ')', '[', ']', '{', '}', ':', ',', ';', '=', ':=', '->', '...', '.', '*', '**', '@', 'lambda', 'yield', 'await',
         'async', 'def', 'class', 'return', 'else', 'elif', 'except', 'finally', 'in', 'is', 'not', 'import', 'from', 'as',
         'global', 'nonlocal', 'del', 'pass', 'match', 'case', 'cdef', 'cimport', 'ctypedef', '<int>', '&', 'NULL', '?', '$', '!',
         '`', '"', "'", '"""', "f'{", '}}', '\\', '\t', '\n', '    ', '0x', '1e', '0_', '1__0', '0b2', '09', '1.2.3', 'f"{', "b'é'",
         '\x00', '\x0c', '\ufeff', 'é', '\u2028', '1if 1else 2', 'print', 'exec', 'None', 'True', '__debug__', '*=', '<>', '!=',
         '->', '|=', ':=', '//=', '@=', '<<=', '>>>=', '++', '--']


def mutate(rng, text):
    """one mutated variant of a valid program: (operator name, bytes)"""
    op = rng.choice(['del-token', 'dup-token', 'swap-tokens', 'insert-token', 'replace-token', 'truncate-token', 'truncate-byte',
                     'flip-byte', 'del-line', 'dup-line', 'indent-line', 'dedent-line', 'tabs', 'insert-nul', 'insert-bytes',
                     'del-char', 'swap-lines', 'join-lines', 'multi'])
    if op == 'multi':
        t = text
        for _ in range(rng.randrange(2, 6)):
            name, b = mutate(rng, t)
            try:
                t = b.decode('utf-8')
            except UnicodeDecodeError:
                return 'multi', b
        return 'multi', t.encode('utf-8')
    lines = text.split('\n')
    if op in ('del-token', 'dup-token', 'swap-tokens', 'insert-token', 'replace-token', 'truncate-token'):
        toks = tokens_of(text)
        if len(toks) < 4:
            return op, text.encode('utf-8')
        i = rng.randrange(len(toks) - 1)
        if op == 'truncate-token':
            t = toks[i]
            out = '\n'.join(lines[:t.start[0] - 1] + [lines[t.start[0] - 1][:t.start[1]]]) if t.start[0] - 1 < len(lines) else text
            return op, out.encode('utf-8')
        # position-preserving edits on the text using token coordinates

        def span(t):
            return t.start, t.end
        t = toks[i]
        (sl, sc), (el, ec) = span(t)
        if sl != el or sl - 1 >= len(lines):
            return op, untok(toks[:i] + toks[i + 1:]).encode('utf-8')
        line = lines[sl - 1]
        if op == 'del-token':
            line = line[:sc] + line[ec:]
        elif op == 'dup-token':
            line = line[:ec] + ' ' + line[sc:ec] + line[ec:]
        elif op == 'insert-token':
            line = line[:sc] + rng.choice(NASTY) + ' ' + line[sc:]
        elif op == 'replace-token':
            line = line[:sc] + rng.choice(NASTY) + line[ec:]
        else:
            t2 = toks[i + 1]
            if t2.start[0] == sl and t2.end[0] == sl:
                line = line[:sc] + line[t2.start[1]:t2.end[1]] + line[ec:t2.start[1]] + line[sc:ec] + line[t2.end[1]:]
        lines[sl - 1] = line
        return op, '\n'.join(lines).encode('utf-8')
    data = text.encode('utf-8')
    if op == 'truncate-byte':
        return op, data[:rng.randrange(len(data) + 1)]
    if op == 'flip-byte' and data:
        i = rng.randrange(len(data))
        return op, data[:i] + bytes([data[i] ^ (1 << rng.randrange(8))]) + data[i + 1:]
    if op == 'insert-nul' and data:
        i = rng.randrange(len(data))
        return op, data[:i] + b'\x00' + data[i:]
    if op == 'insert-bytes' and data:
        i = rng.randrange(len(data))
        return op, data[:i] + rng.choice([b'\xff', b'\xc3', b'\xef\xbb\xbf', b'\xed\xa0\x80', b'\r', b'\x0c', b'\x1a', b'\\', b'\xe2\x80\xa8']) + data[i:]
    if op == 'del-char' and text:
        i = rng.randrange(len(text))
        return op, (text[:i] + text[i + 1:]).encode('utf-8')
    if not lines:
        return op, data
    i = rng.randrange(len(lines))
    if op == 'del-line':
        del lines[i]
    elif op == 'dup-line':
        lines.insert(i, lines[i])
    elif op == 'indent-line':
        lines[i] = rng.choice(['    ', ' ', '\t', '        ']) + lines[i]
    elif op == 'dedent-line':
        lines[i] = lines[i][rng.randrange(1, 5):]
    elif op == 'tabs':
        lines[i] = lines[i].replace('    ', '\t', rng.randrange(1, 3))
    elif op == 'swap-lines' and len(lines) > 1:
        j = rng.randrange(len(lines))
        lines[i], lines[j] = lines[j], lines[i]
    elif op == 'join-lines' and i + 1 < len(lines):
        lines[i] = lines[i] + ' ' + lines.pop(i + 1).lstrip()
    return op, '\n'.join(lines).encode('utf-8')


def truncations(text, every=1):
    """the text cut at every token boundary"""
    out = []
    lines = text.split('\n')
    for k, t in enumerate(tokens_of(text)):
        if k % every:
            continue
        l, c = t.start
        if l - 1 < len(lines):
            out.append('\n'.join(lines[:l - 1] + [lines[l - 1][:c]]))
    return out


# ----------------------------------------------------------------------------------------------- directed programs

DIRECTED = [
    # deliberate rejects (each entry of deliberate_rejects.json must be reached by one of these)
    ('deliberate:undeclared-name', 'def f():\n    return _this_name_is_defined_nowhere_\n'),
    ('deliberate:undeclared-name-module', 'x = _this_name_is_defined_nowhere_\n'),
    ('deliberate:unbound-local', 'def f():\n    y = x + 1\n    x = 1\n    return y\n'),
    ('deliberate:unbound-local-del', 'def f():\n    x = 1\n    del x\n    return x\n'),
    ('deliberate:del-closure-var', 'def outer(a):\n    def inner():\n        return a\n    del a\n    return inner\n'),
    ('deliberate:unpack-too-many', 'def f():\n    a, b = [1, 2, 3]\n    return a, b\n'),
    ('deliberate:unpack-too-few', 'def f():\n    a, b = [1]\n    return a, b\n'),
    ('deliberate:unpack-star-too-few', 'def f(x):\n    a, *b, c = (x,)\n    return a, b, c\n'),
    # mechanisms reported by other checks / found by the generator (valid Python)
    ('directed:kwargs-dict-display-nonconst-key', "def f(**k): return k\ndef g(): return 'a'\ndef cs(): return f(**{g(): 1})\n"),
    ('directed:starred-display-in-starred-unpack', 'def f(x, y, z):\n    a, *b, c = [*x, y, *z]\n    return a, b, c\n'),
    ('directed:invert-float-literal', 'def f():\n    return ~0.1\n'),
    ('directed:lambda-default-in-augassign-index', 'def f(a):\n    a[(lambda x=1: x)()] *= 2\n'),
    ('directed:float-rshift-in-tuple-assign', 'def fz(a2):\n    v5, v6 = ((-1e10) >> 3), 1\n    for v7 in range(v5 & 7):\n        pass\n'),
    ('directed:double-minus', 'def f(x):\n    return --x, ++x, - -x, -+-x\n'),
    ('directed:str-minus-int', "def f():\n    return 'a' - 1\n"),
    ('directed:none-call', 'def f():\n    return None()\n'),
    ('directed:int-attribute', 'def f():\n    x = 1\n    return x.foo, (1).real, 1.0.hex()\n'),
    ('directed:pep695-type-alias', 'type X = int\n'),
    ('directed:pep695-generic-def', 'def f[T](x: T) -> T:\n    return x\n'),
    ('directed:pep695-generic-class', 'class C[T]:\n    pass\n'),
    ('directed:except-star', 'def f():\n    try:\n        pass\n    except* ValueError as e:\n        return e\n'),
    ('directed:annotation-str-mismatch', "def f():\n    x: int = 'a'\n    return x\n"),
    ('directed:print-as-name', 'print = 1\nexec = 2\n'),
    ('directed:walrus-comprehension', 'def f(y):\n    return [z for x in y if (z := x)], z\n'),
    ('directed:return-in-finally', 'def f():\n    for i in range(3):\n        try:\n            continue\n        finally:\n            break\n'),
    ('directed:positional-only', 'def f(a, /, b, *, c): return a, b, c\nx = f(1, 2, c=3)\n'),
    ('directed:nonlocal-class', 'def f():\n    x = 1\n    class C:\n        nonlocal x\n        x = 2\n    return x\n'),
    ('directed:class-scope-comprehension', 'class C:\n    a = [1, 2]\n    b = [x for x in a]\n'),
    ('directed:global-at-module', 'global x\nx = 1\n'),
    ('directed:star-expr-index', 'def f(a, b):\n    return a[*b], a[1, *b]\n'),
    ('directed:dict-unpack-call-order', 'def f(*a, **k): return a, k\nx = f(1, *[2], 3, *[4], k=5, **{"j": 6}, l=7)\n'),
    ('directed:async-comprehension', 'async def f(ai):\n    return [x async for x in ai], {x: await x async for x in ai}\n'),
    ('directed:await-in-lambda-default', 'async def f(x):\n    g = lambda y=await x: y\n    return g\n'),
    ('directed:yield-in-class-base', 'def f():\n    class C((yield)):\n        pass\n    return C\n'),
    ('directed:debug-assign', 'x = __debug__\n'),
    ('directed:chained-compare-in', 'def f(a, b, c):\n    return a in b in c, a is not b not in c, 1 < a <= b != c\n'),
]


# ----------------------------------------------------------------------------------------------- corpus

def stdlib_files(limit=None):
    root = sysconfig.get_paths()['stdlib']
    out = []
    for dp, dn, fns in os.walk(root):
        dn[:] = [d for d in sorted(dn) if d not in ('test', 'tests', 'idle_test', 'site-packages', '__pycache__', 'lib2to3',
                                                    'config-3.12-x86_64-linux-gnu', 'tkinter', 'idlelib', 'turtledemo')]
        for fn in sorted(fns):
            if fn.endswith('.py'):
                out.append(os.path.join(dp, fn))
    return out[:limit] if limit else out


def tests_run_py():
    d = os.path.join(core.REPO, 'tests', 'run')
    return [os.path.join(d, fn) for fn in sorted(os.listdir(d)) if fn.endswith('.py')]
