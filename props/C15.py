"""C15 Indexing and slicing of builtin sequences match CPython (DESIGN.md section 5, C15).

Workload: generated .pyx functions `s[i]`, `s[i] = v`, `del s[i]`, `s[a:b]`, `s[a:b:c]`, `s[a:b] = t`, `del s[a:b]`
with `s` typed list/tuple/str/bytes/bytearray/untyped and indices typed as constants, C integer types, objects.
Oracle: the same function bodies without C types, executed by CPython in the same process on separately built inputs;
result signature, exception type and the arguments after the call (mutated container) must agree.
Default directives only (boundscheck/wraparound on); C-typed indices only receive values their type can hold."""
import re

from vlib import creach, cy, diff

BASES = ['list', 'tuple', 'str', 'bytes', 'bytearray', 'object']
MUTABLE = ['list', 'bytearray', 'object']
CTYPES = {
    'char': (-2 ** 7, 2 ** 7 - 1), 'short': (-2 ** 15, 2 ** 15 - 1), 'int': (-2 ** 31, 2 ** 31 - 1),
    'long': (-2 ** 63, 2 ** 63 - 1), 'long long': (-2 ** 63, 2 ** 63 - 1), 'Py_ssize_t': (-2 ** 63, 2 ** 63 - 1),
    'unsigned char': (0, 2 ** 8 - 1), 'unsigned short': (0, 2 ** 16 - 1), 'unsigned int': (0, 2 ** 32 - 1),
    'unsigned long': (0, 2 ** 64 - 1), 'unsigned long long': (0, 2 ** 64 - 1), 'size_t': (0, 2 ** 64 - 1),
}
ANCHOR = re.compile(r'__Pyx_(GetItemInt\w*|SetItemInt\w*|DelItemInt\w*|PyObject_GetSlice|PyObject_SetSlice|'
                    r'PyObject_DelSlice|PyUnicode_Substring|PyList_GetSlice|PyTuple_GetSlice|PyObject_GetItem|'
                    r'PyList_GET_ITEM|PyTuple_GET_ITEM|PyByteArray_AsString)|PySequence_GetSlice|PyObject_SetItem|'
                    r'PyObject_DelItem|PySlice_New|__pyx_slice')


# ----------------------------------------------------------------------------------------------- inputs

def seq_expr(base, n, variant=0):
    """expression text (evaluated in the driver env) of a fresh sequence of length n"""
    if base == 'list':
        return '[%s]' % ', '.join(str(10 + i) for i in range(n))
    if base == 'tuple':
        return '(%s)' % ''.join('%d, ' % (10 + i) for i in range(n))
    if base == 'str':
        alpha = ['abcdefgh', 'ab\xe9d\xfffgh', 'a€cĀe￿gh', 'a\U0001F600c\U00010000e€g\xe9'][variant % 4]
        return repr(alpha[:n])
    if base == 'bytes':
        return repr(bytes(range(65, 65 + n)))
    if base == 'bytearray':
        return 'bytearray(%r)' % bytes(range(65, 65 + n))
    raise ValueError(base)


def base_values(ck, base, lengths, mutable_only=False, item_op=False, few_kinds=False):
    """argument expressions for the sequence parameter. None is passed to typed parameters except for integer
    indexing of str/bytes/bytearray-typed ones: with the default `nonecheck=False` that access is documented as
    unchecked (it reads through the None object), so it is outside the statement (reported to C36 separately)."""
    out = []
    if base == 'object':
        kinds = MUTABLE[:2] if mutable_only else ['list', 'tuple', 'str', 'bytes', 'bytearray']
        for k in kinds:
            for n in (lengths if not (ck.quick or few_kinds) else [0, 3, 8]):
                out.append(seq_expr(k, n))
        if mutable_only:
            out += ['(10, 11, 12)', "'abc'", "b'abc'"]          # immutable: TypeError expected
        out += ['L([10, 11, 12])', 'T((10, 11, 12))', "S('abc')", 'None', '{0: 1, -1: 2}', 'Obj(1)', 'LGet([10, 11, 12])',
                'SeqLog(4)']
        if not ck.quick:
            out += ["B(b'abc')", 'range(5)', "memoryview(b'abcd')", '{}', 'L([])', 'T(())']
        return out
    for n in lengths:
        out.append(seq_expr(base, n))
    if base == 'str':
        for v in ((1, 2, 3) if not ck.quick else (1, 3)):
            for n in (lengths if not (ck.quick or few_kinds) else [2, 8]):
                if n:
                    out.append(seq_expr(base, n, v))
    if not (item_op and base in ('str', 'bytes', 'bytearray')):
        out.append('None')
    return out


SETUP = '''
class SeqLog:
    """sequence-like object that reports the key it receives"""
    def __init__(self, n): self.n = n; self.ops = []
    def __len__(self): return self.n
    def _k(self, k):
        return ('slice', k.start, k.stop, k.step) if isinstance(k, slice) else k
    def __getitem__(self, k): return ('get', self._k(k))
    def __setitem__(self, k, v): self.ops.append(('set', self._k(k), v))
    def __delitem__(self, k): self.ops.append(('del', self._k(k)))
    def __vsig__(self): return ('SeqLog', self.n, self.ops)
'''


def int_values(ck, lo=None, hi=None):
    vals = set(range(-10, 11))
    vals.update([2 ** 7 - 1, 2 ** 7, -2 ** 7, 2 ** 8 - 1, 2 ** 8, 2 ** 15 - 1, -2 ** 15, 2 ** 16 - 1, 2 ** 31 - 1,
                 2 ** 31, -2 ** 31, -2 ** 31 - 1, 2 ** 32 - 1, 2 ** 32, 2 ** 63 - 1, -2 ** 63, 2 ** 64 - 1])
    if lo is None:
        vals.update([2 ** 63, -2 ** 63 - 1, 2 ** 64, -2 ** 64, 2 ** 64 + 1, 2 ** 100, -2 ** 100])
        return sorted(vals)
    vals.update([lo, lo + 1, hi, hi - 1])
    return sorted(v for v in vals if lo <= v <= hi)


def object_indices(ck):
    out = [repr(v) for v in int_values(ck)]
    out += ['True', 'False', 'I(2)', 'I(-1)', 'I(2**63)', 'Idx(1)', 'Idx(-2)', 'Idx(2**63)', 'Idx(-2**64)', 'None',
            '1.0', "'a'", 'IdxRaises()', 'IdxBad()', 'IntOnly(1)', '(1,)', 'Ellipsis', 'slice(1, 2)']
    return out


def object_bounds(ck, small):
    out = [repr(v) for v in small] + ['None']
    out += ['2**31', '-2**31 - 1', '2**63 - 1', '-2**63', '2**63', '-2**63 - 1', '2**64', '-2**64', '2**100', '-2**100',
            'True', 'I(2)', 'I(-2**63 - 1)', 'Idx(1)', 'Idx(-2)', 'Idx(2**63)', 'Idx(-2**64)', '1.5', "'a'",
            'IdxRaises()', 'IdxBad()', 'IntOnly(1)']
    return out


# ----------------------------------------------------------------------------------------------- functions

class Fn:
    __slots__ = ('name', 'op', 'base', 'kind', 'pyx', 'ref', 'cases', 'form')

    def __init__(self, **kw):
        for k, v in kw.items():
            setattr(self, k, v)


def decl(base):
    return 's' if base == 'object' else base + ' s'


def gen(ck):
    """list of Fn"""
    fns = []
    quick = ck.quick
    lengths = [0, 1, 2, 3, 8] if quick else list(range(9))
    rng = ck.rng('c15')
    n = [0]

    def new(op, base, kind, params_pyx, params_ref, body, form=''):
        name = 'fz%dz' % n[0]
        n[0] += 1
        f = Fn(name=name, op=op, base=base, kind=kind, form=form, cases=[],
               pyx='def %s(%s):\n%s' % (name, params_pyx, body), ref='def %s(%s):\n%s' % (name, params_ref, body))
        fns.append(f)
        return f

    def tag(f):
        return '%s/%s/%s%s' % (f.op, f.base, f.kind, ('/' + f.form) if f.form else '')

    def add_cases(f, arglists):
        t = tag(f)
        for a in arglists:
            f.cases.append({'f': f.name, 'a': '(%s,)' % ', '.join(a), 't': t})

    setvals = {'list': ['99', "'x'"], 'bytearray': ['66', '256', '-1', "'x'", 'I(67)', 'Idx(68)'],
               'object': ['66', "'x'"]}
    item_ops = [('get', '    return s[i]\n', BASES, None),
                ('set', '    s[i] = v\n    return s\n', MUTABLE, setvals),
                ('del', '    del s[i]\n    return s\n', MUTABLE, None)]
    # ---- item access, C-typed and object indices
    ctypes = list(CTYPES) if not quick else ['char', 'int', 'long', 'Py_ssize_t', 'unsigned char', 'unsigned int',
                                              'unsigned long long', 'size_t', 'short', 'long long']
    for op, body, bases, vals in item_ops:
        for base in bases:
            svals = base_values(ck, base, lengths, mutable_only=(op != 'get'), item_op=True)
            extra_pyx = ', v' if op == 'set' else ''
            for ct in ctypes:
                lo, hi = CTYPES[ct]
                f = new(op, base, ct, '%s, %s i%s' % (decl(base), ct, extra_pyx), 's, i' + extra_pyx, body)
                ivals = int_values(ck, lo, hi)
                for sv in svals:
                    for iv in ivals:
                        if op == 'set':
                            vs = vals[base] if abs(iv) <= 3 else vals[base][:1]
                            add_cases(f, [[sv, repr(iv), v] for v in vs])
                        else:
                            add_cases(f, [[sv, repr(iv)]])
            f = new(op, base, 'object', '%s, i%s' % (decl(base), extra_pyx), 's, i' + extra_pyx, body)
            for sv in svals:
                for iv in object_indices(ck):
                    if op == 'set':
                        add_cases(f, [[sv, iv, vals[base][0]]])
                    else:
                        add_cases(f, [[sv, iv]])
            # constants
            consts = [-10, -9, -8, -4, -3, -2, -1, 0, 1, 2, 3, 4, 7, 8, 9, 10] if not quick else [-9, -3, -2, -1, 0, 1, 2, 8]
            consts = consts + [2 ** 31, -2 ** 31 - 1, 2 ** 63 - 1, -2 ** 63, 2 ** 63, -2 ** 64]
            for c in consts:
                b = body.replace('[i]', '[%d]' % c)
                f = new(op, base, 'const', decl(base) + extra_pyx, 's' + extra_pyx, b, form=str(c) if abs(c) < 100 else
                        ('huge' if abs(c) >= 2 ** 63 else 'big'))
                for sv in svals:
                    add_cases(f, [[sv] + ([vals[base][0]] if op == 'set' else [])])
    # ---- two-bound slices
    small = list(range(-10, 11))
    red = [-10, -4, -3, -2, -1, 0, 1, 2, 3, 4, 10]
    slice_forms = [('a:b', ('a', 'b')), ('a:', ('a',)), (':b', ('b',)), (':', ())]
    tvals = {'list': ['[]', '(7,)', '[7, 8, 9]', "'xy'", '5'], 'bytearray': ["b''", "b'xy'", '[1, 2]', '[256]', '5'],
             'object': ['[7, 8]', "b'xy'"]}
    slice_ops = [('sliceget', '    return s[%s]\n', BASES, None),
                 ('sliceset', '    s[%s] = t\n    return s\n', MUTABLE, tvals),
                 ('slicedel', '    del s[%s]\n    return s\n', MUTABLE, None)]
    bound_kinds = ['Py_ssize_t', 'int', 'object', 'size_t'] + ([] if quick else ['long long', 'unsigned int', 'short'])
    for op, body, bases, vals in slice_ops:
        for base in bases:
            svals = base_values(ck, base, lengths, mutable_only=(op != 'sliceget'))
            extra = ', t' if op == 'sliceset' else ''
            for form, names in slice_forms:
                for bk in (bound_kinds if names else ['none']):
                    if bk == 'object' or bk == 'none':
                        pp = ''.join(', ' + x for x in names)
                    else:
                        pp = ''.join(', %s %s' % (bk, x) for x in names)
                    f = new(op, base, bk, decl(base) + pp + extra, 's' + ''.join(', ' + x for x in names) + extra,
                            body % form, form=form)
                    full = (not quick) or (bk == 'object' and base in ('list', 'str', 'object') and op == 'sliceget')
                    red2 = [-10, -9, -4, -3, -2, -1, 0, 1, 2, 3, 4, 8, 9, 10]
                    if bk == 'object':
                        bvals = object_bounds(ck, (small if full else red2) if op == 'sliceget' else red)
                    elif bk == 'none':
                        bvals = []
                    else:
                        lo, hi = CTYPES[bk]
                        bvals = [repr(v) for v in ((small if full else red2) if op == 'sliceget' else red) +
                                 [lo, hi, lo + 1, hi - 1] if lo <= v <= hi]
                    if len(names) == 2:
                        simple = [b for b in bvals if re.match(r'^-?\d+$|^None$', b) and (b == 'None' or abs(int(b)) <= 10)]
                        special = [b for b in bvals if b not in simple]
                        pairs = [(a, b) for a in simple for b in simple]
                        pairs += [(a, b) for a in special for b in ('0', '2', '-1', 'None', '2**63') if b in bvals or b in ('0', '2', '-1')]
                        pairs += [(a, b) for b in special for a in ('0', '1', '-2', 'None', '-2**63') if a in bvals or a in ('0', '1', '-2')]
                        if bk != 'object':
                            # C-typed bounds only receive values their type can hold (conversion errors are C05's)
                            pairs = [(a, b) for a, b in pairs if a in bvals and b in bvals]
                    elif len(names) == 1:
                        pairs = [(a,) for a in bvals]
                    else:
                        pairs = [()]
                    for sv in svals:
                        for pi, p in enumerate(pairs):
                            if op == 'sliceset':
                                tv = vals[base][pi % len(vals[base])] if len(pairs) > 40 else None
                                for t in ([tv] if tv else vals[base]):
                                    add_cases(f, [[sv] + list(p) + [t]])
                            else:
                                add_cases(f, [[sv] + list(p)])
            # constant bounds
            cpairs = [(a, b) for a in ('', '0', '1', '-1', '-3', '2', '10', '-10') for b in ('', '0', '1', '-1', '3', '-2', '10', '-10')]
            if quick:
                cpairs = [p for i, p in enumerate(cpairs) if i % 3 == 0 or '' in p]
            cpairs += [('', '2**63'), ('-2**63 - 1', ''), ('2**64', '2**65'), ('-2**64', '2**64'), ('1', '2**31'),
                       ('-2**31 - 1', '-1'), ('None', '2'), ('1', 'None')]
            for a, b in cpairs:
                f = new(op, base, 'const', decl(base) + extra, 's' + extra, body % ('%s:%s' % (a, b)),
                        form='huge' if '**6' in a + b else 'small')
                for sv in svals:
                    if op == 'sliceset':
                        add_cases(f, [[sv, t] for t in vals[base][:3]])
                    else:
                        add_cases(f, [[sv]])
    # ---- extended slices
    steps = ['None', '1', '-1', '2', '-2', '3', '-3', '0']
    if quick:
        tri_small = [-10, -2, -1, 0, 1, 3, 10]
    else:
        tri_small = list(range(-10, 11))
    tri_vals = [repr(v) for v in tri_small] + ['None']
    for op, body, bases, vals in slice_ops:
        for base in bases:
            svals = base_values(ck, base, lengths if quick else lengths[:6] + [8], mutable_only=(op != 'sliceget'),
                                few_kinds=True)
            extra = ', t' if op == 'sliceset' else ''
            for bk in ['object', 'Py_ssize_t'] + ([] if quick else ['int']):
                pp = ', a, b, c' if bk == 'object' else ', %s a, %s b, %s c' % (bk, bk, bk)
                f = new(op, base, bk, decl(base) + pp + extra, 's, a, b, c' + extra, body % 'a:b:c', form='a:b:c')
                if bk == 'object':
                    tv = tri_vals if op == 'sliceget' or not quick else tri_vals[1::2] + ['None']
                    triples = [(a, b, c) for a in tv for b in tv for c in steps]
                    triples += [(a, '2', c) for a in ('2**63', '-2**63 - 1', 'Idx(1)', 'I(-2)', '1.5') for c in ('None', '-1', '2')]
                    triples += [('0', b, c) for b in ('2**63', '-2**64', 'Idx(3)', "'a'") for c in ('None', '-1', '2')]
                    triples += [('0', '5', c) for c in ('2**63', '-2**63 - 1', 'Idx(2)', 'I(-1)', '1.5', 'True', 'IdxRaises()')]
                else:
                    tv = [v for v in tri_vals if v != 'None']
                    if not quick:       # all triples over [-10, 10] are run with object bounds; C-typed ones are thinned
                        tv = [v for v in tv if abs(int(v)) <= 5 or abs(int(v)) >= 9]
                    if op != 'sliceget' and quick:
                        tv = tv[::2]
                    lo, hi = CTYPES[bk]
                    triples = [(a, b, c) for a in tv for b in tv for c in steps if c != 'None']
                    triples += [(repr(lo), repr(hi), c) for c in ('1', '-1', repr(hi), repr(lo))]
                    triples += [(repr(hi), repr(lo), c) for c in ('1', '-1', repr(hi), repr(lo))]
                if not quick and op != 'sliceget':
                    triples = [t for i, t in enumerate(triples) if i % 3 == rng.randrange(3) or len(triples) < 2000]
                for si, sv in enumerate(svals):
                    for pi, p in enumerate(triples):
                        if op == 'sliceset':
                            add_cases(f, [[sv] + list(p) + [vals[base][(pi + si) % min(3, len(vals[base]))]]])
                        else:
                            add_cases(f, [[sv] + list(p)])
            for form in ('::-1', '::2', '1::2', '::-2', ':-1:3', '-1::-1', '::1', '3:0:-1', '::0'):
                if form == '::0' and base != 'object':
                    continue        # a constant zero step on a typed base is a compile-time matter
                f = new(op, base, 'const', decl(base) + extra, 's' + extra, body % form, form=form)
                for sv in svals:
                    if op == 'sliceset':
                        add_cases(f, [[sv, t] for t in vals[base][:3]])
                    else:
                        add_cases(f, [[sv]])
    return fns


# ----------------------------------------------------------------------------------------------- classification

def _argvals(case):
    from vlib import values
    env = dict(vars(values))
    exec(SETUP, env)
    try:
        return eval(case['a'], env)
    except Exception:
        return ()


def _ix(v):
    if isinstance(v, int):
        return int(v)
    ix = getattr(type(v), '__index__', None)
    if ix is not None:
        try:
            r = v.__index__()
            return r if isinstance(r, int) else None
        except Exception:
            return None
    return None


def classify(f, case, exp, got):
    args = _argvals(case)
    idx = list(args[1:]) if args else []
    if f.op in ('set', 'sliceset') and idx:
        idx = idx[:-1]
    ivs = [_ix(v) for v in idx]
    huge = any(v is not None and (v >= 2 ** 63 or v < -2 ** 63) for v in ivs)
    nonint = any(v is None and x is not None for v, x in zip(ivs, idx))
    viaobj = any(not isinstance(x, int) or type(x) is not int for x in idx if x is not None)
    ek = exp[0] + ':' + (exp[1][0] if exp[0] == 'ok' else exp[1])
    gk = got[0] + ':' + (got[1][0] if got[0] == 'ok' else got[1])
    bt = type(args[0]).__name__ if args else '?'
    slicing = f.op.startswith('slice')
    if f.kind == 'const' and f.form == 'huge':
        huge = True
    if slicing and huge and f.base != 'object' and got[0] == 'exc' and got[1] == 'OverflowError' \
            and not (exp[0] == 'exc' and exp[1] == 'OverflowError'):
        # bound >= 2**63 (or < -2**63) reaches a plain Py_ssize_t conversion instead of the clamping slice protocol
        return 'huge-slice-bound-overflow:%s' % f.base
    if f.op in ('get', 'set', 'del') and f.base == 'object' and f.kind != 'object' and args \
            and type(args[0]) not in (list, tuple, dict, str, bytes, bytearray) \
            and ((ivs and ivs[0] is not None and ivs[0] < 0) or (f.kind == 'const' and f.form.startswith('-'))):
        # C-integer index on an untyped object: the helper adds len() itself and then calls sq_item/sq_ass_item; for heap
        # subclasses of list/tuple that slot calls __getitem__/__setitem__/__delitem__ with the adjusted index, for
        # range/memoryview sq_item wraps negative indices itself - either way an index < -len is wrapped twice (or an
        # overriding hook sees the adjusted index)
        return 'negative-c-index-wrapped-twice:%s' % f.op
    if f.op == 'set' and f.base == 'bytearray' and f.kind != 'object' and args:
        v = args[-1]
        if not (type(v) is int and 0 <= v < 256):
            # typed bytearray + C index: the assigned value is converted to C `unsigned char` by the generic C-integer
            # conversion (before the index is checked) instead of by bytearray's own byte check
            return 'typed-bytearray-setitem-value-as-c-uchar'
    if slicing and f.kind in ('size_t', 'unsigned long', 'unsigned long long') and huge:
        # an unsigned 64-bit C bound above PY_SSIZE_T_MAX is cast to Py_ssize_t (becomes negative) instead of clipped
        return 'unsigned-c-slice-bound-above-ssize_t-max-wraps:%s' % ('typed' if f.base != 'object' else 'untyped')
    if f.op == 'sliceset' and f.base in ('list', 'bytearray') and (f.form == 'a:b:c' or (f.kind == 'const' and
                                                                                           f.form.count(':') == 2)) \
            and args and type(args[-1]).__name__ != f.base and got[0] == 'exc' and got[1] == 'TypeError':
        # `s[a:b:c] = t` on a typed list/bytearray: the assigned value is type-tested against the type of `s`
        return 'extended-slice-assignment-value-must-have-base-type:%s' % f.base
    feat = 'huge' if huge else 'non-index' if nonint else 'index-object' if viaobj else 'plain-int'
    same_outcome = (exp[0] == got[0] == 'ok')
    if same_outcome and exp[1] == got[1]:
        what = 'container-after-call'
    elif same_outcome:
        what = 'value'
    else:
        what = '%s->%s' % (ek, gk)
    return '%s/%s/%s%s:%s:%s:%s' % (f.op, f.base, f.kind, '/' + f.form if f.kind == 'const' else '', feat,
                                    'on-' + bt if f.base == 'object' else 'typed', what)


# ----------------------------------------------------------------------------------------------- main

def main(ck):
    tree = cy.Tree('C15')
    fns = gen(ck)
    per_mod = 200
    chunks = [fns[i:i + per_mod] for i in range(0, len(fns), per_mod)]
    pyx, refs, fmap = {}, {}, {}
    for i, ch in enumerate(chunks):
        name = 'c15m%d' % i
        pyx[name] = '# cython: language_level=3\n' + '\n'.join(f.pyx for f in ch)
        refs[name] = '\n'.join(f.ref for f in ch)
        for f in ch:
            fmap[f.name] = (name, f)
    d, info = tree.build_sources(pyx, subdir='b', ext='.pyx')
    ck.cov['t_build_s'] = round(ck.elapsed(), 1)
    total_n = total_distinct = 0
    samples = []
    hist = {}
    cells = {}
    helpers = {}
    failed = 0
    nontrivial_funcs = set()
    judged_nontrivial = 0
    compare = {'log': False, 'exc_args': False, 'post_args': True}
    for mname, inf in info.items():
        if not inf['ok']:
            failed += 1
            ck.note('build failure %s at %s: %s' % (mname, inf['stage'], inf['errors'][-700:]))
            continue
        refpath = inf['src'] + '.ref.py'
        with open(refpath, 'w', encoding='utf-8') as fh:
            fh.write(refs[mname])
        ctext = open(inf['c'], encoding='utf-8', errors='replace').read()
        mf = [f for f in fns if fmap[f.name][0] == mname]
        bodies = creach.bodies_by_token(ctext, [f.name for f in mf])
        cases = []
        for f in mf:
            hs = set(m.group(0) for m in ANCHOR.finditer(bodies.get(f.name, '')))
            if hs:
                nontrivial_funcs.add(f.name)
            for h in hs:
                helpers[h] = helpers.get(h, 0) + 1
            cases.extend(f.cases)
        res = diff.run_cases(tree, d, mname, cases, ref=refpath, compare=compare, setup=SETUP,
                             tagdir='run_' + mname, timeout=900)
        total_n += res.n
        samples.extend(res.samples[:1])
        for k, v in res.hist.items():
            hist[k] = hist.get(k, 0) + v
            cells[k.split('|')[0]] = cells.get(k.split('|')[0], 0) + v
        total_distinct += res.distinct
        for m in res.mismatches:
            f = fmap[m['case']['f']][1]
            key = classify(f, m['case'], m['exp'], m['got'])
            ck.discrepancy(key, '%s on %s: CPython %s, compiled %s' % (f.pyx.replace('\n', ' | '), m['case']['a'],
                                                                         m['exp'], m['got']),
                           {'module_source': '# cython: language_level=3\n' + f.pyx, 'ext': '.pyx', 'ref_source': f.ref,
                            'case': m['case'], 'cflags': [], 'directives': {}, 'expected': m['exp'],
                            'observed': m['got'], 'compare': compare, 'setup': SETUP})
        for c in res.crashes:
            f = fmap[c['case']['f']][1]
            ck.discrepancy('crash:%s/%s/%s' % (f.op, f.base, f.kind), 'crash/hang %s in %s on %s' % (
                c['kind'], f.pyx, c['case']['a']), {'module_source': '# cython: language_level=3\n' + f.pyx,
                                                    'ext': '.pyx', 'ref_source': f.ref, 'case': c['case'],
                                                    'stderr': c['stderr'], 'compare': compare, 'setup': SETUP})
        for ft in res.fatal:
            ck.inconclusive_if(True, 'driver failed for %s: %s' % (mname, str(ft)[-300:]))
        if not res.fatal:
            lost = {(c['case']['f'], c['case']['a']) for c in res.crashes}
            judged_nontrivial += len({(c['f'], c['a']) for f in mf if f.name in nontrivial_funcs for c in f.cases} - lost)
    # reach: every helper family named by DESIGN R must be present in some judged function
    fam = {'GetItemInt': 0, 'SetItemInt': 0, 'DelItemInt': 0, 'PyObject_GetSlice': 0, 'PyUnicode_Substring': 0,
           'PyObject_SetSlice': 0, 'PyObject_DelSlice': 0, 'GetSlice': 0}
    for h, c in helpers.items():
        for k in fam:
            if k in h:
                fam[k] += c
    for k, c in fam.items():
        ck.inconclusive_if(c == 0, 'no generated function reached helper family %s' % k)
    ops_seen = {k.split('/')[0] for k in cells}
    for op in ('get', 'set', 'del', 'sliceget', 'sliceset', 'slicedel'):
        ck.inconclusive_if(op not in ops_seen, 'operation %s was not observed' % op)
    ck.inconclusive_if(failed > 0, '%d module(s) failed to build' % failed)
    return ck.finish(
        total_n, judged_nontrivial,
        'one function per (operation, base type, index typing[, slice form / constant]); each is called on sequences of '
        'lengths %s (str of kinds 1/2/4, None, and for untyped bases also subclasses/mappings) x index values in '
        '[-10, 10] + C type bounds + +-2**63/2**64 + __index__ objects + non-indices; C-typed parameters only get '
        'values they can hold. distinct_nontrivial = distinct (function, argument tuple) cases of functions whose '
        'generated C body calls an index/slice helper (GetItemInt*/SetItemInt*/DelItemInt*/GetSlice/Substring/...)'
        % ([0, 1, 2, 3, 5, 8] if ck.quick else list(range(9))),
        samples,
        extra={'functions': len(fns), 'functions_reaching_helper': len(nontrivial_funcs), 'modules': len(info),
               'helpers_reached': dict(sorted(helpers.items())), 'helper_families': fam,
               'cells': len(cells), 'cell_counts_top': dict(sorted(cells.items(), key=lambda kv: -kv[1])[:40]),
               'outcome_hist_top': dict(sorted(hist.items(), key=lambda kv: -kv[1])[:40]),
               'outcome_classes': _outcomes(hist)},
        assumptions=['CPython 3.12.1 executing the untyped function bodies is the reference',
                     'exception messages are not compared (type only)',
                     'C-typed index parameters receive only values of their range (conversion is C05)'])


def _outcomes(hist):
    out = {}
    for k, v in hist.items():
        c = k.split('|', 1)[1]
        out[c] = out.get(c, 0) + v
    return out


# ----------------------------------------------------------------------------------------------- replay

def replay(ck, data):
    """rebuild the one typed function of the witness and re-run the one case against its untyped reference body"""
    import os
    w = data.get('witness', data)
    tree = cy.Tree('C15r')
    d, info = tree.build_sources({'replaymod': w['module_source']}, subdir='r', ext='.pyx')
    inf = info['replaymod']
    if not inf['ok']:
        print('build failed at', inf['stage'], inf['errors'][-2000:])
        return 2
    refpath = os.path.join(d, 'replaymod_ref.py')
    with open(refpath, 'w', encoding='utf-8') as fh:
        fh.write(w['ref_source'])
    res = diff.run_cases(tree, d, 'replaymod', [w['case']], ref=refpath, compare=w.get('compare'), setup=SETUP, nproc=1)
    for m in res.mismatches:
        print('expected', m['exp'])
        print('observed', m['got'])
    for c in res.crashes:
        print('crash', c['kind'], c['stderr'][-1500:])
    if res.mismatches or res.crashes:
        print('VIOLATION property=%s replay=<replayed>' % ck.pid)
        return 1
    print('replay: case now agrees with the reference (%d evaluated)' % res.n)
    return 0
