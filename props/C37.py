"""C37 prange gives sequential results and a safe exit on every schedule (DESIGN.md section 5, C37).

Schedule stress: the prange module (vlib/gen/prangegen.py) is translated with the H1 hook enabled
(CYTHON_CYTHON_VERIF=1 -> failpoints between the critical sections of the exit/exception hand-off), built with
gcc -fopenmp and driven over thread counts x schedules x chunk sizes x ranges with seeded per-iteration delays.
Oracles: the sequential loop (pure bodies), the documented outcome set (exits), conservation of tracked
exception/objects, no unraisable output. Thorough adds an ASan build."""
import json
import os
from concurrent.futures import ThreadPoolExecutor

from vlib import core, cy, san
from vlib.gen import prangegen

RANGES = [(0, 0, 1), (3, 3, -1), (0, 1, 1), (0, 3, 1), (0, 17, 1), (5, 40, 3), (20, -3, -1), (30, 0, -7), (-10, 10, 4), (0, 64, 1),
          (0, 33, 2), (7, 8, 5), (40, -20, -3)]
THREADS = [1, 2, 3, 4, 5, 8, 16]


def make_todo(ck, rng, names, n, reps):
    todo = []
    for _ in range(n):
        name, body, sched = rng.choice(names)
        r = rng.choice(RANGES)
        ln = len(range(*r))
        chunk = rng.choice([1, 2, 3, 7, max(1, ln), ln + 1])
        cfg = {'f': name, 'body': body, 'sched': sched, 'range': list(r), 'nt': rng.choice(THREADS), 'chunk': chunk,
               'reps': reps, 'delays': rng.random() < 0.8, 'rt_kind': rng.choice([1, 2, 3])}
        if body in ('raise', 'break', 'ret'):
            cfg['mod'] = rng.choice([2, 3, 5, 7, 1000])
            cfg['rem'] = rng.randrange(min(cfg['mod'], 7))
        if body in ('mix', 'rbreak'):
            cfg['mod'] = rng.choice([4, 5, 6, 9])
        todo.append(cfg)
    return todo


def run_driver(tree, d, mod, todo, seed, tag, extra_env=None, as_gb=6, timeout=2400):
    rd = tree.subdir('run_' + tag)
    out, prog, se = os.path.join(rd, 'out.jsonl'), os.path.join(rd, 'prog'), os.path.join(rd, 'stderr.txt')
    recs = []
    crashes = []
    fatal = []
    start = 0
    while start < len(todo):
        spec = {'builddir': d, 'mod': mod, 'todo': todo, 'start': start, 'seed': seed, 'out': out, 'progress': prog, 'stderr_path': se}
        sf = os.path.join(rd, 'spec.json')
        json.dump(spec, open(sf, 'w'))
        for p in (out, prog):
            if os.path.exists(p):
                os.unlink(p)
        env = {'OMP_WAIT_POLICY': 'passive', 'GOMP_SPINCOUNT': '0', 'OMP_DYNAMIC': 'false', 'OMP_THREAD_LIMIT': '64'}
        env.update(extra_env or {})
        r = core.run([core.PY, '-m', 'props.C37_driver', sf], env=tree.env(d, extra=env), timeout=timeout, as_gb=as_gb)
        done = False
        if os.path.exists(out):
            for ln in open(out).read().splitlines():
                try:
                    rec = json.loads(ln)
                except ValueError:
                    continue
                recs.append(rec)
                done = done or rec.get('type') == 'done'
        if done and r.rc == 0:
            break
        at = None
        try:
            at = int(open(prog).read().strip())
        except Exception:
            pass
        if at is None or at < start:
            fatal.append({'rc': r.rc, 'timed_out': r.timed_out, 'stderr': open(se).read()[-1500:] if os.path.exists(se) else r.err[-1500:]})
            break
        crashes.append({'cfg': todo[at], 'kind': 'HANG' if r.timed_out else 'CRASH rc=%s' % r.rc,
                        'stderr': open(se).read()[-2500:] if os.path.exists(se) else ''})
        start = at + 1
        if len(crashes) > 10:
            break
    stderr_text = open(se, errors='replace').read() if os.path.exists(se) else ''
    return recs, crashes, fatal, stderr_text


def main(ck):
    tree = cy.Tree('C37')
    rng = ck.rng('cfg')
    src, names = prangegen.module_source()
    d = tree.subdir('b')
    p = os.path.join(d, 'c37pr.pyx')
    open(p, 'w').write(src)
    tres, _ = tree.translate([{'src': p}], env_extra={core.HOOK_GUARD: '1'})
    if not tres[0]['ok']:
        ck.inconclusive_if(True, 'prange module failed to translate: %s' % ((tres[0].get('exc') or '') + tres[0].get('errors', ''))[-600:])
        return ck.finish(0, 0, 'prange stress', [])
    ctext = open(tres[0]['c']).read()
    fp_sites = ctext.count('__PYX_VERIF_FAILPOINT(')
    ck.inconclusive_if(fp_sites < 10, 'hook H1 not active: no failpoints in the generated C (guard %s)' % core.HOOK_GUARD)
    b = tree.cbuild(tres[0]['c'], cflags=['-fopenmp'], ldflags=['-fopenmp'], opt='-O1')
    if not b['ok']:
        ck.inconclusive_if(True, 'prange module failed to build: %s' % b['err'][-600:])
        return ck.finish(0, 0, 'prange stress', [])
    builds = [('omp', d, None, 6)]
    if not ck.quick:
        d2 = tree.subdir('basan')
        c2 = os.path.join(d2, 'c37pr.c')
        open(c2, 'w').write(ctext)
        b2 = tree.cbuild(c2, cflags=['-fopenmp'] + san.SAN_CFLAGS, ldflags=['-fopenmp'], opt='-O1')
        if b2['ok']:
            builds.append(('asan', d2, 'asan', 0))
        else:
            ck.note('ASan+OpenMP build failed: %s' % b2['err'][-300:])
    nproc = ck.pick(6, 12)
    ncfg = ck.pick(45, 260)
    reps = ck.pick(12, 40)
    totals = {'calls': 0, 'by_body': {}, 'tidvec': 0, 'fp_hits': [0, 0, 0, 0], 'outcomes': {}, 'threads_seen': set()}
    winners = {}
    samples = []
    tid_examples = []
    asan_reports = {}
    for bname, bdir, kind, as_gb in builds:
        jobs = []
        for pi in range(nproc if kind is None else max(2, nproc // 3)):
            jobs.append((pi, make_todo(ck, rng, names, ncfg if kind is None else ncfg // 3, reps if kind is None else max(4, reps // 3))))

        def one(job):
            pi, todo = job
            env = san.run_env(os.path.join(tree.work, 'asanlogs%d' % pi)) if kind == 'asan' else None
            return run_driver(tree, bdir, 'c37pr', todo, ck.seed * 1000 + pi, '%s%d' % (bname, pi), extra_env=env, as_gb=as_gb)
        with ThreadPoolExecutor(len(jobs)) as ex:
            results = list(ex.map(one, jobs))
        for (pi, todo), (recs, crashes, fatal, stderr_text) in zip(jobs, results):
            for rec in recs:
                if rec['type'] == 'violation':
                    cfg = rec['cfg']
                    key = '%s:%s' % (cfg['body'], rec['what'][:60])
                    ck.discrepancy(key, '%s: %s (cfg %s)' % (cfg['f'], rec['what'], {k: cfg[k] for k in ('range', 'nt', 'chunk', 'sched')}),
                                   {'build': bname, 'record': rec, 'module_source': 'vlib/gen/prangegen.py module_source()',
                                    'driver_seed': ck.seed * 1000 + pi})
                elif rec['type'] == 'fatal':
                    ck.inconclusive_if(True, rec['msg'])
                elif rec['type'] == 'done':
                    totals['calls'] += rec['calls']
                    for k, v in rec['by_body'].items():
                        totals['by_body'][k] = totals['by_body'].get(k, 0) + v
                    totals['tidvec'] += rec['distinct_tid_vectors']
                    for j in range(4):
                        totals['fp_hits'][j] += rec['fp_hits'][j]
                    for k, v in rec['outcome_kinds'].items():
                        totals['outcomes'][k] = totals['outcomes'].get(k, 0) + v
                    totals['threads_seen'].update(rec['threads_seen'])
                    for k, v in rec['winners'].items():
                        winners.setdefault(k, set()).update(v)
                    samples.extend(rec['samples'][:1])
                    tid_examples.extend(rec['tid_vector_examples'][:1])
            for c in crashes:
                ck.discrepancy('crash:%s:%s' % (bname, c['cfg']['body']), 'crash/hang %s in %s' % (c['kind'], c['cfg']),
                               {'build': bname, 'cfg': c['cfg'], 'stderr': c['stderr']})
            for ft in fatal:
                ck.inconclusive_if(True, 'driver failed (%s/%d): %s' % (bname, pi, str(ft)[-300:]))
            if 'Exception ignored' in stderr_text or 'Fatal Python error' in stderr_text:
                i = stderr_text.find('Exception ignored')
                ck.discrepancy('stderr-exception-ignored:%s' % bname, 'interpreter printed "Exception ignored"/fatal error during prange runs',
                               {'build': bname, 'stderr': stderr_text[max(0, i - 200):i + 1200]})
            if kind == 'asan':
                for r in san.parse_logs(os.path.join(tree.work, 'asanlogs%d' % pi)):
                    key = san.dedupe_key(r)
                    asan_reports[key] = asan_reports.get(key, 0) + 1
                    ck.discrepancy(key, '%s report in %s: %s' % (r['tool'], r['func'], r['kind']), {'build': bname, 'report': r['text']})
    racy = {k: sorted(v) for k, v in winners.items()}
    multi = sum(1 for v in racy.values() if len(v) >= 2)
    ck.inconclusive_if(totals['calls'] < ck.pick(2000, 30000), 'fewer prange runs than the floor')
    ck.inconclusive_if(totals['tidvec'] < 20, 'fewer than 20 distinct iteration->thread assignment vectors were seen')
    ck.inconclusive_if(multi < 2, 'the exception/return races never had two distinct winners: the stress did not race')
    ck.inconclusive_if(totals['fp_hits'][1] + totals['fp_hits'][2] + totals['fp_hits'][3] == 0, 'failpoints were never hit')
    return ck.finish(
        totals['calls'], totals['tidvec'] + multi,
        'prange bodies (reductions + - ^ | * on ints and + on exactly representable doubles, lastprivate, disjoint writes, nested '
        'parallel()+prange with gil blocks, objects created under the GIL; exits: raise in a subset of iterations, break, return, '
        'mixtures) x 8 schedule clauses x thread counts 1..16 x chunk sizes x ranges (empty, negative step, fewer iterations than '
        'threads), repeated with seeded per-iteration delays and failpoints in the exit hand-off. distinct = distinct '
        'iteration->thread assignment vectors observed + racy configurations with >= 2 distinct winners',
        samples,
        extra={'runs_by_body': totals['by_body'], 'outcomes': totals['outcomes'], 'distinct_tid_vectors': totals['tidvec'],
               'tid_vector_examples': tid_examples[:5], 'thread_ids_seen': sorted(totals['threads_seen']),
               'failpoint_sites_in_C': fp_sites, 'failpoint_hits_by_site': totals['fp_hits'],
               'racy_configs': len(racy), 'racy_configs_with_2plus_winners': multi,
               'winner_examples': dict(list(racy.items())[:6]), 'builds': [b[0] for b in builds], 'asan_reports': asan_reports},
        assumptions=['no race detector is usable for OpenMP+CPython here (uninstrumented libgomp): data-race freedom is observed '
                     'through results, conservation and ASan under schedule stress',
                     'the exhaustive model of the hand-off protocol named in the property is model checking and out of this '
                     'family; the protocol is stressed, not enumerated',
                     'value of the index variable after break/return/raise and after an empty range is unspecified and not compared'])
