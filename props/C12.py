"""C12 Module string-table compression round-trips (DESIGN.md section 5, C12).

byte strings -> real Cython.LZSS.lzss_compress (interpreted, source mirror) -> the real C decompressor text extracted
at check time from Utility/StringTools.c (section DecompressString_LZSS, through Cython's own UtilityCode.load),
built into a small extension with ASan/UBSan, fed from exact-size heap blocks -> output == input, consumed ==
len(compressed), no sanitizer report; plus an independent pure-Python reference decoder (vlib/ref/lzss_ref.py) on
every stream and, as an icontract postcondition, on every string table compressed during real compilations; plus
end-to-end generated modules whose string tables are decompressed at import under ASan.
"""
import glob
import json
import os
import re
import shutil
import subprocess
from concurrent.futures import ThreadPoolExecutor

from vlib import core, cy, diff

PLUGIN = 'vlib.mon.c12_lzss'
SAN_CFLAGS = ['-g', '-fsanitize=address,undefined', '-fno-omit-frame-pointer', '-fno-sanitize-recover=all']
REAL_FILES_QUICK = ['Utils.py', 'StringIOTree.py', 'Compiler/Errors.py', 'Compiler/Options.py', 'Compiler/Lexicon.py',
                    'Compiler/TreePath.py']
REAL_FILES_THOROUGH = REAL_FILES_QUICK + ['Plex/Machines.py', 'Compiler/StringEncoding.py', 'Compiler/Scanning.py', 'Compiler/Builtin.py', 'Compiler/Pipeline.py',
                                          'Compiler/PyrexTypes.py', 'Compiler/Symtab.py', 'Compiler/Code.py',
                                          'Build/Dependencies.py', 'Compiler/FlowControl.py', 'Compiler/Parsing.py',
                                          'Compiler/TypeSlots.py', 'Compiler/Optimize.py', 'Compiler/Buffer.py']

_asan = None


def asan_lib():
    global _asan
    if _asan is None:
        _asan = subprocess.run(['gcc', '-print-file-name=libasan.so'], capture_output=True, text=True).stdout.strip()
    return _asan


def san_env(logdir):
    return {'LD_PRELOAD': asan_lib(), 'PYTHONMALLOC': 'malloc',
            'ASAN_OPTIONS': 'detect_leaks=0:abort_on_error=1:log_path=%s' % os.path.join(logdir, 'asan'),
            'UBSAN_OPTIONS': 'print_stacktrace=1:halt_on_error=1:log_path=%s' % os.path.join(logdir, 'ubsan')}


def parse_san_text(t):
    """(kind, function) of one ASan/UBSan report text"""
    m = re.search(r'ERROR: AddressSanitizer: ([\w-]+)', t)
    kind = m.group(1) if m else None
    acc = re.search(r'\b(READ|WRITE) of size', t)
    if kind and acc:
        kind += ':' + acc.group(1)
    if not kind:
        m = re.search(r'runtime error: ([^\n]*)', t)
        kind = 'ubsan:' + re.sub(r'[-+]?\d+', 'N', m.group(1))[:60].strip().replace(' ', '-') if m else 'unknown'
    fm = re.search(r'#\d+ 0x[0-9a-f]+ in (\w+)', t)
    fn = fm.group(1) if fm else '?'
    for m2 in re.finditer(r'#\d+ 0x[0-9a-f]+ in (\w+)', t):
        if m2.group(1).startswith(('__pyx', '__Pyx', 'c12_')):
            fn = m2.group(1)
            break
    return kind, fn


def read_san_logs(logdir):
    """[(kind, function, text)] from ASan/UBSan log files; files are removed after reading"""
    out = []
    for p in sorted(glob.glob(os.path.join(logdir, 'asan.*')) + glob.glob(os.path.join(logdir, 'ubsan.*'))):
        try:
            t = open(p, errors='replace').read()
        except OSError:
            continue
        os.unlink(p)
        kind, fn = parse_san_text(t)
        out.append((kind, fn, t[:3000]))
    return out


def build_harness(ck, tree):
    hd = tree.subdir('harness')
    inc = os.path.join(hd, 'c12_lzss_section.inc')
    r = core.run([core.PY, '-m', 'props.C12_worker', 'extract', tree.mirror, inc], env=tree.env(), timeout=300)
    if r.rc != 0 or not os.path.exists(inc):
        ck.inconclusive_if(True, 'cannot extract DecompressString_LZSS from StringTools.c: %s' % (r.err or '')[-400:])
        return None, ''
    text = open(inc).read()
    if '__pyx_lzss_decompress' not in text or '__Pyx_DecompressString_LZSS' not in text:
        ck.inconclusive_if(True, 'extracted utility section lacks the decompressor functions')
        return None, text
    csrc = os.path.join(hd, 'c12_lzss_harness.c')
    shutil.copy(os.path.join(core.VERIF, 'csrc', 'c12_lzss_harness.c'), csrc)
    b = tree.cbuild(csrc, so=os.path.join(hd, 'c12_lzss_harness' + cy.EXT_SUFFIX), cflags=SAN_CFLAGS + ['-I' + hd], opt='-O1')
    if not b['ok']:
        ck.inconclusive_if(True, 'harness around the extracted decompressor does not build: %s' % b['err'][-600:])
        return None, text
    return hd, text


def run_workers(ck, tree, hd, files, nchunks, explicit_hex=(), tier=None, tag='rt'):
    """Run the round-trip workers (compressor + reference decoder in a plain process, the C decompressor in a
    sanitizer child of it). Returns (summaries, problem records, fatals)."""
    wd = tree.subdir(tag)

    def one(ch):
        out = os.path.join(wd, 'out_%d.jsonl' % ch)
        prog = os.path.join(wd, 'prog_%d' % ch)
        sf = os.path.join(wd, 'spec_%d.json' % ch)
        mylog = tree.subdir('sanlogs_%s/%d' % (tag, ch))
        start = [0, 0]
        summaries, problems, fatals = [], [], []
        for _attempt in range(6):
            for p in (out, prog):
                if os.path.exists(p):
                    os.unlink(p)
            core.write_json(sf, {'mirror': tree.mirror, 'harness_dir': hd, 'seed': ck.seed, 'tier': tier or ck.tier,
                                 'chunk': ch, 'nchunks': nchunks, 'start': start, 'out': out, 'progress': prog,
                                 'files': list(files), 'explicit_hex': list(explicit_hex), 'san_env': san_env(mylog),
                                 'san_logdir': mylog})
            r = core.run([core.PY, '-m', 'props.C12_worker', 'run', sf], env=tree.env(), timeout=ck.pick(900, 3600), as_gb=0)
            done = False
            if os.path.exists(out):
                for ln in open(out).read().splitlines():
                    try:
                        rec = json.loads(ln)
                    except ValueError:
                        continue
                    if rec.get('done'):
                        done = True
                        summaries.append(rec['summary'])
                    elif 'fatal' in rec:
                        fatals.append(rec['fatal'])
                    else:
                        problems.append(rec)
            if (done and r.rc == 0) or fatals:
                break
            # the plain (non-sanitizer) parent died or was too slow: not an observation of the property; resume
            at = None
            if os.path.exists(prog):
                try:
                    at = [int(x) for x in open(prog).read().split()]
                except ValueError:
                    at = None
            if not at or len(at) != 2 or not r.timed_out:
                fatals.append('worker %d died rc=%s timed_out=%s: %s' % (ch, r.rc, r.timed_out, (r.err or '')[-600:]))
                break
            start = at
        else:
            fatals.append('worker %d: did not finish within the time budget (machine overloaded?)' % ch)
        return summaries, problems, fatals

    with ThreadPoolExecutor(nchunks) as ex:
        res = list(ex.map(one, range(nchunks)))
    S, P, F = [], [], []
    for a, b, c in res:
        S += a
        P += b
        F += c
    return S, P, F


# ------------------------------------------------------------------------------------------------ end to end
def e2e_module(rng, idx):
    words = ['alpha', 'beta_gamma', 'delta', 'self', 'value', '__init__', 'compile', 'module_name', 'x' * 40, 'naïve', 'ключ',
             '\U0001F600', 'tab\there', 'nul\x00byte', 'quote"\'', 'back\\slash']
    strs, byts = [], []
    for _ in range(rng.randint(120, 260)):
        s = rng.choice(['_', '.', ' ', '']).join(rng.choice(words) for _ in range(rng.randint(1, 6))) + str(rng.randrange(1000))
        strs.append(s)
    for _ in range(rng.randint(60, 120)):
        b = b''.join(rng.choice([b'abc', b'\x00\x01', b'\xff\xfe', b'repeat-repeat', bytes([rng.randrange(256)])]) for _ in range(rng.randint(1, 12)))
        byts.append(b + str(rng.randrange(10 ** 6)).encode())
    src = ('# generated for C12 end-to-end\n'
           'def strs():\n    return [\n' + ''.join('        %r,\n' % s for s in strs) + '    ]\n\n'
           'def byts():\n    return [\n' + ''.join('        %r,\n' % b for b in byts) + '    ]\n')
    return src


def end_to_end(ck, tree, files_dir):
    n = ck.pick(2, 16)
    rng = ck.rng('e2e')
    srcs = {'c12e%d' % i: e2e_module(rng, i) for i in range(n)}
    d, info = tree.build_sources(srcs, subdir='e2e', ext='.py', cflags=SAN_CFLAGS, opt='-O1', plugins=[PLUGIN],
                                 job_extra={})
    stats = {'modules': n, 'built': 0, 'with_lzss_call': 0, 'cases': 0}
    logdir = tree.subdir('sanlogs_e2e')
    for name, inf in info.items():
        if not inf['ok']:
            ck.note('e2e build failure %s: %s' % (name, inf['errors'][-300:]))
            continue
        stats['built'] += 1
        ctext = open(inf['c'], errors='replace').read()
        if re.search(r'#define CYTHON_COMPRESS_STRINGS 90', ctext) and '__Pyx_DecompressString_LZSS(cstring' in ctext:
            stats['with_lzss_call'] += 1
        else:
            continue
        cases = [{'x': 'M.strs()', 't': 'strs'}, {'x': 'M.byts()', 't': 'byts'}]
        res = diff.run_cases(tree, d, name, cases, ref=inf['src'], compare={'log': False}, extra_env=san_env(logdir),
                             tagdir='e2e_' + name, timeout=300, as_gb=0, nproc=1)
        stats['cases'] += res.n
        for m in res.mismatches:
            ck.discrepancy('end-to-end:string-table-differs:' + m['case']['t'],
                           'module %s: %s differs from CPython after the string table was decompressed at import' % (name, m['case']['x']),
                           {'module_source': srcs[name], 'ext': '.py', 'case': m['case'], 'cflags': [], 'directives': {},
                            'expected': str(m['exp'])[:2000], 'observed': str(m['got'])[:2000]})
        for kind, fn, t in read_san_logs(logdir):
            ck.discrepancy('sanitizer:%s:%s' % (kind, fn), 'sanitizer report while importing/running %s' % name,
                           {'module_source': srcs[name], 'ext': '.py', 'case': cases[0], 'cflags': SAN_CFLAGS, 'log': t})
        for c in res.crashes:
            ck.discrepancy('end-to-end:crash', 'module %s crashed: %s' % (name, c['kind']),
                           {'module_source': srcs[name], 'ext': '.py', 'case': c['case'], 'stderr': c['stderr'][-1500:]})
        for f in res.fatal:
            ck.inconclusive_if(True, 'e2e driver failed for %s: %s' % (name, str(f)[-300:]))
    return stats


def compiler_side(ck, tree):
    """real compilations with the compressor contract installed + end-to-end modules; returns (files, mon, e2e)"""
    dump = tree.subdir('tables')
    real = ck.pick(REAL_FILES_QUICK, REAL_FILES_THOROUGH)
    cdir = tree.subdir('real')
    jobs = []
    for rel in real:
        src = os.path.join(tree.mirror, 'Cython', rel)
        if not os.path.exists(src):
            continue
        dst = os.path.join(cdir, 'c12real_' + rel.replace('/', '_'))
        shutil.copy(src, dst)
        jobs.append({'src': dst})
    tres, plug = tree.translate(jobs, plugins=[PLUGIN], plugin_args={PLUGIN: {'dump_dir': dump}})
    mon = {'evals': 0, 'bytes': 0, 'tables': 0}
    for p in plug:
        st = p.get(PLUGIN) or {}
        if 'plugin_error' in st:
            ck.inconclusive_if(True, 'monitor plugin failed: ' + st['plugin_error'][-300:])
            continue
        mon['evals'] += st.get('evals', 0)
        mon['bytes'] += st.get('bytes', 0)
        mon['tables'] += len(st.get('tables', []))
        for v in st.get('violations', []):
            ck.discrepancy('compressor:real-string-table', 'lzss_compress output of a real string table (%d bytes) does not decode '
                           'to its input with the reference decoder' % v['n'], {'kind': 'roundtrip', 'data_hex': v.get('data_hex'), 'n': v['n']})
    files = sorted(glob.glob(os.path.join(dump, '*.bin')))
    e2e = end_to_end(ck, tree, dump)
    for p in tree.last_plugins:
        st = p.get(PLUGIN) or {}
        mon['evals'] += st.get('evals', 0)
        mon['bytes'] += st.get('bytes', 0)
    return files, mon, e2e


def main(ck):
    tree = cy.Tree('C12')
    phase = {}
    hd, section = build_harness(ck, tree)
    phase['harness'] = round(ck.elapsed(), 1)
    if hd is None:
        return ck.finish(0, 0, 'harness not built', [])
    with ThreadPoolExecutor(1) as ex:
        fut = ex.submit(compiler_side, ck, tree)     # runs while the synthetic strings are round-tripped
        S, P, F = run_workers(ck, tree, hd, [], ck.pick(8, core.NCPU))
        phase['roundtrip_workers'] = round(ck.elapsed(), 1)
        files, mon, e2e = fut.result()
        phase['compiler_side'] = round(ck.elapsed(), 1)
    ck.inconclusive_if(mon['evals'] == 0, 'compressor contract never evaluated during real compilations')
    ck.inconclusive_if(not files, 'no real string table was captured')
    ck.inconclusive_if(e2e['with_lzss_call'] == 0, 'no end-to-end module used the LZSS string table')
    # the real string tables through the C decompressor
    S2, P2, F2 = run_workers(ck, tree, hd, files, max(1, min(4, len(files))), tier='replay', tag='rt_tables')
    phase['real_tables'] = round(ck.elapsed(), 1)
    S, P, F = S + S2, P + P2, F + F2
    for f in F:
        ck.inconclusive_if(True, str(f)[-400:])
    tot = {'cases': 0, 'bytes_in': 0, 'bytes_out': 0, 'stats': {}, 'by_kind': {}, 'distinct_with_backref': 0, 'maxsize': 0}
    samples = []
    for s in S:
        for k in ('cases', 'bytes_in', 'bytes_out', 'distinct_with_backref'):
            tot[k] += s[k]
        tot['maxsize'] = max(tot['maxsize'], s['maxsize'])
        for hk in ('stats', 'by_kind'):
            for k, v in s[hk].items():
                tot[hk][k] = tot[hk].get(k, 0) + v
        samples += s['samples'][:1]
    n_reports = 0
    for p in P:
        wit = {'kind': 'roundtrip', 'descriptor': p['desc'], 'sub': p['sub'], 'n': p['n'], 'data_hex': p['data_hex'],
               'compressed_hex': p['comp_hex'], 'expected': 'output == input, consumed == len(compressed), no sanitizer report'}
        for key, txt in p['problem']:
            if key == 'ABORT':
                n_reports += 1
                logs = p.get('logs') or []
                if logs:
                    kind, fn = parse_san_text(logs[0])
                elif p['abort'].get('hang'):
                    kind, fn = 'hang', '__pyx_lzss_decompress'
                else:
                    kind, fn = 'crash-rc%s' % p['abort'].get('died'), '?'
                key = 'sanitizer:%s:%s%s' % (kind, fn, ':empty-input' if p['n'] == 0 else '')
                txt = 'sanitizer child aborted in %s (%s)' % (fn, kind)
                wit = dict(wit, log=(logs[0] if logs else None))
            ck.discrepancy(key, '%s (descriptor %r, %d bytes)' % (txt, p['desc'], p['n']), dict(wit, observed=txt))
    st = tot['stats']
    for form in ('A', 'B', 'C', 'literal'):
        ck.inconclusive_if(st.get(form, 0) < 100, 'encoding %s observed only %d times (< 100)' % (form, st.get(form, 0)))
    ck.inconclusive_if(st.get('window_edge', 0) < 10, 'window-edge matches observed only %d times (< 10)' % st.get('window_edge', 0))
    for b in ('A_gap_7f', 'B_gap_80', 'B_gap_27f', 'C_gap_280', 'C_gap_407f', 'maxlen', 'len3', 'len34_35'):
        ck.inconclusive_if(st.get(b, 0) == 0, 'boundary %s never observed' % b)
    floor = ck.pick(25000, 1200000)
    ck.inconclusive_if(tot['cases'] < floor, 'only %d strings round-tripped (< %d)' % (tot['cases'], floor))
    return ck.finish(
        tot['cases'] + e2e['cases'], tot['distinct_with_backref'],
        'byte strings (exhaustive small alphabets, periodic p=1..300, a block repeated after a gap at every encoding '
        'limit +-3 with match lengths 3/34/35/258/259, random text over alphabets of 1..256 symbols, word text, large '
        'mixed blocks, real string tables of compiled tree sources) compressed by the mirrored Cython.LZSS.lzss_compress '
        'and decompressed by the C text extracted from StringTools.c under ASan/UBSan from exact-size heap blocks; '
        'distinct_nontrivial = strings whose compressed stream contains at least one back reference (per the reference decoder)',
        samples[:4],
        extra={'strings': tot['cases'], 'bytes_in': tot['bytes_in'], 'bytes_compressed': tot['bytes_out'], 'largest_input': tot['maxsize'],
               'token_statistics': st, 'by_generator': tot['by_kind'], 'real_string_tables': len(files),
               'real_compilation_contract': mon, 'end_to_end': e2e, 'sanitizer_reports': n_reports,
               'decompressor_section_bytes': len(section), 'phase_end_s': phase, 'sanitizer_flags': SAN_CFLAGS},
        assumptions=['gcc 12 ASan/UBSan red zones detect accesses outside the exact-size malloc blocks',
                     'the reference decoder in vlib/ref/lzss_ref.py is written from the format description and trusted',
                     'CPython 3.12.1 executing the same source is the reference of the end-to-end modules'])


def replay(ck, data):
    w = data.get('witness', data)
    if w.get('kind') != 'roundtrip':
        from vlib import replay as generic
        return generic.replay_diff(ck, data)
    tree = cy.Tree('C12r')
    hd, _ = build_harness(ck, tree)
    if hd is None:
        print('harness not built')
        return 2
    if not w.get('data_hex') and w.get('n') != 0:
        print('witness has no inline data (large input); descriptor:', w.get('descriptor'))
        return 2
    S, P, F = run_workers(ck, tree, hd, [], 1, explicit_hex=[w.get('data_hex') or ''], tier='replay')
    for p in P:
        print('problem', p['problem'])
        for t in p.get('logs') or []:
            print(t[:1500])
    if P:
        print('VIOLATION property=%s replay=<replayed>' % ck.pid)
        return 1
    print('replay: round trip now exact (%s)' % (F or 'ok'))
    return 0
