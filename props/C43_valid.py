"""CPython validity oracle for C43 inputs, isolated in a subprocess (some stress inputs can overflow CPython's C stack).

python -m props.C43_valid <list.json> <out.jsonl> [start]   ; list.json = [path, ...]; one JSON line per input, flushed."""
import json
import sys
import warnings


def main():
    paths = json.load(open(sys.argv[1]))
    start = int(sys.argv[3]) if len(sys.argv) > 3 else 0
    warnings.simplefilter('ignore')
    with open(sys.argv[2], 'a') as out:
        for i in range(start, len(paths)):
            out.write(json.dumps({'i': i, 'begin': True}) + '\n')
            out.flush()
            try:
                with open(paths[i], 'rb') as f:
                    data = f.read()
                compile(data, paths[i], 'exec', dont_inherit=True)
                r = 'valid'
            except (SyntaxError, ValueError, OverflowError, RecursionError, MemoryError, UnicodeError, LookupError) as e:
                r = 'invalid:%s:%s' % (type(e).__name__, str(e)[:120])
            out.write(json.dumps({'i': i, 'r': r}) + '\n')
            out.flush()
    return 0


if __name__ == '__main__':
    sys.exit(main())
