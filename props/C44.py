"""C44 Tracebacks and code positions point at the right source (DESIGN.md section 5, C44).

(a) LineTable encoder vs CPython's own co_positions() decoder on generated start-sorted position lists
    (props/C44_worker.py, interpreted encoder from the source mirror) and, as an icontract postcondition, on every
    table built during the real compilations of part (b) (vlib/mon/c44_positions.py).
(b) run-time tracebacks of compiled raising functions vs CPython running the same source
    (vlib/gen/c44_raisers.py, props/C44_driver.py), and co_positions()/co_firstlineno/co_filename of every compiled
    function's code object vs the node positions the compiler recorded for it.
"""
import ast
import json
import os
import re
from concurrent.futures import ThreadPoolExecutor

from vlib import core, cy
from vlib.gen import c44_raisers

PLUGIN = 'vlib.mon.c44_positions'
FORMS = ('short', 'oneline0', 'oneline1', 'oneline2', 'long')


# ------------------------------------------------------------------------------------------------ part (a)
def explicit_lists():
    """Directed lists around every form boundary, with and without a multi-line predecessor."""
    out = []
    for d in (0, 1, 2, 3, 4):
        for sc in (0, 7, 8, 78, 79, 80, 81, 126, 127, 128, 129):
            for w in (0, 1, 15, 16, 17, 47, 48):
                out.append(([(10, 10, 0, 1), (10 + d, 10 + d, sc, sc + w)], 10))
                out.append(([(10 + d, 10 + d, sc, sc + w)], 10))
    for span in (1, 2, 3, 63, 64):
        for d in (0, 1, 2, 3, 70):
            out.append(([(1, 1 + span, 0, 5), (1 + span + d, 1 + span + d, 4, 9)], 1))     # starts after the span
            out.append(([(1, 1 + span, 0, 5), (1 + min(d, span), 1 + min(d, span), 4, 9)], 1))   # starts inside the span
            out.append(([(1, 1 + span, 0, 5), (1 + span + d, 1 + span + d + 2, 4, 9), (9 + span + d, 9 + span + d, 1, 2)], 1))
    out.append(([(1, 3, 0, 5), (5, 5, 4, 9)], 1))
    out.append(([], 1))
    return [[[list(p) for p in ps], first] for ps, first in out]


def run_encoder_part(ck, tree):
    n_lists = ck.pick(20000, 2000000)
    nproc = ck.pick(8, core.NCPU)
    d = tree.subdir('enc')
    per = (n_lists + nproc - 1) // nproc

    def one(i):
        sf = os.path.join(d, 'spec_%d.json' % i)
        of = os.path.join(d, 'out_%d.json' % i)
        core.write_json(sf, {'mirror': tree.mirror, 'seed': ck.seed, 'chunk': i, 'n_lists': per, 'max_len': 200,
                             'explicit': explicit_lists() if i == 0 else []})
        r = core.run([core.PY, '-m', 'props.C44_worker', sf, of], env=tree.env(), timeout=ck.pick(300, 1500), as_gb=4)
        if r.rc != 0 or not os.path.exists(of):
            return {'fatal': 'encoder worker %d failed rc=%s timed_out=%s: %s' % (i, r.rc, r.timed_out, (r.err or '')[-600:])}
        return core.read_json(of)

    with ThreadPoolExecutor(nproc) as ex:
        outs = list(ex.map(one, range(nproc)))
    tot = {'lists': 0, 'positions': 0, 'forms': {}, 'spec_forms': {}, 'distinct': 0, 'multiline_lists': 0,
           'lists_by_len': {}, 'encoder_errors': 0, 'keys': {}}
    samples = []
    for o in outs:
        if 'fatal' in o:
            ck.inconclusive_if(True, o['fatal'])
            continue
        for k in ('lists', 'positions', 'distinct', 'multiline_lists', 'encoder_errors'):
            tot[k] += o[k]
        for hk in ('forms', 'spec_forms', 'lists_by_len', 'keys'):
            for k, v in o[hk].items():
                tot[hk][k] = tot[hk].get(k, 0) + v
        samples += o['samples'][:1]
        for key, ws in o['witnesses'].items():
            for w in ws:
                what = ('LineTable.build_line_table(%r, %r): CPython decodes %r%s' % (
                    w['positions'][:6], w['firstlineno'], (w['observed'] or [])[:6],
                    ('; encoder raised ' + w['error']) if w['error'] else ''))[:600]
                for _ in range(max(1, o['keys'].get(key, 1) // max(1, len(ws)))):
                    ck.discrepancy(key, what, dict(w, kind='encoder'))
    return tot, samples


# ------------------------------------------------------------------------------------------------ part (b)
def strip_angle(s):
    return s.replace('<', '').replace('>', '')


def _unnumbered(s):
    """Cython numbers anonymous functions of one scope: lambda, lambda1, lambda2, genexpr, genexpr1..."""
    return re.sub(r'(^|\.)(lambda|genexpr)\d+(?=\.|$)', r'\1\2', s)


def accepted_name(gname, rname, rqual, mod):
    """Does the compiled entry's name denote the CPython entry's function? (DESIGN C44 FA): CPython's name, its
    qualified name, or <module>.<qualname>; Cython spells the qualified name without the '<locals>' components and
    lambda/genexpr without angle brackets (numbered within a scope); module level is 'init <module>' or '<module>'."""
    q2 = rqual.replace('.<locals>', '')
    c = {rname, rqual, q2, mod + '.' + rqual, mod + '.' + q2}
    c |= {strip_angle(x) for x in c}
    if rname == '<module>':
        c |= {mod, 'init ' + mod, 'init_' + mod}
    return gname in c or _unnumbered(gname) in c


SYNTHETIC = ('<genexpr>', '<listcomp>', '<setcomp>', '<dictcomp>')


def is_synth_ref(e):
    return e[1] in SYNTHETIC


def is_synth_got(e):
    n = _unnumbered(e[1].rsplit('.', 1)[-1])
    return n in ('genexpr', 'listcomp', 'setcomp', 'dictcomp') or n in SYNTHETIC or e[1].startswith('__pyx_')


def stmt_kind(line):
    s = line.strip()
    if s == 'raise':
        return 'bare-raise'
    m = re.match(r'(raise|return|if|elif|while|for|with|assert|del|yield|try|except|finally|else|def|class|print|pass)\b', s)
    if m:
        return m.group(1)
    if re.match(r'[\w, \[\]\.\*]+ (\+|-)?= ', s):
        return 'assign'
    return 'expr'


def frame_kind(name):
    n = _unnumbered(name.rsplit('.', 1)[-1])
    if n in ('<lambda>', 'lambda'):
        return 'lambda'
    if n in ('<genexpr>', 'genexpr'):
        return 'genexpr'
    if n == '<module>' or name.startswith('init'):
        return 'module'
    for p, k in (('lam', 'lambda'), ('e', 'func'), ('f', 'func'), ('g', 'gen'), ('m', 'method'), ('o', 'oneliner')):
        if re.match(p + r'\d+$', n):
            return k
    return 'other'


def _lcs_pairs(a, b):
    """longest common subsequence of two line-number lists -> list of (i, j) index pairs"""
    n, m = len(a), len(b)
    t = [[0] * (m + 1) for _ in range(n + 1)]
    for i in range(n - 1, -1, -1):
        for j in range(m - 1, -1, -1):
            t[i][j] = t[i + 1][j + 1] + 1 if a[i] == b[j] else max(t[i + 1][j], t[i][j + 1])
    i = j = 0
    out = []
    while i < n and j < m:
        if a[i] == b[j]:
            out.append((i, j))
            i += 1
            j += 1
        elif t[i + 1][j] >= t[i][j + 1]:
            i += 1
        else:
            j += 1
    return out


def scopes_by_line(source):
    """line -> names of the function-like scopes that have code on that line (def name, 'lambda', 'genexpr')"""
    out = {}
    try:
        tree = ast.parse(source)
    except SyntaxError:
        return out
    for node in ast.walk(tree):
        if isinstance(node, ast.Lambda):
            nm = 'lambda'
        elif isinstance(node, ast.GeneratorExp):
            nm = 'genexpr'
        elif isinstance(node, (ast.FunctionDef, ast.AsyncFunctionDef)):
            nm = node.name
        else:
            continue
        for ln in range(node.lineno, (node.end_lineno or node.lineno) + 1):
            d = out.setdefault(ln, {})
            d[nm] = d.get(nm, 0) + 1
    return out


def compare_tb(ref, got, mod, srcname, srclines, scopes=None):
    """Compare the compiled traceback entry list with CPython's. Entries are [file, name, line, qualname].
    Returns a list of (mechanism key, text); empty when the compiled traceback names the same functions, file and
    lines in the same order.  Entries are aligned on their line numbers (LCS); synthetic comprehension /
    generator-expression frames are optional on both sides."""
    if scopes is None:
        scopes = scopes_by_line('\n'.join(srclines))
    def text(i):
        return srclines[i - 1] if 0 < i <= len(srclines) else ''
    issues = []
    pairs = _lcs_pairs([e[2] for e in ref], [e[2] for e in got])
    for i, j in pairs:
        r, g = ref[i], got[j]
        if not g[0].endswith(srcname):
            issues.append(('tb:file:%s' % frame_kind(r[1]), 'entry for %s carries file %r' % (r[1], g[0])))
        if not accepted_name(g[1], r[1], r[3], mod):
            glast = _unnumbered(g[1].rsplit('.', 1)[-1])
            rlast = strip_angle(r[1])
            cnt = scopes.get(g[2], {}).get(glast, 0)
            if (glast != rlast and cnt >= 1) or (glast == rlast and cnt >= 2):
                issues.append(('tb:name:reported-as-another-function-on-the-same-line',
                               'entry at line %d is named %r (a function that also has code on that line); '
                               'CPython names it %r (%s)' % (g[2], g[1], r[1], r[3])))
            else:
                issues.append(('tb:name:%s-reported-as-%s' % (frame_kind(r[1]), frame_kind(g[1])),
                               'entry at line %d is named %r, CPython names it %r (%s)' % (g[2], g[1], r[1], r[3])))
    # leftovers between anchors
    bounds = [(-1, -1)] + pairs + [(len(ref), len(got))]
    for (i0, j0), (i1, j1) in zip(bounds, bounds[1:]):
        lr = [ref[i] for i in range(i0 + 1, i1)]
        lg = [got[j] for j in range(j0 + 1, j1)]
        # same function, other line
        for r in list(lr):
            for g in lg:
                if accepted_name(g[1], r[1], r[3], mod) and not is_synth_ref(r):
                    issues.append(('tb:line:%s:expected-at-%s:observed-at-%s' % (
                        frame_kind(r[1]), stmt_kind(text(r[2])), stmt_kind(text(g[2]))),
                        'entry for %s: line %d (%r), CPython line %d (%r)' % (r[1], g[2], text(g[2]).strip(), r[2], text(r[2]).strip())))
                    lr.remove(r)
                    lg.remove(g)
                    break
        for r in lr:
            if not is_synth_ref(r):
                issues.append(('tb:missing-frame:%s:at-%s' % (frame_kind(r[1]), stmt_kind(text(r[2]))),
                               'compiled traceback lacks the entry %s line %d (%r)' % (r[1], r[2], text(r[2]).strip())))
        for g in lg:
            if is_synth_got(g):
                continue
            issues.append(('tb:extra-entry:at-%s' % stmt_kind(text(g[2])),
                           'compiled traceback has an additional entry %s line %d (%r)' % (g[1], g[2], text(g[2]).strip())))
    return issues


def def_line(srclines, name):
    pat = re.compile(r'\s*(def %s\(|%s = lambda\b)' % (re.escape(name), re.escape(name)))
    for i, ln in enumerate(srclines, 1):
        if pat.match(ln):
            return i
    return None


def run_drivers(ck, tree, builddir, mods, nproc):
    """mods: list of {name, src, kind, cases}. Returns (records, crashes, fatals)."""
    d = tree.subdir('drv')
    groups = [mods[i::nproc] for i in range(nproc)]
    groups = [g for g in groups if g]

    def one(gi):
        g = groups[gi]
        out = os.path.join(d, 'out_%d.jsonl' % gi)
        prog = os.path.join(d, 'prog_%d' % gi)
        sf = os.path.join(d, 'spec_%d.json' % gi)
        recs, crashes, fatals = [], [], []
        start = [0, 0]
        last_timeout_at = None
        for _attempt in range(40):
            for p in (out, prog):
                if os.path.exists(p):
                    os.unlink(p)
            core.write_json(sf, {'builddir': builddir, 'out': out, 'progress': prog, 'mods': g, 'start': start})
            r = core.run([core.PY, '-m', 'props.C44_driver', sf], env=tree.env(builddir), timeout=ck.pick(600, 1800), as_gb=6)
            done = False
            if os.path.exists(out):
                for ln in open(out).read().splitlines():
                    try:
                        rec = json.loads(ln)
                    except ValueError:
                        continue
                    if rec.get('done'):
                        done = True
                    elif 'fatal' in rec:
                        fatals.append(rec['fatal'])
                    else:
                        recs.append(rec)
            if done and r.rc == 0:
                break
            at = None
            if os.path.exists(prog):
                try:
                    at = [int(x) for x in open(prog).read().split()]
                except ValueError:
                    at = None
            if not at or len(at) != 2 or at[0] >= len(g):
                fatals.append('driver died rc=%s timed_out=%s: %s' % (r.rc, r.timed_out, (r.err or '')[-800:]))
                break
            m = g[at[0]]
            case = m['cases'][at[1]] if m['kind'] == 'funcs' and at[1] < len(m['cases']) else '<import>'
            if r.timed_out and at != last_timeout_at:
                # the watchdog fired (possibly only because the machine is overloaded): resume at the same case; only a
                # second time-out at the very same case is reported as a hang of the compiled code
                last_timeout_at = at
                start = at
                continue
            crashes.append({'mod': m['name'], 'case': case, 'kind': 'HANG' if r.timed_out else 'CRASH rc=%s' % r.rc,
                            'stderr': (r.err or '')[-2000:]})
            start = [at[0], at[1] + 1] if m['kind'] == 'funcs' else [at[0] + 1, 0]
        return recs, crashes, fatals

    with ThreadPoolExecutor(len(groups)) as ex:
        res = list(ex.map(one, range(len(groups))))
    recs, crashes, fatals = [], [], []
    for a, b, c in res:
        recs += a
        crashes += b
        fatals += c
    return recs, crashes, fatals


def build_modules(ck, tree, sources, subdir):
    """Translate with the monitor plugin (c_line_in_traceback off) and build. Returns builddir, info, plugin data."""
    d, info = tree.build_sources(sources, subdir=subdir, ext='.py', plugins=[PLUGIN],
                                 job_extra={'options': {'c_line_in_traceback': False}})
    return d, info, tree.last_plugins


def main(ck):
    tree = cy.Tree('C44')
    # ---------------------------------------------------------------- (a) encoder vs CPython decoder
    enc, enc_samples = run_encoder_part(ck, tree)
    for f in FORMS:
        ck.inconclusive_if(enc['forms'].get(f, 0) < 1000, 'encoder form %s produced only %d times (< 1000)' % (f, enc['forms'].get(f, 0)))

    # ---------------------------------------------------------------- (b) run-time tracebacks
    n_scen = ck.pick(400, 15000)
    per_mod = ck.pick(25, 50)
    n_top = ck.pick(8, 120)
    rng = ck.rng('raisers')
    sources, meta = {}, {}
    for i in range((n_scen + per_mod - 1) // per_mod):
        name = 'c44m%d' % i
        text, cases = c44_raisers.gen_module(rng, name, per_mod)
        sources[name] = text
        meta[name] = {'kind': 'funcs', 'cases': cases}
    for i in range(n_top):
        name = 'c44t%d' % i
        text, tags = c44_raisers.gen_toplevel_module(rng, name)
        sources[name] = text
        meta[name] = {'kind': 'toplevel', 'cases': [{'entry': '<import>', 'tags': tags}]}
    builddir, info, plug = build_modules(ck, tree, sources, 'rt')
    failed = [n for n in sources if not info[n]['ok']]
    for n in failed[:5]:
        ck.note('build failure %s at %s: %s' % (n, info[n]['stage'], info[n]['errors'][-400:]))
    ck.inconclusive_if(len(failed) > 0.2 * len(sources), '%d of %d generated modules failed to build' % (len(failed), len(sources)))
    mods = [{'name': n, 'src': info[n]['src'], 'kind': meta[n]['kind'], 'cases': [c['entry'] for c in meta[n]['cases']]}
            for n in sources if info[n]['ok']]
    # compiler-side monitor results
    mon = {'contract_evals': 0, 'bp_evals': 0, 'positions_encoded': 0, 'forms': {}}
    codeobjs = {}
    for p in plug:
        st = p.get(PLUGIN) or {}
        if 'plugin_error' in st:
            ck.inconclusive_if(True, 'monitor plugin failed: ' + st['plugin_error'][-300:])
            continue
        for k in ('contract_evals', 'bp_evals', 'positions_encoded'):
            mon[k] += st.get(k, 0)
        for k, v in st.get('forms', {}).items():
            mon['forms'][k] = mon['forms'].get(k, 0) + v
        codeobjs.update(st.get('codeobjs', {}))
        for v in st.get('contract_violations', []):
            key = 'encoder:real-compilation:' + ('exception' if 'error' in v else 'decode-mismatch')
            ck.discrepancy(key, 'table built during a real compilation does not decode to its input: %r -> %r'
                           % (v['positions'][:8], (v.get('observed') or v.get('error'))),
                           dict(v, kind='encoder', expected=v['positions'], observed=v.get('observed')))
        for v in st.get('bp_violations', []):
            ck.discrepancy('positions:recorded-ranges:' + v['what'].replace(' ', '-'),
                           '_build_positions of %s (line %s): %s' % (v['function'], v['line'], v['what']), dict(v, kind='build_positions'))
    ck.inconclusive_if(mon['contract_evals'] == 0, 'line-table contract was never evaluated during real compilations')
    ck.inconclusive_if(mon['bp_evals'] == 0, '_build_positions contract was never evaluated')

    recs, crashes, fatals = run_drivers(ck, tree, builddir, mods, ck.pick(8, core.NCPU))
    for f in fatals:
        ck.inconclusive_if(True, 'driver failure: %s' % str(f)[-300:])
    srclines = {n: sources[n].split('\n') for n in sources}
    scopes = {n: scopes_by_line(sources[n]) for n in sources}
    tagsof = {(n, c['entry']): c['tags'] for n in sources for c in meta[n]['cases']}
    hist = {'tb_equal': 0, 'no_raise_in_cpython': 0, 'exc_type_differs': 0, 'compiled_did_not_raise': 0,
            'chain_length_differs': 0, 'recursion': 0}
    tagcount = {}
    evaluated = 0
    distinct = set()
    tb_samples = []
    frames_compared = 0
    for c in crashes:
        ck.discrepancy('crash:' + c['kind'].split()[0], 'compiled module crashed/hung in %s.%s' % (c['mod'], c['case']),
                       {'kind': 'traceback', 'module_source': sources[c['mod']], 'module_name': c['mod'], 'entry': c['case'],
                        'stderr': c['stderr']})
    for rec in recs:
        if 'codeobjs' in rec:
            continue
        mod, entry = rec['mod'], rec['case']
        ref, got = rec['ref'], rec['got']
        if ref is None:
            hist['no_raise_in_cpython'] += 1
            continue
        if ref == 'recursion' or got == 'recursion':
            hist['recursion'] += 1
            continue
        if got is None:
            hist['compiled_did_not_raise'] += 1     # not C44's property (C01/C22 own it)
            continue
        if [x[0] for x in ref] != [x[0] for x in got]:
            if len(ref) != len(got):
                hist['chain_length_differs'] += 1
            else:
                hist['exc_type_differs'] += 1
            continue
        evaluated += 1
        tags = tagsof.get((mod, entry), [])
        for t in tags:
            tagcount[t] = tagcount.get(t, 0) + 1
        srcname = mod + '.py'
        issues = []
        for lvl, ((_, rents), (_, gents)) in enumerate(zip(ref, got)):
            frames_compared += len(rents)
            for key, txt in compare_tb(rents, gents, mod, srcname, srclines[mod], scopes[mod]):
                issues.append((key + (':in-chained-exception' if lvl else ''), txt))
        shape = (tuple(sorted(tags)), tuple(tuple((frame_kind(e[1]), stmt_kind(srclines[mod][e[2] - 1])) for e in x[1]) for x in ref))
        distinct.add(shape)
        if not issues:
            hist['tb_equal'] += 1
            if len(tb_samples) < 4 and len(ref[0][1]) >= 2:
                tb_samples.append({'module': mod, 'entry': entry, 'exception': ref[0][0],
                                   'cpython_tb': [[e[1], e[2]] for e in ref[0][1]],
                                   'compiled_tb': [[e[1], e[2]] for e in got[0][1]], 'tags': tags})
        else:
            hist['tb_differs'] = hist.get('tb_differs', 0) + 1
            for key, txt in dict(issues).items():
                hist[key.split(':')[1]] = hist.get(key.split(':')[1], 0) + 1
                ck.discrepancy(key, '%s.%s: %s' % (mod, entry, txt),
                               {'kind': 'traceback', 'module_source': sources[mod], 'module_name': mod, 'entry': entry,
                                'toplevel': meta[mod]['kind'] == 'toplevel', 'tags': tags,
                                'expected': [[x[0], [[e[1], e[2]] for e in x[1]]] for x in ref],
                                'observed': [[x[0], [[e[1], e[2]] for e in x[1]]] for x in got]})
    # ---------------------------------------------------------------- code objects of compiled functions
    co_checked = co_pos_entries = 0
    co_unmatched = 0
    for rec in recs:
        if 'codeobjs' not in rec:
            continue
        mod = rec['mod']
        if not rec.get('walk_aligned'):
            ck.note('function walk of %s not aligned (ref %d, compiled %d)' % (mod, rec['nref'], rec['ncomp']))
            co_unmatched += 1
            continue
        recorded = {}
        for r in codeobjs.get(mod + '.py', []):
            if 'name' in r:
                recorded.setdefault((r['name'], r['first']), []).append(r['positions'])
        for c in rec['codeobjs']:
            if c['ref_name'] != c['name'] and strip_angle(c['ref_name']) != strip_angle(c['name']):
                co_unmatched += 1
                continue
            dl = c['ref_first']     # CPython's own co_firstlineno (def line, or first decorator line)
            wit = {'kind': 'codeobject', 'module_source': sources[mod], 'module_name': mod, 'function': c['where'],
                   'co_name': c['name']}
            co_checked += 1
            if dl is not None and c['first'] != dl:
                ck.discrepancy('codeobj:firstlineno:%s' % frame_kind(c['ref_name']),
                               '%s.%s: co_firstlineno %d, CPython %d' % (mod, c['where'], c['first'], dl),
                               dict(wit, expected=dl, observed=c['first']))
            if not c['file'].endswith(mod + '.py'):
                ck.discrepancy('codeobj:filename', '%s.%s: co_filename %r' % (mod, c['where'], c['file']),
                               dict(wit, expected=mod + '.py', observed=c['file']))
            exp = recorded.get((strip_angle(c['name']), c['first'])) or recorded.get((c['name'], c['first']))
            if exp is None:
                exp = [p for (n, f), ps in recorded.items() if f == c['first'] and strip_angle(n) == strip_angle(c['name']) for p in ps] or None
            if exp is None:
                co_unmatched += 1
                continue
            co_pos_entries += len(c['positions'])
            if not any(c['positions'] == e for e in exp):
                ck.discrepancy('codeobj:positions:%s' % frame_kind(c['ref_name']),
                               '%s.%s: co_positions() %r, compiler recorded %r' % (mod, c['where'], c['positions'][:6], exp[0][:6]),
                               dict(wit, expected=exp[0], observed=c['positions']))
    ck.inconclusive_if(co_checked == 0, 'no compiled code object was compared')
    ck.inconclusive_if(co_checked and co_unmatched > 0.2 * co_checked, '%d code objects could not be matched to a compiler record' % co_unmatched)
    floor = ck.pick(250, 9000)
    ck.inconclusive_if(evaluated < floor, 'only %d tracebacks compared (< %d)' % (evaluated, floor))
    need = ['frame:func', 'frame:method', 'frame:gen', 'frame:lambda', 'frame:module', 'frame:oneliner', 'nested:func',
            'wrap:listcomp', 'wrap:genexpr_list', 'wrap:inline_lambda', 'ctx:try_finally', 'ctx:in_finally',
            'ctx:reraise_bare', 'ctx:raise_from', 'depth:5']
    for t in need:
        ck.inconclusive_if(tagcount.get(t, 0) == 0, 'no compared traceback with workload feature %s' % t)
    samples = enc_samples[:2] + tb_samples[:3]
    n_eval = enc['lists'] + evaluated + co_checked
    n_distinct = enc['distinct'] + len(distinct)
    return ck.finish(
        n_eval, n_distinct,
        '(a) seeded start-sorted position lists (line deltas 0..3/large, multi-line spans, columns at the 80/128 form '
        'boundaries, widths 0/15/16/200, lengths 0..200) encoded by the mirrored LineTable.build_line_table and decoded '
        'by CPython code.replace(co_linetable=).co_positions(); distinct = distinct non-empty lists. (b) generated '
        'functions raising at a single-line statement through call chains of depth <= 5 (functions, methods, closures, '
        'generators, comprehensions, lambdas, re-raising try blocks, module level); a case counts when CPython and the '
        'compiled module raise the same exception types; distinct = distinct (feature tags, CPython frame-kind/'
        'statement-kind sequence). Plus one evaluation per compiled code object compared with the compiler record.',
        samples,
        extra={'encoder': enc, 'encoder_lists': enc['lists'], 'encoder_positions': enc['positions'],
               'tracebacks_compared': evaluated, 'traceback_frames_compared': frames_compared,
               'traceback_outcomes': hist, 'workload_features': dict(sorted(tagcount.items())),
               'modules': len(sources), 'modules_failed_to_build': len(failed),
               'real_compilation_monitor': mon, 'code_objects_compared': co_checked,
               'code_object_position_entries': co_pos_entries, 'code_objects_unmatched': co_unmatched,
               'crashes': len(crashes)},
        assumptions=['CPython 3.12.1 is the reference: its co_positions() decoder and its traceback of the same source',
                     'traceback names: CPython name, qualname, or <module>.<qualname> (without <locals>, lambda/genexpr '
                     'without angle brackets) are accepted as naming the same function (DESIGN C44 FA)',
                     'synthetic comprehension/generator-expression frames are not required on either side',
                     'cases where the exception types differ are not judged here (C01/C22)'])


# ------------------------------------------------------------------------------------------------ replay
def replay(ck, data):
    w = data.get('witness', data)
    tree = cy.Tree('C44r')
    if w.get('kind') == 'encoder':
        d = tree.subdir('enc')
        sf, of = os.path.join(d, 's.json'), os.path.join(d, 'o.json')
        core.write_json(sf, {'mirror': tree.mirror, 'seed': 0, 'chunk': 0, 'n_lists': 0, 'max_len': 1,
                             'explicit': [[w['positions'], w['firstlineno']]]})
        r = core.run([core.PY, '-m', 'props.C44_worker', sf, of], env=tree.env(), timeout=120)
        o = core.read_json(of) if os.path.exists(of) else {'fatal': r.err}
        print('positions  ', w['positions'])
        if o.get('keys'):
            for k, ws in o['witnesses'].items():
                print('key', k)
                print('CPython decodes', ws[0]['observed'], ws[0]['error'] or '')
            print('VIOLATION property=%s replay=<replayed>' % ck.pid)
            return 1
        print('replay: table now decodes to its input', o.get('fatal', ''))
        return 0
    if w.get('kind') in ('traceback', 'codeobject'):
        name = w['module_name']
        builddir, info, plug = build_modules(ck, tree, {name: w['module_source']}, 'r')
        if not info[name]['ok']:
            print('build failed', info[name]['errors'][-1500:])
            return 2
        top = bool(w.get('toplevel'))
        mods = [{'name': name, 'src': info[name]['src'], 'kind': 'toplevel' if top else 'funcs',
                 'cases': [w['entry']] if w.get('entry') and not top else []}]
        recs, crashes, fatals = run_drivers(ck, tree, builddir, mods, 1)
        lines = w['module_source'].split('\n')
        rc = 0
        for c in crashes:
            print('crash', c)
            rc = 1
        for rec in recs:
            if 'codeobjs' in rec:
                if w['kind'] == 'codeobject':
                    for c in rec['codeobjs']:
                        if c['where'] == w.get('function'):
                            print('code object', json.dumps(c)[:1500])
                continue
            print('CPython :', rec['ref'])
            print('compiled:', rec['got'])
            if rec['ref'] and rec['got'] and rec['ref'] != 'recursion':
                for (_, a), (_, b) in zip(rec['ref'], rec['got']):
                    for bad in compare_tb(a, b, name, name + '.py', lines):
                        print('mismatch', bad)
                        rc = 1
        if rc:
            print('VIOLATION property=%s replay=<replayed>' % ck.pid)
        else:
            print('replay: no traceback discrepancy reproduced (for code-object witnesses compare the dump above)')
        return rc
    print(json.dumps(w, indent=1)[:3000])
    return 2
