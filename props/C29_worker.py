"""C29 layout-change driver.  `dump spec out`: import variant 1 of module c29lay, build one instance per pair with the
given attribute values, pickle it with every protocol.  `load pickles out`: import variant 2 (same module and class names,
other build directory) and unpickle.  Run as two separate processes with different PYTHONPATH."""
import base64
import json
import pickle
import sys


def main():
    mode, src, dst = sys.argv[1:4]
    import c29lay
    assert c29lay.__file__.endswith('.so'), c29lay.__file__
    if mode == 'dump':
        spec = json.load(open(src))
        out = {'protocols': spec['protocols'], 'pairs': {}}
        for p in spec['pairs']:
            o = getattr(c29lay, p['name'])()
            for n, expr in p['values'].items():
                setattr(o, n, eval(expr))
            st = o._std()
            assert all(st[n] == eval(e) or st[n] != st[n] for n, e in p['values'].items()), (p, st)
            out['pairs'][p['name']] = {'values': p['values'],
                                       'pickles': {str(pr): base64.b64encode(pickle.dumps(o, pr)).decode() for pr in spec['protocols']}}
        json.dump(out, open(dst, 'w'))
        return 0
    data = json.load(open(src))
    res = {}
    for name, p in data['pairs'].items():
        res[name] = {}
        for pr, b in p['pickles'].items():
            try:
                o = pickle.loads(base64.b64decode(b))
            except Exception as e:
                res[name][pr] = {'outcome': 'raised', 'exc': type(e).__name__, 'pickle_error': isinstance(e, pickle.PickleError),
                                 'msg': str(e)[:200]}
                continue
            st = o._std()
            state, original = {}, {}
            for n, expr in p['values'].items():
                v = eval(expr)
                original[n] = repr(v)
                if n in st:
                    # equal by value (a retyped member may legitimately convert 3 -> 3.0); identical repr otherwise
                    state[n] = repr(v) if st[n] == v else 'DIFFERENT:' + repr(st[n])
            for n in st:
                if n not in p['values']:
                    state[n] = 'NEW:' + repr(st[n])
            res[name][pr] = {'outcome': 'loaded', 'state': state, 'original': original, 'type': type(o).__name__}
    json.dump(res, open(dst, 'w'))
    return 0


if __name__ == '__main__':
    sys.exit(main())
