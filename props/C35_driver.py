"""Fault-injection driver for C35 (runs in a fresh subprocess; one build configuration per process).
python -m props.C35_driver spec.json"""
import faulthandler
import gc
import json
import os
import sys
import types

faulthandler.enable()
from vlib.sig import sig  # noqa: E402


def main():
    spec = json.load(open(sys.argv[1]))
    if spec.get('stdout_path'):
        fd = os.open(spec['stdout_path'], os.O_WRONLY | os.O_CREAT | os.O_APPEND, 0o644)
        os.dup2(fd, 1)
    if spec.get('stderr_path'):
        fd = os.open(spec['stderr_path'], os.O_WRONLY | os.O_CREAT | os.O_APPEND, 0o644)
        os.dup2(fd, 2)
    sys.path.insert(0, spec['builddir'])
    sys.setrecursionlimit(300)
    import frt
    State, T, Injected = frt.State, frt.T, frt.Injected
    R = types.ModuleType('ref_' + spec['mod'])
    src = open(spec['ref'], encoding='utf-8').read()
    exec(compile(src, spec['ref'], 'exec'), R.__dict__)
    C = __import__(spec['mod'])
    if not (getattr(C, '__file__', '') or '').endswith('.so'):
        print(json.dumps({'fatal': 'not a compiled module'}))
        return 4
    logitems = []

    def log(*xs):
        for x in xs:
            logitems.append(sig(x))
    R.log = log
    C.log = log
    out = open(spec['out'], 'a')
    pfd = os.open(spec['progress'], os.O_WRONLY | os.O_CREAT, 0o644)
    capk = spec.get('max_k', 80)
    summary = {'functions': 0, 'runs': 0, 'injected_runs': 0, 'order_mismatch': 0, 'kinds': {}, 'ref_unclean': 0,
               'max_ticks': 0, 'distinct': 0, 'samples': [], 'caught_by_program': 0, 'propagated': 0}
    distinct = set()

    def run(M, fname, vals, armed):
        del logitems[:]
        gc.collect()
        base = State.live
        frt.reset(armed)
        a, b, c = T(vals[0]), T(vals[1]), T(vals[2])
        r = None
        try:
            r = getattr(M, fname)(a, b, c)
            State.armed = 0
            o = ['ok', sig(r)]
        except Injected as e:
            State.armed = 0
            o = ['injected', list(e.args)]
            e = None
        except RecursionError:
            State.armed = 0
            o = ['exc', 'RecursionError']
        except Exception as e:
            State.armed = 0
            o = ['exc', type(e).__name__]
            e = None
        kinds = list(State.kinds)
        n = State.tick
        o.append(['log', list(logitems)])
        del a, b, c, r
        del logitems[:]
        gc.collect()
        leak = State.live - base
        return o, kinds, n, leak

    todo = spec['todo']   # list of [fname, [va, vb, vc]]
    start = spec.get('start', 0)
    for idx in range(start, len(todo)):
        fname, vals = todo[idx]
        os.pwrite(pfd, b'%8d %6d' % (idx, 0), 0)
        tracked = [frt.T, frt.Injected, getattr(C, 'mk'), State]
        rc_before = [sys.getrefcount(x) for x in tracked]
        o_r, k_r, n_r, leak_r = run(R, fname, vals, 0)
        o_c, k_c, n_c, leak_c = run(C, fname, vals, 0)
        summary['functions'] += 1
        summary['runs'] += 1
        summary['max_ticks'] = max(summary['max_ticks'], n_r)
        if leak_r:
            summary['ref_unclean'] += 1
            continue
        if k_r != k_c:
            summary['order_mismatch'] += 1
            d = next((i for i, (x, y) in enumerate(zip(k_r, k_c)) if x != y), min(len(k_r), len(k_c)))
            out.write(json.dumps({'type': 'order', 'f': fname, 'vals': vals, 'at': d, 'ref': k_r[max(0, d - 3):d + 3],
                                  'got': k_c[max(0, d - 3):d + 3], 'exp': o_r, 'obs': o_c}) + '\n')
            continue
        if o_r != o_c or leak_c:
            out.write(json.dumps({'type': 'unarmed', 'f': fname, 'vals': vals, 'k': 0, 'exp': o_r, 'got': o_c, 'leak': leak_c}) + '\n')
        for kind in k_r:
            summary['kinds'][kind] = summary['kinds'].get(kind, 0) + 1
        for k in range(1, min(n_r, capk) + 1):
            os.pwrite(pfd, b'%8d %6d' % (idx, k), 0)
            e_o, e_k, e_n, e_leak = run(R, fname, vals, k)
            if e_leak:
                summary['ref_unclean'] += 1
                continue
            g_o, g_k, g_n, g_leak = run(C, fname, vals, k)
            summary['runs'] += 1
            summary['injected_runs'] += 1
            if e_o[0] == 'injected':
                summary['propagated'] += 1
            else:
                summary['caught_by_program'] += 1
            distinct.add(hash((fname, k_r[k - 1], json.dumps(e_o))))
            if e_o != g_o or e_k != g_k or g_leak:
                out.write(json.dumps({'type': 'injected', 'f': fname, 'vals': vals, 'k': k, 'kind': k_r[k - 1], 'exp': e_o, 'got': g_o,
                                      'leak': g_leak, 'kinds_equal': e_k == g_k}) + '\n')
            elif len(summary['samples']) < 5 and k == 2:
                summary['samples'].append({'f': fname, 'vals': vals, 'k': k, 'kind': k_r[k - 1], 'outcome': e_o})
        gc.collect()
        rc_after = [sys.getrefcount(x) for x in tracked]
        if rc_after != rc_before:
            out.write(json.dumps({'type': 'refcount', 'f': fname, 'vals': vals, 'before': rc_before, 'after': rc_after}) + '\n')
        out.flush()
    summary['distinct'] = len(distinct)
    rn = sys.modules.get('refnanny')
    summary['refnanny_module'] = getattr(rn, '__file__', None) if rn is not None else None
    out.write(json.dumps({'type': 'done', 'summary': summary}) + '\n')
    out.close()
    sys.stdout.flush()
    return 0


if __name__ == '__main__':
    rc = main()
    os._exit(rc)
