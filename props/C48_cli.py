"""C48, second route: the command-line cache (`cython --cache`, Main.compile with CompilationOptions.cache and the
fingerprint of Compiler/Main.get_fingerprint). Added after an independently seeded change (seeded/C48) showed that
cythonize(cache=) and cython.inline were the only routes observed.

Every step runs the command-line compiler (`cython -3 --cache <file>`, entry point Cython.Compiler.Main.main of the mirror) in a fresh process with a private CYTHON_CACHE_DIR and compares the
generated C byte-for-byte with `python -m cython -3 <file>` (no cache) on the same inputs in another fresh process."""
import os
import shutil
from concurrent.futures import ThreadPoolExecutor

from vlib import core

BASE = {
    'a.pyx': 'from b cimport twice\ninclude "k.pxi"\ndef f(x):\n    return twice(x) + K\n',
    'b.pxd': 'from c cimport T\ncdef inline T twice(T x):\n    return x * 2\n',
    'c.pxd': 'from d cimport U\nctypedef U T\n',
    'd.pxd': 'ctypedef int U\n',
    'k.pxi': 'include "k2.pxi"\n',
    'k2.pxi': 'DEF K = 3\n',
}
# one-factor edits: name -> (file, new text, family)
EDITS = {
    'source': ('a.pyx', BASE['a.pyx'].replace('+ K', '+ K + 1'), 'source'),
    'source-comment-only': ('a.pyx', BASE['a.pyx'] + '# a comment\n', 'source'),
    'direct-pxd': ('b.pxd', BASE['b.pxd'].replace('x * 2', 'x + x'), 'dep-direct'),
    'transitive-pxd': ('c.pxd', 'from d cimport U\nctypedef U T\nctypedef long V\n', 'dep-transitive'),
    'transitive-pxd-depth3': ('d.pxd', 'ctypedef double U\n', 'dep-transitive'),
    'direct-pxi': ('k.pxi', 'include "k2.pxi"\ncdef int k9 = 1\n', 'dep-include'),
    'transitive-pxi': ('k2.pxi', 'DEF K = 4\n', 'dep-include'),
    'nothing': (None, None, 'nothing'),
}


def compile_once(tree, srcdir, cache_dir, cached, extra_args=()):
    c_file = os.path.join(srcdir, 'a.cpp' if '--cplus' in extra_args else 'a.c')
    if os.path.exists(c_file):
        os.unlink(c_file)
    # NOT `python -m cython`: without a cython.py in the mirror that resolves to /repo/cython.py, which puts /repo (and its
    # prebuilt .so files) in front of the mirror. Run the command-line entry point from inside the mirrored package.
    boot = ("import sys, os, Cython.Compiler.Main as M; "
            "assert os.path.realpath(M.__file__).startswith(os.path.realpath(%r)), M.__file__; "
            "sys.argv = ['cython'] + sys.argv[1:]; M.main(command_line=1)" % tree.mirror)
    cmd = [core.PY, '-c', boot, '-3'] + (['--cache'] if cached else []) + list(extra_args) + ['a.pyx']
    r = core.run(cmd, cwd=srcdir, env=tree.env(extra={'CYTHON_CACHE_DIR': cache_dir}), timeout=1200, as_gb=8)
    if r.rc != 0 or not os.path.exists(c_file):
        return None, (r.err or '')[-600:]
    with open(c_file, 'rb') as f:
        return f.read(), ''


def run_history(tree, hid, order, extra_args=()):
    """returns list of step records"""
    d = tree.subdir('cli_' + hid)
    src, src2, cache = os.path.join(d, 'src'), os.path.join(d, 'fresh'), os.path.join(d, 'cache')
    for p in (src, src2, cache):
        os.makedirs(p, exist_ok=True)
    state = dict(BASE)
    recs = []
    prev_fresh = None
    for name in ['initial', 'nothing'] + order:
        if name in EDITS and EDITS[name][0]:
            state[EDITS[name][0]] = EDITS[name][1]
        for dd in (src, src2):
            for fn, text in state.items():
                with open(os.path.join(dd, fn), 'w') as f:
                    f.write(text)
        cached, err1 = compile_once(tree, src, cache, True, extra_args)
        fresh, err2 = compile_once(tree, src2, os.path.join(d, 'unused'), False, extra_args)
        rec = {'history': hid, 'step': name, 'family': EDITS.get(name, (0, 0, 'initial'))[2], 'ok': cached is not None and fresh is not None,
               'error': err1 or err2, 'equal': None, 'output_changed': None}
        if rec['ok']:
            # the generated C embeds the absolute source path in a comment; both directories have equal length names
            rec['equal'] = cached.replace(src.encode(), b'@') == fresh.replace(src2.encode(), b'@')
            rec['output_changed'] = prev_fresh is not None and fresh.replace(src2.encode(), b'@') != prev_fresh
            prev_fresh = fresh.replace(src2.encode(), b'@')
            if not rec['equal']:
                a = cached.replace(src.encode(), b'@').splitlines()
                b = fresh.replace(src2.encode(), b'@').splitlines()
                i = next((i for i, (x, y) in enumerate(zip(a, b)) if x != y), min(len(a), len(b)))
                rec['diff'] = {'line': i + 1, 'cached': a[i][:200].decode('utf8', 'replace') if i < len(a) else '',
                               'fresh': b[i][:200].decode('utf8', 'replace') if i < len(b) else ''}
        recs.append(rec)
    shutil.rmtree(d, ignore_errors=True)
    return recs


def run(ck, tree):
    rng = ck.rng('cli')
    names = [n for n in EDITS if n != 'nothing']
    hists = []
    for i in range(ck.pick(3, 10)):
        order = list(names)
        rng.shuffle(order)
        hists.append(('h%d' % i, order, ()))
    hists.append(('hcplus', ['transitive-pxd-depth3', 'transitive-pxi'], ('--cplus',)))
    with ThreadPoolExecutor(min(core.NCPU, len(hists))) as ex:
        results = list(ex.map(lambda h: run_history(tree, h[0], h[1], h[2]), hists))
    steps = 0
    fam = {}
    failures = 0
    for recs in results:
        for r in recs:
            if not r['ok']:
                failures += 1
                continue
            steps += 1
            f = fam.setdefault(r['family'], {'steps': 0, 'output_changed': 0, 'differs_from_uncached': 0})
            f['steps'] += 1
            f['output_changed'] += bool(r['output_changed'])
            if not r['equal']:
                f['differs_from_uncached'] += 1
                ck.discrepancy('cli-cache:stale-or-different:%s' % r['family'],
                               '`cython --cache` output differs from an uncached compile after step %s of history %s (line %s: cached %r, '
                               'fresh %r)' % (r['step'], r['history'], r['diff']['line'], r['diff']['cached'][:80], r['diff']['fresh'][:80]),
                               {'route': 'python -m cython -3 --cache a.pyx (CYTHON_CACHE_DIR private)', 'base_files': BASE,
                                'history': [h for h in hists if h[0] == r['history']][0][1], 'step': r['step'], 'diff': r['diff']})
    ck.inconclusive_if(failures > 2, '%d command-line compile steps failed' % failures)
    for need in ('dep-transitive', 'dep-include', 'dep-direct', 'source'):
        ck.inconclusive_if(not fam.get(need, {}).get('output_changed'), 'command-line cache route: no output-affecting step of family %s' % need)
    return steps, fam
