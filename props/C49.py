"""C49 Generated code is assembled in insertion-point order (DESIGN.md section 5, C49).

(a) direct: operation histories on the real, interpreted Cython.StringIOTree.StringIOTree (source mirror) --
    all histories of mutating operations up to length 5 (quick) / 6 (thorough) over <= 3 initial buffers, and
    seeded random histories up to length 400 -- compared with the list-of-holes model (vlib/ref/holes.py) on
    getvalue / copyto / allmarkers / empty of every handle.
(b) in situ: the translate-worker plugin vlib/mon/c49_siotree.py replaces the class by a recording subclass
    during real compilations of files from tests/run and compares what the compiler itself reads from its
    buffers (and every root buffer at the end of the job) with the model."""
import json
import os
import subprocess
from concurrent.futures import ThreadPoolExecutor

from vlib import core, cy
from props import C49_worker as W

PLUGIN = 'vlib.mon.c49_siotree'


def enumerate_prefixes(depth):
    """all canonical histories of exactly `depth` mutating ops, and all shorter ones (model only)"""
    shallow, frontier = [], [[]]
    for d in range(depth):
        nxt = []
        for hist in frontier:
            shallow.append(hist)
            models = W.model_only(hist)
            for op, _ in W.next_ops(models, W.touched_roots(hist)):
                nxt.append(hist + [op])
        frontier = nxt
    return shallow, frontier


def run_worker(tree, spec, tag, timeout):
    d = tree.subdir('direct')
    sf = os.path.join(d, tag + '.spec.json')
    of = os.path.join(d, tag + '.out.json')
    spec = dict(spec)
    spec['mirror'] = tree.mirror
    with open(sf, 'w') as f:
        json.dump(spec, f)
    r = core.run([core.PY, '-m', 'props.C49_worker', sf, of], env=tree.env(), timeout=timeout, as_gb=4)
    if r.rc != 0 or not os.path.exists(of):
        return {'failed': 'rc=%s timed_out=%s stderr=%s' % (r.rc, r.timed_out, (r.err or '')[-600:])}
    o = core.read_json(of)
    o['wall'] = round(r.wall, 1)
    return o


def corpus(ck, tree, n):
    """n files of tests/run (copied into scratch: the compiler writes its output beside the source)"""
    src = os.path.join(core.REPO, 'tests', 'run')
    if not os.path.isdir(src):
        src = os.path.join('/repo', 'tests', 'run')
    dst = tree.subdir('corpus')
    subprocess.run(['rsync', '-a', '--include', '*.pyx', '--include', '*.py', '--include', '*.pxd', '--include', '*.pxi',
                    '--include', '*.h', '--include', '*.hpp', '--exclude', '*', src + '/', dst + '/'], check=True)
    names = sorted(n_ for n_ in os.listdir(dst) if n_.endswith(('.pyx', '.py')) and os.path.getsize(os.path.join(dst, n_)) < 40000)
    rng = ck.rng('corpus')
    # a fixed core that is known to use many insertion points (closures, generators, fused, dataclasses, memoryviews)
    core_names = [x for x in ('closures_T82.pyx', 'generators_py.py', 'fused_def.pyx', 'cdef_class_dataclass.pyx',
                              'memoryview.pyx', 'cpdef_enums.pyx', 'fstring.pyx', 'extern_varobject_extensions.srctree')
                  if x in names]
    rest = [x for x in names if x not in core_names]
    rng.shuffle(rest)
    chosen = (core_names + rest)[:n]
    jobs = []
    for nm in chosen:
        p = os.path.join(dst, nm)
        head = open(p, encoding='utf-8', errors='replace').read(3000)
        cplus = ('language = c++' in head) or ('language=c++' in head) or ('tag: cpp' in head) or (', cpp' in head.split('\n', 3)[0])
        j = {'src': p, 'cplus': bool(cplus), 'language_level': 2 if nm.endswith('.pyx') else 3}
        jobs.append(j)
    return jobs


def main(ck):
    tree = cy.Tree('C49')
    maxlen = ck.pick(5, 6)
    n_random = ck.pick(3000, 80000)
    n_real = ck.pick(20, 300)
    pre_depth = 3
    shallow, prefixes = enumerate_prefixes(pre_depth)
    rng = ck.rng('shards')
    rng.shuffle(prefixes)
    nshards = ck.pick(32, 96)
    tasks = []
    for i in range(nshards):
        spec = {'mode': 'exhaustive', 'maxlen': maxlen, 'prefixes': prefixes[i::nshards], 'b_every': 4,
                'shallow': shallow if i == 0 else []}
        tasks.append(('exh%d' % i, spec))
    nr = ck.pick(16, 64)
    for i in range(nr):
        tasks.append(('rnd%d' % i, {'mode': 'random', 'seed': '%d:%d' % (ck.seed, i), 'maxlen': 400, 'b_every': 4, 'ccw_count': ck.pick(2000, 40000) // nr,
                                    'count': n_random // nr + (1 if i < n_random % nr else 0)}))

    def insitu():
        t0 = ck.elapsed()
        jobs = corpus(ck, tree, n_real)
        res, plug = tree.translate(jobs, plugins=[PLUGIN], plugin_args={PLUGIN: {'mirror': tree.mirror}},
                                   nworkers=core.NCPU, timeout=1500)
        ck.cov['wall_in_situ_s'] = round(ck.elapsed() - t0, 1)
        return jobs, res, plug

    timeout = ck.pick(900, 2400)
    with ThreadPoolExecutor(core.NCPU + 1) as ex:
        fut_insitu = ex.submit(insitu)
        outs = list(ex.map(lambda t: (t[0], run_worker(tree, t[1], t[0], timeout)), tasks))
        jobs, tres, plug = fut_insitu.result()

    # ---------------------------------------------------------------- direct part
    ck.cov['wall_direct_workers_s'] = {'exhaustive_sum': round(sum(o.get('wall', 0) for t, o in outs if t.startswith('exh')), 1),
                                       'random_sum': round(sum(o.get('wall', 0) for t, o in outs if t.startswith('rnd')), 1),
                                       'all_done_at': round(ck.elapsed(), 1)}
    tot = {'evaluations': 0, 'histories': 0, 'nontrivial': 0, 'observations': 0, 'every_step_runs': 0, 'ccw_histories': 0,
           'ccw_nontrivial': 0}
    opcount, by_len = {}, {}
    maxdepth = maxhandles = 0
    samples = []
    exh_hist = rnd_hist = 0
    for tag, o in outs:
        if 'failed' in o:
            ck.inconclusive_if(True, 'worker %s failed: %s' % (tag, o['failed']))
            continue
        if not o.get('mirror_ok'):
            ck.inconclusive_if(True, 'StringIOTree not imported from the source mirror: %r' % o.get('module_file'))
            continue
        for k in tot:
            tot[k] += o[k]
        if tag.startswith('exh'):
            exh_hist += o['histories']
            for k, v in o['by_len'].items():
                by_len[k] = by_len.get(k, 0) + v
        else:
            rnd_hist += o['histories']
        for k, v in o['opcount'].items():
            opcount[k] = opcount.get(k, 0) + v
        maxdepth = max(maxdepth, o['maxdepth'])
        maxhandles = max(maxhandles, o['maxhandles'])
        if len(samples) < 4:
            samples.extend(o['samples'][:1])
        for key, d in o['disc'].items():
            isv = ck.discrepancy('direct:' + key, 'history %s (%s): %s' % (json.dumps(d['history']), d['mode'],
                                                                          json.dumps(d['detail'])[:400]),
                                 {'part': 'direct', 'history': d['history'], 'mode': d['mode'], 'detail': d['detail'],
                                  'expected': d['detail'].get('expected'), 'observed': d['detail'].get('observed')})
            book = ck.violations if isv else ck.known_hits
            book['direct:' + key]['count'] += d['count'] - 1
            if isv and len(d['history']) < len(book['direct:' + key]['witness'].get('history', d['history'])):
                book['direct:' + key]['witness'].update({'history': d['history'], 'mode': d['mode'], 'detail': d['detail']})
    for k in ('W', 'w', 'ip', 'ins', 'c', 'r', 'M', 'n', 'e', 'o', 'new'):
        ck.inconclusive_if(opcount.get(k, 0) == 0, 'operation kind %r never executed' % k)
    ck.inconclusive_if(maxdepth < 4, 'hole nesting depth reached only %d' % maxdepth)
    ck.inconclusive_if(tot['ccw_histories'] == 0, 'no CCodeWriter-level history was run')

    # ---------------------------------------------------------------- in-situ part
    ins = {'compilations': len(jobs), 'translated_ok': 0, 'trees': 0, 'roots_compared': 0, 'fragments_checked': 0,
           'lines_checked': 0, 'markers_checked': 0, 'max_depth': 0, 'holes': 0, 'roots_with_markers_per_line': 0}
    for j, r in zip(jobs, tres):
        if r.get('ok'):
            ins['translated_ok'] += 1
        pj = (r.get('plugin') or {}).get(PLUGIN) or {}
        if 'plugin_error' in pj:
            ck.inconclusive_if(True, 'in-situ monitor failed: ' + pj['plugin_error'][-400:])
            continue
        for k in ('trees', 'roots_compared', 'fragments_checked', 'lines_checked', 'markers_checked', 'holes',
                  'roots_with_markers_per_line'):
            ins[k] += pj.get(k, 0)
        ins['max_depth'] = max(ins['max_depth'], pj.get('max_depth', 0))
        for mm in pj.get('mismatches', ()):
            ck.discrepancy('insitu:%s:%s' % (mm['kind'], mm['how']),
                           'compiling %s: %s differs from the list-of-holes model (%s) at offset %d' % (
                               os.path.basename(j['src']), mm['kind'], mm['how'], mm['first_diff_at']),
                           {'part': 'insitu', 'source_file': os.path.basename(j['src']), 'cplus': j['cplus'],
                            'language_level': j['language_level'],
                            'expected': mm['expected_context'], 'observed': mm['observed_context'], 'detail': mm})
    obs_by_compiler = {}
    mut = {'insertion_points': 0, 'inserts': 0, 'resets': 0, 'commits': 0, 'fragments': 0, 'markers_recorded': 0}
    for p in plug:
        d = p.get(PLUGIN) or {}
        if 'plugin_error' in d:
            ck.inconclusive_if(True, 'in-situ monitor failed: ' + d['plugin_error'][-400:])
            continue
        for k, v in (d.get('observations_by_compiler') or {}).items():
            obs_by_compiler[k] = obs_by_compiler.get(k, 0) + v
        for k in mut:
            mut[k] += d.get(k, 0)
    ins['observations_made_by_compiler'] = obs_by_compiler
    ins.update({'ops_' + k: v for k, v in mut.items()})
    ck.inconclusive_if(ins['translated_ok'] * 2 < len(jobs), 'only %d of %d corpus files translated' % (ins['translated_ok'], len(jobs)))
    ck.inconclusive_if(ins['fragments_checked'] == 0 or ins['roots_compared'] == 0, 'in-situ monitor compared nothing')
    ck.inconclusive_if(sum(obs_by_compiler.values()) == 0, 'compiler made no monitored observation of its buffers')
    # CCodeWriter.insert()/new_writer() have no caller in the compiler itself: subtree insertion is reached by the
    # direct part only; real compilations must at least have used insertion points
    ck.inconclusive_if(mut['insertion_points'] == 0, 'real compilations used no insertion point')
    samples.append({'in_situ_example': os.path.basename(jobs[0]['src']) if jobs else None,
                    'plugin_result': (tres[0].get('plugin') or {}).get(PLUGIN) if tres else None})

    extra = {
        'exhaustive_histories': exh_hist, 'exhaustive_max_length': maxlen, 'histories_by_length': by_len,
        'random_histories': rnd_hist, 'random_max_length': 400, 'observations_compared': tot['observations'],
        'runs_observing_after_every_step': tot['every_step_runs'], 'ccodewriter_histories': tot['ccw_histories'],
        'ccodewriter_histories_with_holes': tot['ccw_nontrivial'],
        'operations_by_kind': opcount, 'max_hole_depth': maxdepth, 'max_handles': maxhandles, 'in_situ': ins,
        'evaluations_direct': tot['evaluations'], 'evaluations_in_situ_roots': ins['roots_compared'],
    }
    if maxlen >= 6 and not ck.inconclusive:
        extra['exhaustive'] = True
    return ck.finish(
        tot['evaluations'] + ins['roots_compared'], tot['nontrivial'],
        'direct: every history of mutating operations (write with/without newline, insertion_point, insert, commit, '
        'reset) of length <= %d over 3 initial buffers, up to renaming of untouched buffers, run once with all handles '
        'observed at the end and (every 4th history of maximal length) once more with the touched buffers and their '
        'ancestors (every 64th: all handles) observed after every step; plus seeded random '
        'histories of 8..400 operations incl. multi-line/empty writes, fresh buffers and interleaved observations. '
        'evaluations = history executions judged + root buffers compared in real compilations. distinct_nontrivial = '
        'distinct histories whose model has a hole and whose output order differs from the order of writing' % maxlen,
        samples, extra=extra,
        assumptions=['list-of-holes model (vlib/ref/holes.py) is the reference',
                     'inserted trees are unplaced and not an ancestor of the target (the documented use)',
                     'marker protocol is CCodeWriter._write_lines: markers.extend([m] * s.count("\\n")) then write(s)'])


def replay(ck, data):
    w = data.get('witness', data)
    tree = cy.Tree('C49r')
    if w.get('part') == 'insitu':
        src = os.path.join(core.REPO, 'tests', 'run')
        dst = tree.subdir('corpus')
        subprocess.run(['rsync', '-a', src + '/', dst + '/'], check=True)
        jobs = [{'src': os.path.join(dst, w['source_file']), 'cplus': bool(w.get('cplus')),
                 'language_level': w.get('language_level', 3)}]
        res, plug = tree.translate(jobs, plugins=[PLUGIN], plugin_args={PLUGIN: {'mirror': tree.mirror}})
        mm = ((res[0].get('plugin') or {}).get(PLUGIN) or {}).get('mismatches') or []
        for m in mm:
            print('mismatch', m['kind'], m['how'], 'at', m['first_diff_at'])
            print(' expected', repr(m['expected_context'])[:400])
            print(' observed', repr(m['observed_context'])[:400])
        if mm:
            print('VIOLATION property=C49 replay=<replayed>')
            return 1
        print('replay: buffers of %s agree with the model' % w['source_file'])
        return 0
    o = run_worker(tree, {'mode': 'replay', 'history': w['history'], 'witness_mode': w.get('mode')}, 'replay', 120)
    if 'failed' in o:
        print('replay worker failed', o['failed'])
        return 2
    for key, d in o['disc'].items():
        print('discrepancy', key, 'mode', d['mode'])
        print(' detail', json.dumps(d['detail'])[:1000])
    if o['disc']:
        print('VIOLATION property=C49 replay=<replayed>')
        return 1
    print('replay: history agrees with the model')
    return 0
