"""C02 Object arithmetic with constant operands matches CPython (DESIGN.md section 5, C02)."""
import os
import re

from vlib import creach, cy, diff, values

OPS = ['+', '-', '*', '/', '//', '%', '&', '|', '^', '<<', '>>', '==', '!=']
INT_ONLY_OPS = {'&', '|', '^', '<<', '>>'}
OPNAME = {'+': 'add', '-': 'sub', '*': 'mul', '/': 'truediv', '//': 'floordiv', '%': 'mod', '&': 'and', '|': 'or',
          '^': 'xor', '<<': 'lshift', '>>': 'rshift', '==': 'eq', '!=': 'ne'}


def constants(ck):
    ints_q = [0, 1, -1, 2, 3, 7, 8, 255, 2 ** 15, 2 ** 30 - 1, 2 ** 30, -(2 ** 30)]
    ints_t = ints_q + [-2, -3, -7, 10, 16, 100, 1000, 32767, 32768, 65535, 65536, 2 ** 29, 2 ** 30 + 1, -(2 ** 30) + 1,
                       -(2 ** 30) - 1, 1073741823, 2 ** 31 - 1, -(2 ** 31), 12345678, -255, 5, 6, 9, 15, 31, 63]
    shifts_q = [1, 2, 14, 15, 16, 29, 30, 31, 32, 33, 59, 60, 61, 62, 63]
    shifts_t = list(range(1, 64))
    floats_q = ['0.0', '-0.0', '1.0', '-2.5', '1e308', 'inf']
    floats_t = floats_q + ['2.0', '0.5', '-1.0', '3.5', '-inf', '1e-300', '9007199254740993.0', '4294967296.0', 'nan']
    return (ck.pick(ints_q, ints_t), ck.pick(shifts_q, shifts_t), ck.pick(floats_q, floats_t))


def float_src(f):
    if f in ('inf', '-inf', 'nan'):
        return "float('%s')" % f
    return f


def gen_functions(ck):
    """list of dicts {name, op, form, c (text), ckind}; source text"""
    ints, shifts, floats = constants(ck)
    funcs = []
    n = 0

    def add(op, form, ctext, ckind):
        nonlocal n
        name = 'fz%dz' % n
        n += 1
        if form == 'xc':
            body = 'return x %s %s' % (op, ctext)
        elif form == 'cx':
            body = 'return %s %s x' % (ctext, op)
        elif form == 'ip':
            body = 'x %s= %s\n    return x' % (op, ctext)
        elif form == 'bxc':  # truth-context comparison (different helper)
            body = "if x %s %s:\n        return 'T'\n    return 'F'" % (op, ctext)
        elif form == 'bcx':
            body = "if %s %s x:\n        return 'T'\n    return 'F'" % (ctext, op)
        funcs.append({'name': name, 'op': op, 'form': form, 'c': ctext, 'ckind': ckind,
                      'src': 'def %s(x):\n    %s\n' % (name, body)})

    for op in OPS:
        if op in ('<<', '>>'):
            cs = [(str(c), 'shift') for c in shifts]
            # also the constant on the left with small/medium values
            left = [(str(c), 'int') for c in ints if abs(c) <= 2 ** 30]
        else:
            cs = [(('(%d)' % c) if c < 0 else str(c), 'int') for c in ints]
            left = cs
        fl = [] if op in INT_ONLY_OPS else [(float_src(f) if not f.startswith('-') else '(%s)' % float_src(f), 'float')
                                            for f in floats if f not in ('inf', '-inf', 'nan')]
        # float('inf') is not a compile-time constant; use literal forms the parser folds
        if op not in INT_ONLY_OPS:
            fl += [('1e999', 'float'), ('(-1e999)', 'float')] if 'inf' in floats else []
        forms = ['xc', 'cx', 'ip'] if op not in ('==', '!=') else ['xc', 'cx', 'bxc', 'bcx']
        for form in forms:
            for ctext, kind in (left if form in ('cx', 'bcx') else cs) + fl:
                add(op, form, ctext, kind)
    return funcs


def operands(ck):
    big = values.int_boundaries(ck.pick(3, 5))
    exprs = [repr(v) for v in big]
    exprs += ['True', 'False']
    fl = values.SPECIAL_FLOATS if not ck.quick else values.SPECIAL_FLOATS[:18]
    exprs += fl
    exprs += ['I(5)', 'I(-2**40)', 'I(0)', 'IAdd(3)', 'IAdd(-2**31)', 'F(2.5)', 'F(-0.0)', 'FMul(1.5)', 'F(inf)']
    rng = ck.rng('operands')
    for _ in range(ck.pick(20, 120)):
        bits = rng.choice([5, 14, 15, 16, 29, 30, 31, 44, 45, 46, 59, 60, 61, 62, 63, 64, 65, 89, 90, 91, 120, 150])
        v = rng.getrandbits(bits) | (1 << (bits - 1))
        exprs.append(repr(v if rng.random() < 0.5 else -v))
    for _ in range(ck.pick(10, 60)):
        exprs.append(repr(rng.uniform(-1e6, 1e6) * 10 ** rng.randint(-300, 300) if rng.random() < .3 else rng.uniform(-100, 100)))
    nonnum = ["'ab'", 'None', '[1, 2]', "b'xy'", '(1,)', '1+2j', 'Obj(1)']
    return exprs, nonnum


def small_int_expr(e):
    try:
        v = eval(e, {'__builtins__': {}}, {})
    except Exception:
        return False
    return isinstance(v, int) and abs(v) <= 300


def classify(fn, case, exp, got):
    """mechanism key for a discrepancy"""
    a = case['a']
    try:
        v = eval(a, vars(values))[0]
        vk = type(v).__name__
        if isinstance(v, float):
            vk = 'float:' + ('nan' if v != v else 'inf' if v in (values.inf, -values.inf) else 'zero' if v == 0 else 'finite')
        elif isinstance(v, int) and not isinstance(v, bool):
            vk = type(v).__name__ + (':neg' if v < 0 else ':zero' if v == 0 else ':pos')
    except Exception:
        vk = '?'
    ek = exp[0] + ':' + (exp[1][0] if exp[0] == 'ok' else exp[1])
    gk = got[0] + ':' + (got[1][0] if got[0] == 'ok' else got[1])
    ctext = fn['c'].strip('()')
    cdesc = fn['ckind']
    if fn['ckind'] == 'float':
        cdesc = 'float:' + ('inf' if '1e999' in ctext else 'zero' if float(ctext) == 0 else 'finite')
    form = {'xc': 'objc', 'ip': 'objc', 'bxc': 'objc', 'cx': 'cobj', 'bcx': 'cobj'}[fn['form']]
    return '%s:%s:const=%s:operand=%s:%s->%s' % (OPNAME[fn['op']], form, cdesc, vk, ek, gk)


def main(ck):
    tree = cy.Tree('C02')
    funcs = gen_functions(ck)
    per_mod = 450
    mods = {}
    fmap = {}
    for i in range(0, len(funcs), per_mod):
        name = 'c02m%d' % (i // per_mod)
        mods[name] = '# cython: language_level=3\n' + '\n'.join(f['src'] for f in funcs[i:i + per_mod])
        for f in funcs[i:i + per_mod]:
            fmap[f['name']] = (name, f)
    configs = [('default', [])]
    if not ck.quick:
        configs.append(('nopylong', ['-DCYTHON_USE_PYLONG_INTERNALS=0']))
    nums, nonnum = operands(ck)
    total_n = total_distinct = 0
    samples = []
    cells = {}
    helpers_seen = {}
    trivial = set()
    skipped_build = 0
    all_hist = {}
    for cfgname, cflags in configs:
        d, info = tree.build_sources(mods, subdir='b_' + cfgname, ext='.py', cflags=cflags)
        for mname, inf in info.items():
            if not inf['ok']:
                skipped_build += 1
                ck.note('build failure %s/%s at %s: %s' % (cfgname, mname, inf['stage'], inf['errors'][-500:]))
                continue
            ctext = open(inf['c'], encoding='utf-8', errors='replace').read()
            names = [f['name'] for f in funcs if fmap[f['name']][0] == mname]
            bodies = creach.bodies_by_token(ctext, names)
            cases = []
            for fname in names:
                f = fmap[fname][1]
                hs = {h for h in creach.helpers_in(bodies.get(fname, ''))
                      if re.match(r'__Pyx_Py(Long|Float|Int)_\w*(ObjC|CObj|Compare)\w*|__Pyx_PyLong_BoolEqObjC|__Pyx_PyLong_\w*(Eq|Ne)\w*', h)}
                if not hs:
                    trivial.add(fname)
                for h in hs:
                    helpers_seen[h] = helpers_seen.get(h, 0) + 1
                tag = '%s/%s/%s%s' % (f['op'], f['form'], f['ckind'], '' if hs else '/unoptimised')
                ops = list(nums)
                if f['form'] in ('cx', 'bcx') and f['op'] in ('<<',):
                    ops = [e for e in nums if small_int_expr(e) or not re.match(r'^-?\d+$', e)]
                if f['ckind'] == 'float' and f['op'] in ('*',):
                    pass
                for e in ops:
                    cases.append({'f': fname, 'a': '(%s,)' % e, 't': tag})
                small_c = f['ckind'] != 'float' and abs(int(f['c'].strip('()'))) <= 8
                for e in nonnum:
                    if f['op'] == '*' and not small_c:
                        continue
                    cases.append({'f': fname, 'a': '(%s,)' % e, 't': tag})
            res = diff.run_cases(tree, d, mname, cases, ref=inf['src'], compare={'exc_args': False, 'log': False},
                                 tagdir='run_%s_%s' % (cfgname, mname), timeout=900)
            total_n += res.n
            total_distinct += res.distinct
            samples.extend(res.samples[:2])
            for k, v in res.hist.items():
                all_hist[k] = all_hist.get(k, 0) + v
                cells[k.split('|')[0]] = cells.get(k.split('|')[0], 0) + v
            for m in res.mismatches:
                f = fmap[m['case']['f']][1]
                key = classify(f, m['case'], m['exp'], m['got'])
                ck.discrepancy(key, '%s (%s, const %s) on %s: CPython %s, compiled %s' % (
                    f['op'], f['form'], f['c'], m['case']['a'], m['exp'], m['got']),
                    {'config': cfgname, 'cflags': cflags, 'function_source': f['src'], 'case': m['case'],
                     'expected': m['exp'], 'observed': m['got']})
            for c in res.crashes:
                f = fmap[c['case']['f']][1]
                ck.discrepancy('crash:%s:%s' % (OPNAME[f['op']], f['form']), 'crash/hang %s in %s' % (c['kind'], f['src']),
                               {'config': cfgname, 'function_source': f['src'], 'case': c['case'], 'stderr': c['stderr']})
            for ft in res.fatal:
                ck.inconclusive_if(True, 'driver failed for %s/%s: %s' % (cfgname, mname, str(ft)[-300:]))
    # reach floors: every operator x order cell observed with a non-trivial (optimised) case
    missing = []
    for op in OPS:
        for form in (['xc', 'cx', 'ip'] if op not in ('==', '!=') else ['xc', 'cx', 'bxc', 'bcx']):
            if not any(k.startswith('%s/%s/' % (op, form)) and not k.endswith('/unoptimised') for k in cells):
                missing.append('%s/%s' % (op, form))
    # cells where the compiler does not specialise at all on the unchanged tree are reported, not demanded
    ck.cov['cells_without_fast_path'] = missing
    optimised_cells = [k for k in cells if not k.endswith('/unoptimised')]
    ck.inconclusive_if(len(optimised_cells) < 20, 'fewer than 20 operator/form/constant-kind cells reached a fast path')
    ck.inconclusive_if(skipped_build > 0, '%d module build(s) failed' % skipped_build)
    nontrivial_funcs = len(funcs) - len(trivial)
    return ck.finish(
        total_n, total_distinct,
        'one function per (operator, constant, form in x op c / c op x / x op= c / truth-context compare); each called on '
        'digit-boundary ints, special floats, bools, int/float subclasses and non-numbers; compared with CPython executing '
        'the same source (type, repr, exception type). distinct = distinct (function, CPython outcome); a function is '
        'non-trivial when its generated C calls a __Pyx_PyLong/PyFloat *ObjC/*CObj/Compare helper',
        samples,
        extra={'functions': len(funcs), 'functions_with_fast_path': nontrivial_funcs, 'configs': [c[0] for c in configs],
               'helpers_reached': helpers_seen, 'cells': cells, 'operand_pool': len(nums) + len(nonnum),
               'outcome_hist_top': dict(sorted(all_hist.items(), key=lambda kv: -kv[1])[:40])},
        assumptions=['CPython 3.12.1 executing the identical source is the reference',
                     'exception message text is not compared (type only), as DESIGN C02 FA states'])
