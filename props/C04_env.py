"""Evaluation-side helpers of the C04 check, imported into the differential driver
(run_cases(setup='from props.C04_env import *')).

judge() is the property statement applied to one function and one operand list: every C integer operation of the
expression either has an exact result that fits its C result type - then the call must return exactly the value of the
whole expression, or may raise OverflowError (spurious, tolerated and counted) - or it does not fit, and then the call must
raise OverflowError.  The same judge is applied to the reference model and to the compiled module; the verdict lists are
compared by the driver.  Spurious-overflow counts of the compiled module are appended to the census file named by
$C04_CENSUS (they cannot be part of the compared value)."""
import json
import os

from props.C03_rows import CT, bounds, boundary, plist, row, fits

__all__ = ['CT', 'bounds', 'boundary', 'plist', 'row', 'fits', 'judge', 'census', 'ev', 'NoFit']


class NoFit(Exception):
    pass


def ev(n, args):
    """exact value of expression tree n on operand tuple args; NoFit when the result of some operation does not
    fit the C type of that operation.  Nodes: ('v', i) ('c', value) ('neg', x, type) (op, l, r, type), type = (bits, signed)"""
    k = n[0]
    if k == 'v':
        return args[n[1]]
    if k == 'c':
        return n[1]
    if k == 'neg':
        r = -ev(n[1], args)
        t = n[2]
    else:
        a = ev(n[1], args)
        b = ev(n[2], args)
        t = n[3]
        if k == '+':
            r = a + b
        elif k == '-':
            r = a - b
        elif k == '*':
            r = a * b
        elif k == '<<':
            if b < 0:
                raise NoFit()          # undefined in C, no mathematical integer in general: only an error is acceptable
            if a == 0:
                r = 0
            elif b > 200:
                raise NoFit()
            else:
                r = a << b
        elif k in ('//', '/'):
            r = a // b                 # zero divisors are never generated
        else:
            raise ValueError(k)
    if not fits(r, t[0], t[1]):
        raise NoFit()
    return r


def census(tag, ok, spurious, required, bad=0):
    path = os.environ.get('C04_CENSUS')
    if path:
        with open(path, 'a') as f:
            f.write(json.dumps({'t': tag, 'ok': ok, 'spur': spurious, 'req': required, 'bad': bad}) + '\n')
    return None


def judge(M, fname, ast, ps, pre=(), tag=''):
    f = getattr(M, fname)
    compiled = (getattr(M, '__file__', '') or '').endswith('.so')
    bad = []
    nok = nspur = nreq = nbad = 0
    for p in ps:
        try:
            exact = ev(ast, p)
            fit = True
        except NoFit:
            exact = None
            fit = False
        try:
            r = f(*pre, *p)
            raised = False
        except OverflowError:
            raised = True
            r = None
        except Exception as e:
            r = '!' + type(e).__name__
            raised = False
        if raised:
            if fit:
                nspur += 1
            else:
                nreq += 1
        elif fit and type(r) is int and r == exact:
            nok += 1
        else:
            nbad += 1
            if len(bad) < 25:
                bad.append((p, 'fits' if fit else 'nofit', r))
    if compiled:
        census(tag, nok, nspur, nreq, nbad)
    return (len(ps), nbad, bad)
