"""C33 Python <-> C/C++ value conversions round-trip or raise (DESIGN.md section 5, C33).

Round-trip functions `def a_fzNz(T x): return x` / `cdef T v = obj; return v` are generated for C targets (structs,
unions, arrays, char pointers; gcc) and C++ targets (std::string and libcpp containers, nested; g++), once per
c_string_type/c_string_encoding configuration. The reference model (vlib/ref/c33ref.py) predicts the Python value after
from_py + to_py, or the exception class. Values are generated per type with boundary elements and one injected
invalid element at a chosen position."""
import os
import re

from vlib import core, cy, diff
from vlib.ref import c33ref

CONFIGS = [('default', {}, {'type': 'bytes', 'enc': ''}),
           ('str_utf8', {'c_string_type': 'str', 'c_string_encoding': 'utf8'}, {'type': 'str', 'enc': 'utf8'}),
           ('str_ascii', {'c_string_type': 'str', 'c_string_encoding': 'ascii'}, {'type': 'str', 'enc': 'ascii'}),
           ('bytearray', {'c_string_type': 'bytearray'}, {'type': 'bytearray', 'enc': ''})]

I = lambda t='int': ('i', t)
DBL = ('f', 'double')
FLT = ('f', 'float')
STR = ('str',)

C_TYPES = [I('int'), I('unsigned char'), I('signed char'), I('short'), I('unsigned short'), I('unsigned int'), I('long long'),
           I('unsigned long long'), I('size_t'), I('Py_ssize_t'), DBL, FLT,
           ('struct', 'Pt'), ('struct', 'Mix'), ('struct', 'Nest'), ('struct', 'WArr'), ('struct', 'Deep'), ('struct', 'WStr'),
           ('union', 'U4'), ('arr', I('int'), 3), ('arr', DBL, 2), ('arr', ('arr', DBL, 3), 2), ('arr', ('struct', 'Pt'), 2),
           ('arr', I('unsigned short'), 5),
           ('charp', 'char*'), ('charp', 'const char*'), ('charp', 'unsigned char*')]

CPP_TYPES_CORE = [
    STR, ('vec', I('int')), ('vec', DBL), ('vec', STR), ('vec', ('vec', I('int'))), ('vec', I('unsigned char')),
    ('lst', I('int')), ('lst', STR), ('set', I('int')), ('set', STR), ('uset', I('long long')), ('uset', STR),
    ('map', I('int'), I('int')), ('map', STR, I('int')), ('map', STR, ('vec', ('pair', I('int'), DBL))),
    ('umap', I('int'), STR), ('umap', STR, ('vec', I('int'))), ('pair', I('int'), DBL), ('pair', STR, ('pair', I('int'), I('int'))),
    ('cplx', 'double'), ('cplx', 'float'), ('vec', ('cplx', 'double')), ('vec', ('struct', 'Pt')), ('map', STR, ('struct', 'Pt')),
    ('vec', ('pair', STR, I('int'))), ('set', ('pair', I('int'), I('int'))), ('map', ('pair', I('int'), I('int')), STR),
    ('vec', ('set', I('int'))), ('lst', ('map', I('int'), I('int'))), ('map', I('short'), ('set', STR)),
    ('pair', ('vec', I('int')), ('map', I('int'), DBL)), ('vec', FLT), ('set', DBL), ('vec', I('unsigned long long')),
    ('umap', I('unsigned int'), ('pair', STR, STR)), ('vec', ('struct', 'Mix')), ('map', I('int'), ('struct', 'WArr')),
]


def ordered_ok(T):
    """usable as std::set element / std::map key (operator<) and hashable after to_py"""
    if T[0] in ('i', 'str'):
        return True
    if T[0] == 'pair':
        return ordered_ok(T[1]) and ordered_ok(T[2])
    return False


def hash_ok(T):
    return T[0] in ('i', 'str')


def rand_type(rng, depth):
    leaf = [I('int'), I('short'), I('unsigned int'), I('long long'), I('unsigned char'), DBL, FLT, STR, ('cplx', 'double'),
            ('struct', 'Pt')]
    if depth <= 0 or rng.random() < 0.25:
        return rng.choice(leaf)
    k = rng.choice(['vec', 'vec', 'lst', 'set', 'uset', 'map', 'map', 'umap', 'pair'])
    if k in ('vec', 'lst'):
        return (k, rand_type(rng, depth - 1))
    if k == 'pair':
        return (k, rand_type(rng, depth - 1), rand_type(rng, depth - 1))
    keys_o = [I('int'), I('short'), I('long long'), STR, ('pair', I('int'), I('int')), ('pair', STR, I('int'))]
    keys_h = [I('int'), I('unsigned int'), I('long long'), STR]
    if k == 'set':
        return (k, rng.choice(keys_o))
    if k == 'uset':
        return (k, rng.choice(keys_h))
    if k == 'map':
        return (k, rng.choice(keys_o), rand_type(rng, depth - 1))
    return (k, rng.choice(keys_h), rand_type(rng, depth - 1))


TYPEDEFS = {'unsigned char': 'u_char', 'signed char': 's_char', 'unsigned short': 'u_short', 'unsigned int': 'u_int',
            'long long': 'l_long', 'unsigned long long': 'ul_long', 'unsigned long': 'u_long'}
TYPEDEF_DECLS = ''.join('ctypedef %s %s\n' % kv for kv in TYPEDEFS.items())


def cyt(T, nested=False):
    k = T[0]
    if k in ('i', 'f'):
        # multi-word C type names are not accepted by the parser in every template-argument position
        return TYPEDEFS.get(T[1], T[1]) if nested else T[1]
    if k == 'str':
        return 'string'
    if k == 'charp':
        return T[1]
    if k == 'cplx':
        return 'cpp_complex[%s]' % T[1]
    if k in ('vec', 'lst', 'set', 'uset'):
        return '%s[%s]' % ({'vec': 'vector', 'lst': 'cpp_list', 'set': 'cpp_set', 'uset': 'unordered_set'}[k], cyt(T[1], True))
    if k in ('map', 'umap'):
        return '%s[%s, %s]' % ({'map': 'cpp_map', 'umap': 'unordered_map'}[k], cyt(T[1], True), cyt(T[2], True))
    if k == 'pair':
        return 'pair[%s, %s]' % (cyt(T[1], True), cyt(T[2], True))
    if k in ('struct', 'union'):
        return T[1]
    if k == 'arr':
        base, dims = T, []
        while base[0] == 'arr':
            dims.append(base[2])
            base = base[1]
        return cyt(base) + ''.join('[%d]' % d for d in dims)
    raise ValueError(T)


def kind_name(T):
    k = T[0]
    if k == 'i':
        return 'int'
    if k == 'f':
        return T[1]
    return k


def struct_decls():
    out = []
    order = ['Pt', 'Mix', 'Nest', 'WArr', 'Deep', 'WStr']
    for name in order:
        out.append('cdef struct %s:' % name)
        for f, t in c33ref.STRUCTS[name]:
            out.append('    %s %s' % (cyt(t), f))
        out.append('')
    for name, members in c33ref.UNIONS.items():
        out.append('cdef union %s:' % name)
        for f, t in members:
            out.append('    %s %s' % (cyt(t), f))
        out.append('')
    return '\n'.join(out)


CPP_IMPORTS = '''from libcpp.string cimport string
from libcpp.vector cimport vector
from libcpp.list cimport list as cpp_list
from libcpp.set cimport set as cpp_set
from libcpp.unordered_set cimport unordered_set
from libcpp.map cimport map as cpp_map
from libcpp.unordered_map cimport unordered_map
from libcpp.pair cimport pair
from libcpp.complex cimport complex as cpp_complex
'''


class Fn:
    def __init__(self, n, T, form):
        self.n, self.T, self.form = n, T, form
        self.name = 'fz%dz' % n

    def pyx(self):
        t = cyt(self.T)
        if self.form == 'a':
            return 'def %s(%s x):\n    return x\n' % (self.name, t)
        return 'def %s(obj):\n    cdef %s v = obj\n    return v\n' % (self.name, t)

    def ref(self):
        return 'def %s(x):\n    return RT(%r, x, CFG)\n' % (self.name, self.T)


# ------------------------------------------------------------------------------------------------ values
STR_POOL_B = ["b''", "b'abc'", "b'a\\x00b'", "b'\\xff\\xfe'", "b'caf\\xc3\\xa9'", "bytearray(b'xy')", "b'\\x00'", "b'z' * 40"]
STR_POOL_U = ["''", "'abc'", "'h\\xe9llo'", "'\\u20ac\\U0001f600'", "'\\ud800'", "'a\\x00b'", "'q' * 33"]
FLOAT_POOL = ['0.0', '-0.0', '1.5', '-2.25', '1e308', '5e-324', 'inf', '-inf', 'nan', '3', '1e39', '16777217.0', '0.1', 'True']
CPLX_POOL = ['0j', '(1.5-2j)', '2.0', '3', 'complex(inf, -0.0)', 'complex(nan, 1)', '(1e39+0.1j)', 'True']


class Gen:
    """value expression generator with at most one injected fault; records where the fault went"""

    def __init__(self, rng, cfg):
        self.rng, self.cfg = rng, cfg
        self.fault = None       # set to dict when a fault has been placed
        self.allow_tracked = True

    def int_text(self, ct, in_container_key=False):
        lo, hi = c33ref.INT_RANGE[ct]
        r = self.rng
        w = r.random()
        if w < 0.35:
            v = r.choice([lo, hi, 0, 1, hi - 1, lo + 1 if lo else 2])
        elif w < 0.5:
            v = r.choice([-1, 255, 256, 65535, 65536, 2 ** 31 - 1, -2 ** 31, 2 ** 31, 2 ** 32 - 1, 2 ** 63 - 1])
            v = min(max(v, lo), hi)
        else:
            v = r.randint(max(lo, -1000), min(hi, 1000)) if r.random() < 0.6 else r.randint(lo, hi)
        if not in_container_key and r.random() < 0.03:
            return repr(bool(v & 1))
        return repr(v)

    def str_text(self, key=False):
        r = self.rng
        if self.cfg['enc']:
            pool = STR_POOL_U + STR_POOL_B[:5]
        else:
            pool = STR_POOL_B + (STR_POOL_U[1:2] if r.random() < 0.1 else [])
        t = r.choice(pool)
        if key and t.startswith('bytearray'):
            t = "b'xy'"
        return t

    def fault_text(self, T, path, key=False):
        r = self.rng
        k = T[0]
        opts = []
        if k == 'i':
            lo, hi = c33ref.INT_RANGE[T[1]]
            opts = [("'x'", 'wrong-type'), ('None', 'wrong-type'), ('[1]', 'wrong-type'), (repr(hi + 1), 'out-of-range'),
                    (repr(lo - 1), 'out-of-range'), ('2**70', 'out-of-range'), ('-2**70', 'out-of-range')]
        elif k == 'f':
            opts = [("'1.5'", 'wrong-type'), ('None', 'wrong-type'), ('[]', 'wrong-type'), ('2**2000', 'out-of-range'), ('1j', 'wrong-type')]
        elif k in ('str', 'charp'):
            opts = [('12', 'wrong-type'), ('None', 'wrong-type'), ("['a']", 'wrong-type'), ('1.5', 'wrong-type'),
                    ("memoryview(b'ab')", 'wrong-type')]
            opts.append(("'\\ud800x'" if self.cfg['enc'] else "'text'", 'unencodable-text'))
            if self.cfg['enc'] == 'ascii':
                opts.append(("'\\xe9'", 'unencodable-text'))
            if self.cfg['type'] == 'str':
                opts.append(("b'\\xff\\xc0'", 'undecodable-bytes'))
        elif k == 'cplx':
            opts = [("'1j'", 'wrong-type'), ('None', 'wrong-type'), ('[1]', 'wrong-type')]
        elif k in ('vec', 'lst', 'set', 'uset'):
            opts = [('5', 'not-iterable'), ('None', 'not-iterable'), ('IterRaises(%d)' % r.choice([0, 1, 3]), 'iterable-raises')]
        elif k in ('map', 'umap'):
            opts = [('[1, 2]', 'not-a-mapping'), ('5', 'not-a-mapping'), ('None', 'not-a-mapping'), ('[(1, 2)]', 'not-a-mapping')]
        elif k == 'pair':
            opts = [('(1,)', 'wrong-length'), ('(1, 2, 3)', 'wrong-length'), ('5', 'not-iterable'), ('None', 'not-iterable'), ('()', 'wrong-length')]
        elif k == 'struct':
            fields = c33ref.STRUCTS[T[1]]
            full = {f: Gen(r, self.cfg).gen(t) for f, t in fields}
            miss = r.choice(fields)[0]
            opts = [('{%s}' % ', '.join('%r: %s' % (f, v) for f, v in full.items() if f != miss), 'missing-key'),
                    ('5', 'not-a-mapping'), ('None', 'not-a-mapping'), ('{}', 'missing-key'),
                    ('[%s]' % ', '.join(full.values()), 'not-a-mapping')]
        elif k == 'union':
            ms = c33ref.UNIONS[T[1]]
            opts = [('{}', 'missing-key'), ("{'%s': 1, '%s': 2}" % (ms[0][0], ms[1][0]), 'extra-key'), ("{'zz': 1}", 'missing-key'),
                    ('5', 'not-a-mapping'), ("{'%s': 1, 'zz': 2}" % ms[0][0], 'extra-key')]
        elif k == 'arr':
            n = T[2]
            g = Gen(r, self.cfg)
            opts = [('[%s]' % ', '.join(g.gen(T[1]) for _ in range(n - 1)), 'wrong-length'),
                    ('[%s]' % ', '.join(g.gen(T[1]) for _ in range(n + 1)), 'wrong-length'),
                    ('5', 'not-iterable'), ('IterRaises(%d)' % r.choice([0, n]), 'iterable-raises'),
                    ('iter([%s])' % ', '.join(g.gen(T[1]) for _ in range(n + 1)), 'wrong-length'),
                    ('iter([%s])' % ', '.join(g.gen(T[1]) for _ in range(n - 1)), 'wrong-length')]
        if k in ('i', 'f', 'str', 'cplx') and path and self.allow_tracked and not key and r.random() < 0.2:
            opts = [('TRK', 'tracked-wrong-type')]
        text, kind = r.choice(opts)
        self.fault = {'at': kind_name(T), 'kind': kind, 'path': path}
        return text

    def gen(self, T, want_fault=False, path=(), key=False):
        r = self.rng
        k = T[0]
        leaf = k in ('i', 'f', 'str', 'charp', 'cplx')
        if want_fault and (leaf or r.random() < 0.3):
            return self.fault_text(T, path, key)
        if k == 'i':
            return self.int_text(T[1], key)
        if k == 'f':
            t = r.choice(FLOAT_POOL)
            if key and t in ('nan', 'inf', '-inf', 'True', '-0.0'):
                t = '2.5'
            return t if r.random() < 0.7 else repr(r.uniform(-1e6, 1e6))
        if k in ('str', 'charp'):
            return self.str_text(key)
        if k == 'cplx':
            return r.choice(CPLX_POOL)
        if k in ('vec', 'lst', 'set', 'uset'):
            n = r.choice([0, 1, 2, 3, 5]) if not want_fault else r.choice([1, 2, 3, 5])
            fpos = None
            if want_fault:
                pc = r.choice(['first', 'middle', 'last'])
                fpos = {'first': 0, 'middle': n // 2, 'last': n - 1}[pc]
                path = path + (pc,)
            iskey = key or k in ('set', 'uset')
            items = [self.gen(T[1], want_fault and i == fpos, path, iskey) for i in range(n)]
            if k in ('set', 'uset') and r.random() < 0.6 and T[1][0] != 'f':
                hashable = all(not it.startswith(('[', '{', 'bytearray', 'IterRaises', 'iter(')) for it in items)
                if hashable:
                    return '{%s}' % ', '.join(items) if items else 'set()'
            w = r.random()
            if w < 0.6:
                return '[%s]' % ', '.join(items)
            if w < 0.8:
                return '(%s)' % ''.join(it + ', ' for it in items)
            return 'iter([%s])' % ', '.join(items)
        if k in ('map', 'umap'):
            n = r.choice([0, 1, 2, 4]) if not want_fault else r.choice([1, 2, 4])
            fpos, inkey = None, False
            if want_fault:
                pc = r.choice(['first', 'middle', 'last'])
                fpos = {'first': 0, 'middle': n // 2, 'last': n - 1}[pc]
                inkey = r.random() < 0.4
                path = path + (pc + ('-key' if inkey else '-value'),)
            items = []
            for i in range(n):
                kt = self.gen(T[1], want_fault and i == fpos and inkey, path, True)
                if kt.startswith(('[', '{', 'bytearray')):      # the Python dict literal needs a hashable key
                    kt = "('unhashable-replaced',)"
                vt = self.gen(T[2], want_fault and i == fpos and not inkey, path)
                items.append('%s: %s' % (kt, vt))
            return '{%s}' % ', '.join(items)
        if k == 'pair':
            which = r.randrange(2) if want_fault else None
            if want_fault:
                path = path + ('first' if which == 0 else 'last',)
            a = self.gen(T[1], which == 0, path, key)
            b = self.gen(T[2], which == 1, path, key)
            return '(%s, %s)' % (a, b) if r.random() < 0.8 else '[%s, %s]' % (a, b)
        if k == 'struct':
            fields = list(c33ref.STRUCTS[T[1]])
            which = r.randrange(len(fields)) if want_fault else None
            if want_fault:
                path = path + ('first' if which == 0 else 'last' if which == len(fields) - 1 else 'middle',)
            vals = [(f, self.gen(t, i == which, path)) for i, (f, t) in enumerate(fields)]
            if r.random() < 0.3:
                r.shuffle(vals)
            if r.random() < 0.15:
                vals.append(('extra_key', '1'))
            return '{%s}' % ', '.join('%r: %s' % fv for fv in vals)
        if k == 'union':
            f, t = r.choice(c33ref.UNIONS[T[1]])
            if t[0] == 'f':
                return '{%r: %s}' % (f, r.choice(['0.0', '1.5', '-2.25', '1e39', '3']))
            return '{%r: %s}' % (f, self.gen(t, want_fault, path))
        if k == 'arr':
            n = T[2]
            fpos = None
            if want_fault:
                pc = r.choice(['first', 'middle', 'last'])
                fpos = {'first': 0, 'middle': n // 2, 'last': n - 1}[pc]
                path = path + (pc,)
            items = [self.gen(T[1], want_fault and i == fpos, path) for i in range(n)]
            w = r.random()
            if w < 0.6:
                return '[%s]' % ', '.join(items)
            if w < 0.85:
                return '(%s)' % ''.join(it + ', ' for it in items)
            return 'iter([%s])' % ', '.join(items)
        raise ValueError(T)


def gen_cases(ck, fn, rng, cfg, nvals, poshist, faulthist):
    cases = []
    for i in range(nvals):
        g = Gen(rng, cfg)
        want_fault = rng.random() < 0.45
        text = g.gen(fn.T, want_fault)
        c = {'x': 'N(M.%s(%s))' % (fn.name, text), 't': '%s/%s' % (kind_name(fn.T), fn.form), 'fn': fn.name}
        if g.fault and g.fault['kind'] == 'tracked-wrong-type':
            c['x'] = 'LEAK(M.%s, lambda TRK: %s)' % (fn.name, text)
        if g.fault:
            c['fault'] = '%s:%s' % (g.fault['at'], g.fault['kind'])
            faulthist[c['fault']] = faulthist.get(c['fault'], 0) + 1
            for p in g.fault['path']:
                pk = p.split('-')[0]
                poshist[pk] = poshist.get(pk, 0) + 1
        cases.append(c)
    return cases


EXC_FAMILY = {'UnicodeEncodeError': 'UnicodeError', 'UnicodeDecodeError': 'UnicodeError', 'UnicodeError': 'UnicodeError'}


def classify(fn, case, exp, got, cfgname, lang):
    ek = exp[0] + ':' + (exp[1][0] if exp[0] == 'ok' else exp[1])
    gk = got[0] + ':' + (got[1][0] if got[0] == 'ok' else got[1])
    if ek == 'exc:TypeError' and gk == 'exc:AttributeError' and (all_kinds(fn.T, set()) & {'map', 'umap'}):
        # an element that is not a mapping reached map.from_py (whatever fault was injected elsewhere)
        return 'cpp:map.from_py:object-without-items:exc:TypeError->exc:AttributeError'
    fault = case.get('fault')
    where = kind_name(fn.T) if not fault else 'at'
    cfg_matters = fn_uses_strings(fn.T) if not fault else fault.split(':')[0] in ('str', 'charp')
    return '%s:%s:%s:fault=%s:%s->%s' % (lang, where, cfgname if cfg_matters else 'anycfg', fault or 'none', ek, gk)


def fn_uses_strings(T):
    if T[0] in ('str', 'charp'):
        return True
    if T[0] == 'struct':
        return any(fn_uses_strings(t) for _, t in c33ref.STRUCTS[T[1]])
    return any(fn_uses_strings(t) for t in T[1:] if isinstance(t, tuple))


def all_kinds(T, acc):
    acc.add(T[0])
    if T[0] == 'struct':
        for _, t in c33ref.STRUCTS[T[1]]:
            all_kinds(t, acc)
    for t in T[1:]:
        if isinstance(t, tuple):
            all_kinds(t, acc)
    return acc


SETUP = 'from vlib.ref.c33ref import N, LEAK\n'


def make_modules(ck):
    rng = ck.rng('types')
    cpp_types = list(CPP_TYPES_CORE)
    seen = set(cpp_types)
    want = ck.pick(0, 50)
    tries = 0
    while want > 0 and tries < 2000:
        tries += 1
        T = rand_type(rng, 3)
        if T in seen or T[0] in ('i', 'f', 'str', 'cplx', 'struct'):
            continue
        seen.add(T)
        cpp_types.append(T)
        want -= 1
    if ck.quick:
        keep = set(rng.sample(range(len(cpp_types)), 26))
        must = {0, 1, 3, 4, 6, 8, 10, 12, 14, 15, 17, 19, 22}
        cpp_types = [t for i, t in enumerate(cpp_types) if i in keep or i in must]
    c_types = list(C_TYPES)
    fns = {'c': [], 'cpp': []}
    n = 0
    for lang, types in (('c', c_types), ('cpp', cpp_types)):
        for T in types:
            forms = ['v'] if T[0] == 'arr' else (['a', 'v'] if rng.random() < ck.pick(0.3, 0.5) else ['a'])
            for form in forms:
                fns[lang].append(Fn(n, T, form))
                n += 1
    return fns


def main(ck):
    tree = cy.Tree('C33')
    fns = make_modules(ck)
    configs = CONFIGS if not ck.quick else CONFIGS
    mods = {}       # (lang, cfgname) -> (modname, builddir, info)
    sdecl = struct_decls()
    for lang in ('c', 'cpp'):
        text = '# cython: language_level=3\n' + (CPP_IMPORTS if lang == 'cpp' else '') + '\n' + TYPEDEF_DECLS + sdecl + '\n' + \
            '\n'.join(f.pyx() for f in fns[lang])
        for cfgname, directives, cfg in configs:
            name = 'c33%s_%s' % (lang, cfgname)
            d, info = None, None
            mods[(lang, cfgname)] = [name, text, directives, cfg]
    # build: C modules and C++ modules in two batches (different compilers), all configurations in parallel
    from concurrent.futures import ThreadPoolExecutor

    def build(item):
        (lang, cfgname), (name, text, directives, cfg) = item
        d, info = tree.build_sources({name: text}, subdir='b_%s_%s' % (lang, cfgname), ext='.pyx', directives=directives,
                                     cplus=(lang == 'cpp'))
        return (lang, cfgname), d, info[name]

    with ThreadPoolExecutor(8) as ex:
        built = list(ex.map(build, mods.items()))
    skipped = 0
    converters = {}
    poshist, faulthist = {}, {}
    total_n = total_distinct = 0
    samples = []
    cells = {}
    outcomes = {}
    unicode_family_accepted = 0
    runs = []
    for (lang, cfgname), d, inf in built:
        name, text, directives, cfg = mods[(lang, cfgname)]
        if not inf['ok']:
            skipped += 1
            ck.note('build failure %s at %s: %s' % (name, inf['stage'], inf['errors'][-800:]))
            continue
        ctext = open(inf['c'], encoding='utf-8', errors='replace').read()
        for m in set(re.findall(r'\b(__pyx_convert_\w+?)\(', ctext)):
            converters[m] = converters.get(m, 0) + 1
        refp = os.path.join(d, name + '_ref.py')
        with open(refp, 'w') as f:
            f.write('from vlib.ref.c33ref import RT\nCFG = %r\n\n' % (cfg,) + '\n'.join(fn.ref() for fn in fns[lang]))
        rng = ck.rng('vals:%s:%s' % (lang, cfgname))
        cases = []
        for fn in fns[lang]:
            nv = ck.pick(40, 400)
            if not fn_uses_strings(fn.T) and cfgname != 'default':
                nv = max(4, nv // 8)        # configuration only changes string handling
            cases += gen_cases(ck, fn, rng, cfg, nv, poshist, faulthist)
        runs.append((lang, cfgname, name, d, refp, cases))

    def run_one(r):
        lang, cfgname, name, d, refp, cases = r
        return diff.run_cases(tree, d, name, cases, ref=refp, setup=SETUP, compare={'exc_args': False, 'log': False},
                              tagdir='run_' + name, timeout=ck.pick(900, 2400), nproc=max(1, core.NCPU // 4))

    with ThreadPoolExecutor(4) as ex:
        results = list(ex.map(run_one, runs))
    fnmap = {f.name: (lang, f) for lang in fns for f in fns[lang]}
    for (lang, cfgname, name, d, refp, cases), res in zip(runs, results):
        total_n += res.n
        total_distinct += res.distinct
        samples.extend(res.samples[:1])
        for k, v in res.hist.items():
            tag, cls = k.split('|', 1)
            cells['%s/%s' % (lang, tag)] = cells.get('%s/%s' % (lang, tag), 0) + v
            outcomes[cls] = outcomes.get(cls, 0) + v
        for m in res.mismatches:
            case, exp, got = m['case'], m['exp'], m['got']
            fn = fnmap[case['fn']][1]
            if exp[0] == 'exc' and got[0] == 'exc' and EXC_FAMILY.get(exp[1]) and EXC_FAMILY.get(exp[1]) == EXC_FAMILY.get(got[1]):
                unicode_family_accepted += 1
                continue
            key = classify(fn, case, exp, got, cfgname, lang)
            ck.discrepancy(key, '%s %s [%s] %s: model %s, compiled %s' % (lang, cyt(fn.T), cfgname, case['x'][:200], str(exp)[:160], str(got)[:160]),
                           witness(fn, case, exp, got, lang, cfgname, mods))
        for c in res.crashes:
            fn = fnmap[c['case']['fn']][1]
            if c['kind'] == 'HANG':      # watchdog under machine load is not evidence of a defect
                ck.inconclusive_if(True, 'watchdog fired in %s' % name)
                continue
            ck.discrepancy('crash:%s:%s:fault=%s' % (lang, kind_name(fn.T), c['case'].get('fault', 'none')),
                           'crash/hang %s in %s on %s' % (c['kind'], cyt(fn.T), c['case']['x'][:200]),
                           witness(fn, c['case'], None, None, lang, cfgname, mods, stderr=c['stderr']))
        for ft in res.fatal:
            ck.inconclusive_if(True, 'driver failed for %s: %s' % (name, str(ft)[-400:]))
    # reach
    ck.inconclusive_if(skipped > 0, '%d module build(s) failed' % skipped)
    kinds = set()
    for lang in fns:
        for f in fns[lang]:
            all_kinds(f.T, kinds)
    need = {'vector_from_py': 'vec', 'vector_to_py': 'vec', 'list_from_py': 'lst', 'set_from_py': 'set', 'unordered_set_from_py': 'uset',
            'map_from_py': 'map', 'unordered_map_from_py': 'umap', 'pair_from_py': 'pair', 'string_from_py': 'str',
            'complex_from_py': 'cplx'}
    missing = [n for n in need if not any(n in c for c in converters)]
    ck.inconclusive_if(bool(missing), 'converter families absent from the generated C: %s' % missing)
    ck.inconclusive_if(not any('__pyx_convert__from_py_' in c for c in converters), 'struct from_py converter absent')
    for p in ('first', 'middle', 'last'):
        ck.inconclusive_if(poshist.get(p, 0) < 5, 'invalid element never injected at position class %r' % p)
    return ck.finish(
        total_n, total_distinct,
        'one evaluation = one round trip (from_py then to_py) of a generated value compared with the model outcome (normalised value '
        'or exception class); distinct_nontrivial = distinct (function, model outcome) pairs; every function converts through a '
        'generated __pyx_convert_* helper (static presence per family required)',
        samples,
        extra={'functions': {k: len(v) for k, v in fns.items()}, 'configs': [c[0] for c in configs],
               'target_types': {lang: sorted({cyt(f.T) for f in fns[lang]}) for lang in fns},
               'converter_functions_present': len(converters), 'converter_families': sorted({re.sub(r'(_from_py_|_to_py_).*', r'\1', c) for c in converters})[:60],
               'invalid_element_position_hist': poshist, 'fault_kinds': dict(sorted(faulthist.items())),
               'cells': dict(sorted(cells.items())), 'outcome_classes': outcomes,
               'unicode_encode_vs_decode_error_same_family': unicode_family_accepted},
        assumptions=['the reference model (vlib/ref/c33ref.py) transcribes the documented conversion rules: list for vector/list, set for '
                     'set/unordered_set, dict for map/struct, tuple for pair, bytes/str/bytearray per c_string_type, char* truncated at NUL',
                     'exception classes compared exactly except within the UnicodeError family; messages not compared',
                     'float elements are not offered to integer targets (C05 owns int conversion of non-int objects)',
                     'wrong C array length raises IndexError (as the carray utility and its tests define)',
                     'extra keys in a dict converted to a struct are ignored (documented behaviour of struct coercion)'])


def witness(fn, case, exp, got, lang, cfgname, mods, stderr=None):
    name, text, directives, cfg = mods[(lang, cfgname)]
    src = '# cython: language_level=3\n' + (CPP_IMPORTS if lang == 'cpp' else '') + '\n' + TYPEDEF_DECLS + struct_decls() + '\n' + fn.pyx()
    w = {'module_source': src, 'ext': '.pyx', 'cplus': lang == 'cpp', 'directives': directives, 'cflags': [],
         'case': {k: v for k, v in case.items() if k in ('x', 't')}, 'expected': exp, 'observed': got,
         'ref_source': 'from vlib.ref.c33ref import RT\nCFG = %r\n\n%s' % (cfg, fn.ref()), 'setup': SETUP,
         'compare': {'exc_args': False, 'log': False}, 'target_type': cyt(fn.T), 'config': cfgname}
    if stderr:
        w['stderr'] = stderr[-1500:]
    return w


def replay(ck, data):
    w = data.get('witness', data)
    tree = cy.Tree('C33r')
    d, info = tree.build_sources({'replaymod': w['module_source']}, subdir='r', ext='.pyx', directives=w.get('directives'),
                                 cplus=bool(w.get('cplus')))
    inf = info['replaymod']
    if not inf['ok']:
        print('build failed', inf['errors'][-1500:])
        return 2
    rp = os.path.join(d, 'replaymod_ref.py')
    open(rp, 'w').write(w['ref_source'])
    res = diff.run_cases(tree, d, 'replaymod', [w['case']], ref=rp, setup=w.get('setup', SETUP),
                         compare={'exc_args': False, 'log': False}, nproc=1)
    for m in res.mismatches:
        print('case    ', w['case'])
        print('expected', m['exp'])
        print('observed', m['got'])
    for c in res.crashes:
        print('crash', c['kind'], c['stderr'][-1200:])
    for ft in res.fatal:
        print('driver failure', ft)
    if res.mismatches or res.crashes:
        print('VIOLATION property=%s replay=<replayed>' % ck.pid)
        return 1
    print('replay: case agrees with the model now (%d evaluated)' % res.n)
    return 0 if res.n else 2
