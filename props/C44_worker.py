"""C44 part (a): feed generated start-sorted position lists to the real LineTable.build_line_table
(interpreted, from the source mirror) and decode the produced bytes with CPython's own decoder
(code.replace(co_linetable=...).co_positions()).  Runs in a subprocess with the mirror on PYTHONPATH.

usage: python -m props.C44_worker spec.json out.json
spec = {mirror, seed, chunk, n_lists, max_len, explicit: [[positions, firstlineno], ...]}
"""
import json
import os
import random
import sys

COLS = list(range(0, 16)) + [63, 64, 72, 78, 79, 80, 81, 111, 112, 126, 127, 128, 129, 255, 1000, 4095, 4096, 70000]
WIDTHS = [0, 1, 2, 7, 14, 15, 16, 17, 47, 48, 200]
LINE_DELTAS = [0, 0, 0, 0, 1, 1, 2, 3, 4, 31, 32, 63, 64, 1000, 4096, 100000]
SPANS = [1, 1, 2, 3, 31, 32, 50, 64, 5000]
FORM_OF_CODE = {10: 'oneline0', 11: 'oneline1', 12: 'oneline2', 13: 'nocolumns', 14: 'long', 15: 'none'}


def _dummy():
    pass


def decode_with_cpython(table, firstlineno, n):
    """The oracle: CPython's own line-table decoder."""
    code = _dummy.__code__.replace(co_linetable=table, co_firstlineno=firstlineno, co_code=b'\x00\x00' * max(n, 1))
    return [tuple(p) for p in code.co_positions()]


def forms_in(table):
    out = []
    for b in table:
        if b & 128:
            c = (b >> 3) & 15
            out.append(FORM_OF_CODE.get(c, 'short'))
    return out


def spec_form(pos, last_start):
    """Form CPython's format *allows* for this entry relative to the previous start line (cheapest first)."""
    sl, el, sc, ec = pos
    d = sl - last_start
    if sl == el:
        if d == 0 and sc < 80 and 0 <= ec - sc < 16:
            return 'short'
        if 0 <= d < 3 and sc < 128 and ec < 128:
            return 'oneline%d' % d
    return 'long'


def gen_list(rng, max_len):
    """One start-sorted list of (start line, end line, start col, end col) and a firstlineno."""
    mode = rng.random()
    multiline_p = 0.0 if mode < 0.55 else rng.choice([0.03, 0.15, 0.5])
    overlap_p = rng.choice([0.0, 0.0, 0.3])
    sort_cols = rng.random() < 0.7
    r = rng.random()
    if r < 0.08:
        n = rng.randint(0, 2)
    elif r < 0.75:
        n = rng.randint(1, min(max_len, 24))
    else:
        n = rng.randint(1, max_len)
    first = rng.choice([1, 1, 2, 3, 10, 127, 128, 1000, 65535, 65536, 10 ** 6])
    line = first + rng.choice([0, 0, 0, 1, 2, 3, 7])
    col = 0
    out = []
    prev_end = line
    dense = rng.random() < 0.5      # many entries per line with small columns (reaches the short form often)
    for _ in range(n):
        d = 0 if (dense and rng.random() < 0.7) else rng.choice(LINE_DELTAS)
        if out and prev_end > line and rng.random() >= overlap_p:
            # start after the previous (multi-line) span has ended
            line = prev_end + d
        else:
            line = line + d
        if d != 0:
            col = 0
        if sort_cols:
            sc = col + (rng.choice([0, 1, 1, 2, 3, 4, 8]) if (dense or rng.random() < 0.6) else rng.choice(COLS))
            if rng.random() < 0.12:
                sc = rng.choice(COLS)
        else:
            sc = rng.choice(COLS) if rng.random() < 0.7 else rng.randint(0, 140)
        if rng.random() < multiline_p:
            el = line + rng.choice(SPANS)
            ec = rng.choice(COLS) if rng.random() < 0.5 else rng.randint(0, 30)
        else:
            el = line
            w = rng.choice(WIDTHS) if rng.random() < 0.6 else rng.randint(0, 20)
            if rng.random() < 0.15:     # aim at the 127/128 boundary of the one-line form
                w = max(0, rng.choice([126, 127, 128]) - sc)
            ec = sc + w
        out.append((line, el, sc, ec))
        prev_end = el
        col = sc if sort_cols and sc < 300 else col
    return out, first


def drift_model(positions):
    """What CPython decodes if the encoder takes the previous END line as the base of the next delta."""
    out = []
    drift = 0
    for (sl, el, sc, ec) in positions:
        out.append((sl - drift, el - drift, sc, ec))
        drift += el - sl
    return out


def classify(positions, first, decoded, error):
    """Mechanism key of a discrepancy (structural features only)."""
    last = first
    multi_before = False
    if error is not None:
        etype = error.split(':', 1)[0]
        # which entry would have tripped: the first whose start lies before the previous end line
        if etype == 'AssertionError':
            prev_end = first
            prev_multi = False
            for p in positions:
                if p[0] < prev_end:
                    if prev_multi:
                        return 'encoder:after-multiline-span:assert'
                    return 'encoder:assert:%s' % spec_form(p, last)
                prev_multi = p[1] > p[0]
                prev_end = p[1]
                last = p[0]
            return 'encoder:assert:unexplained'
        return 'encoder:exception:%s' % etype
    exp = [tuple(p) for p in positions]
    dm = drift_model(positions)
    if decoded == dm and dm != exp:
        return 'encoder:after-multiline-span:line-base'
    if len(decoded) != len(exp):
        return 'encoder:entry-count'

    def prefix(model):
        k = 0
        while k < len(model) and model[k] == decoded[k]:
            k += 1
        return k
    k_exact, k_drift = prefix(exp), prefix(dm)
    model, k = (exp, k_exact) if k_exact >= k_drift else (dm, k_drift)
    last = first if k == 0 else positions[k - 1][0]
    form = spec_form(positions[k], last)
    fields = [nm for nm, a, b in zip(('line', 'endline', 'col', 'endcol'), model[k], decoded[k]) if a != b]
    return 'encoder:%s:%s' % (form, '+'.join(fields))


def main():
    spec = json.load(open(sys.argv[1]))
    import Cython.Compiler.LineTable as LT
    mroot = os.path.realpath(spec['mirror'])
    f = LT.__file__
    if not (f.endswith('.py') and os.path.realpath(f).startswith(mroot)):
        json.dump({'fatal': 'LineTable not loaded from the source mirror: %r' % f}, open(sys.argv[2], 'w'))
        return 3
    rng = random.Random('C44:%s:%s' % (spec['seed'], spec['chunk']))
    res = {'lists': 0, 'positions': 0, 'forms': {}, 'spec_forms': {}, 'keys': {}, 'witnesses': {}, 'distinct': 0,
           'multiline_lists': 0, 'lists_by_len': {}, 'samples': [], 'encoder_errors': 0, 'module_file': f}
    distinct = set()

    def one(positions, first):
        res['lists'] += 1
        res['positions'] += len(positions)
        lb = 'len0' if not positions else 'len1-8' if len(positions) <= 8 else 'len9-64' if len(positions) <= 64 else 'len65+'
        res['lists_by_len'][lb] = res['lists_by_len'].get(lb, 0) + 1
        if any(p[1] > p[0] for p in positions):
            res['multiline_lists'] += 1
        decoded = None
        error = None
        try:
            table = LT.build_line_table(list(positions), first).encode('latin1')
        except Exception as e:      # the encoder's own assert counts as "does not encode this documented input"
            error = '%s: %s' % (type(e).__name__, e)
            res['encoder_errors'] += 1
            table = None
        if table is not None:
            for fm in forms_in(table):
                res['forms'][fm] = res['forms'].get(fm, 0) + 1
            try:
                decoded = decode_with_cpython(table, first, len(positions))
            except Exception as e:
                error = 'DecoderRejected(%s): %s' % (type(e).__name__, e)
        last = first
        for p in positions:
            sf = spec_form(p, last)
            res['spec_forms'][sf] = res['spec_forms'].get(sf, 0) + 1
            last = p[0]
        h = hash((tuple(positions), first))
        if positions and h not in distinct:
            distinct.add(h)
        exp = [tuple(p) for p in positions]
        if error is None and decoded == exp:
            if len(res['samples']) < 2 and 2 <= len(positions) <= 6:
                res['samples'].append({'positions': exp, 'firstlineno': first, 'table_hex': table.hex(),
                                       'cpython_decodes': decoded})
            return
        key = classify(exp, first, decoded, error)
        res['keys'][key] = res['keys'].get(key, 0) + 1
        ws = res['witnesses'].setdefault(key, [])
        if len(ws) < 2 or (len(positions) < min(len(w['positions']) for w in ws)):
            w = {'positions': exp, 'firstlineno': first, 'expected': exp, 'observed': decoded, 'error': error,
                 'table_hex': table.hex() if table is not None else None}
            if len(ws) < 2:
                ws.append(w)
            else:
                ws.sort(key=lambda x: len(x['positions']))
                ws[-1] = w

    for positions, first in spec.get('explicit', []):
        one([tuple(p) for p in positions], first)
    for _ in range(spec['n_lists']):
        positions, first = gen_list(rng, spec['max_len'])
        one(positions, first)
    res['distinct'] = len(distinct)
    json.dump(res, open(sys.argv[2], 'w'))
    return 0


if __name__ == '__main__':
    sys.exit(main())
