"""C25 Compiled functions report faithful names and signatures (DESIGN.md section 5, C25).

vlib.gen.siggen generates `def`s in module, class, nested-class and closure scopes with default expressions of many
shapes (numbers, strings with quotes/escapes/non-ASCII, bytes, containers, names, attribute / subscript / call
references, unary / binary / comparison / boolean / conditional expressions that need parentheses), annotations and
docstrings. Cells: binding=True; embedsignature=True with format python / c; embedsignature clinic with binding=False
(__text_signature__). A probe (driver side, same code for the compiled module and the CPython reference) reports
__name__, __qualname__, __module__, __doc__, inspect.signature (names, kinds, default values), __defaults__,
__kwdefaults__, annotations (as ASTs) and - for the embedsignature cells - the parameter list and default values
obtained by parsing the embedded signature line and evaluating the printed defaults in the module namespace."""
import ast
import os
from concurrent.futures import ThreadPoolExecutor
import re

from vlib import core, cy, diff
from vlib.gen import siggen

SETUP = r'''
import ast as _ast, inspect as _inspect
from vlib.sig import sig as _sig

_KIND = {_inspect.Parameter.POSITIONAL_ONLY: 'po', _inspect.Parameter.POSITIONAL_OR_KEYWORD: 'pk',
         _inspect.Parameter.VAR_POSITIONAL: 'va', _inspect.Parameter.KEYWORD_ONLY: 'ko', _inspect.Parameter.VAR_KEYWORD: 'vk'}

def _get(M, path):
    o = M
    for p in path.split('.'):
        o = getattr(o, p)
    return o

def _dump(text):
    try:
        return _ast.dump(_ast.parse(text.strip(), mode='eval'))
    except Exception as e:
        return 'unparsable: %r' % (text,)

def _real_sig(f, drop_self):
    try:
        s = _inspect.signature(f)
    except Exception as e:
        return 'signature-failed:' + type(e).__name__
    ps = list(s.parameters.values())
    if drop_self and ps and ps[0].name in ('self', 'cls'):
        ps = ps[1:]
    return [[p.name, _KIND[p.kind], '<empty>' if p.default is p.empty else _sig(p.default)] for p in ps]

def _split_top(text, sep=','):
    out, depth, cur, q = [], 0, '', None
    i = 0
    while i < len(text):
        ch = text[i]
        if q:
            cur += ch
            if ch == '\\':
                cur += text[i + 1:i + 2]
                i += 1
            elif text.startswith(q, i):
                cur += q[1:]
                i += len(q) - 1
                q = None
        elif ch in '\'"':
            q = text[i:i + 3] if text[i:i + 3] in ("'" * 3, '"' * 3) else ch
            cur += q
            i += len(q) - 1
        elif ch in '([{':
            depth += 1
            cur += ch
        elif ch in ')]}':
            depth -= 1
            cur += ch
        elif ch == sep and depth == 0:
            out.append(cur)
            cur = ''
        else:
            cur += ch
        i += 1
    if cur.strip():
        out.append(cur)
    return out

def _parse_line(line, M, style):
    """parameter list [[name, kind, default sig]] from an embedded signature line"""
    line = line.strip()
    m = line.find('(')
    if m < 0:
        return 'no-paren'
    body = line[m:]
    if style in ('python', 'clinic'):
        src = 'def f' + body.replace('$self', 'self').replace('$type', 'cls') + ': pass'
        try:
            fn = _ast.parse(src).body[0]
        except SyntaxError:
            return 'unparsable-line'
        a = fn.args
        out = []
        pos = [(x, 'po') for x in a.posonlyargs] + [(x, 'pk') for x in a.args]
        nd = len(a.defaults)
        for j, (x, k) in enumerate(pos):
            d = a.defaults[j - (len(pos) - nd)] if j >= len(pos) - nd else None
            out.append([x.arg, k, d])
        if a.vararg:
            out.append([a.vararg.arg, 'va', None])
        for x, d in zip(a.kwonlyargs, a.kw_defaults):
            out.append([x.arg, 'ko', d])
        if a.kwarg:
            out.append([a.kwarg.arg, 'vk', None])
        res = []
        for n, k, d in out:
            if d is None:
                res.append([n, k, '<empty>'])
            else:
                try:
                    res.append([n, k, _sig(eval(compile(_ast.Expression(d), '<embedded>', 'eval'), dict(vars(M))))])
                except Exception as e:
                    res.append([n, k, 'eval-failed:' + type(e).__name__])
        return res
    # c format: tolerant
    depth = 0
    end = None
    for i, ch in enumerate(body):
        if ch in '([{':
            depth += 1
        elif ch in ')]}':
            depth -= 1
            if depth == 0:
                end = i
                break
    inner = body[1:end]
    res = []
    kind = 'pk'
    items = [p.strip() for p in _split_top(inner)]
    npo = items.index('/') if '/' in items else 0
    for j, p in enumerate(items):
        if p == '/':
            continue
        if p == '*':
            kind = 'ko'
            continue
        if p.startswith('**'):
            res.append([p[2:].split(':')[0].strip().split()[-1], 'vk', '<empty>'])
            continue
        if p.startswith('*'):
            res.append([p[1:].split(':')[0].strip().split()[-1], 'va', '<empty>'])
            kind = 'ko'
            continue
        parts = _split_top(p, '=')
        head = parts[0]
        dflt = '='.join(parts[1:]).strip() if len(parts) > 1 else None
        # '==' inside defaults: re-join
        if dflt is not None and p.count('=') > 1:
            k = p.index('=')
            # find the first top-level '=' that is not part of '==', '<=', '>=', '!='
            depth = 0
            k = None
            for i, ch in enumerate(p):
                if ch in '([{': depth += 1
                elif ch in ')]}': depth -= 1
                elif ch == '=' and depth == 0 and p[i + 1:i + 2] != '=' and p[i - 1:i] not in ('=', '<', '>', '!'):
                    k = i
                    break
            head, dflt = p[:k], p[k + 1:].strip()
        name = head.split(':')[0].strip().split()[-1].lstrip('*')
        k2 = 'po' if j < npo else kind
        if dflt is None:
            res.append([name, k2, '<empty>'])
        else:
            try:
                res.append([name, k2, _sig(eval(dflt, dict(vars(M))))])
            except Exception as e:
                res.append([name, k2, 'eval-failed:' + type(e).__name__])
    return res

def probe(M, path, anns, mode, is_method):
    compiled = (getattr(M, '__file__', '') or '').endswith('.so')
    f = _get(M, path)
    out = []
    out.append(['name', getattr(f, '__name__', '<none>')])
    if not mode.startswith('clinic'):
        # binding=False functions are builtins; the statement is about binding=True
        out.append(['qualname', getattr(f, '__qualname__', '<none>')])
    out.append(['module_ok', getattr(f, '__module__', None) == M.__name__])
    doc = getattr(f, '__doc__', None)
    sigline = None
    if mode in ('plain', 'clinic-closure'):
        out.append(['doc', doc])
    elif mode in ('python', 'c'):
        if compiled:
            sigline = (doc or '').split('\n')[0]
            rest = (doc or '')[len(sigline):]
            rest = rest[2:] if rest.startswith('\n\n') else rest
            out.append(['doc', rest or None])
        else:
            out.append(['doc', _inspect.cleandoc(doc) if doc else None])
    else:
        if compiled:
            ts = getattr(f, '__text_signature__', None)
            if ts:
                sigline = 'f' + ts
            elif doc and '\n--\n\n' in doc:
                # not a type that understands text signatures: the clinic block is still at the top of __doc__
                sigline, doc = doc.split('\n--\n\n', 1)
            out.append(['doc', doc or None])
        else:
            out.append(['doc', (_inspect.cleandoc(doc) or None) if doc else None])
    real = _real_sig(f, False)
    if not mode.startswith('clinic'):
        out.append(['signature', real])
        out.append(['defaults', _sig(getattr(f, '__defaults__', '<none>'))])
        out.append(['kwdefaults', _sig(getattr(f, '__kwdefaults__', '<none>'))])
        have = getattr(f, '__annotations__', None) or {}
        ann = []
        for k, text in sorted(anns.items()):
            if k not in have:
                ann.append([k, 'missing'])
            elif compiled and isinstance(have[k], str):
                ann.append([k, _dump(have[k])])
            else:
                ann.append([k, _dump(text)])
        extra = sorted(set(have) - set(anns))
        out.append(['annotations', ann + [['extra', extra]]])
    if mode not in ('plain', 'clinic-closure'):
        if compiled:
            emb = _parse_line(sigline, M, mode) if sigline else 'no-signature-line'
            if isinstance(emb, list) and emb and emb[0][0] in ('self', 'cls'):
                emb = emb[1:]
        else:
            emb = _real_sig(f, is_method)
        out.append(['embedded', emb])
    return out
'''

HEADER = '# cython: language_level=3\n' + siggen.GLOBALS_SRC

CELLS = {
    'plain': {'binding': True},
    'python': {'binding': True, 'embedsignature': True, 'embedsignature.format': 'python'},
    'c': {'binding': True, 'embedsignature': True, 'embedsignature.format': 'c'},
    'clinic': {'binding': False, 'embedsignature': True, 'embedsignature.format': 'clinic'},
}

PREC = {ast.Or: 1, ast.And: 2, ast.BitOr: 5, ast.BitXor: 6, ast.BitAnd: 7, ast.LShift: 8, ast.RShift: 8, ast.Add: 9, ast.Sub: 9,
        ast.Mult: 10, ast.MatMult: 10, ast.Div: 10, ast.FloorDiv: 10, ast.Mod: 10, ast.Pow: 12}
OPERATORS = (ast.BinOp, ast.UnaryOp, ast.BoolOp, ast.Compare, ast.IfExp)


SIGNATURE_PRIORITY = ['ifexp-as-arith-operand']      # the real default differs (not its printed form)
MECH_PRIORITY = ['in-literal-container', 'neg-const-pow-base', 'one-tuple', 'cmp-chain', 'ifexp-operand', 'ifexp-in-ifexp-head', 'same-prec-right-operand',
                 'postfix-on-operator', 'attribute-of-number', 'low-prec-cmp-operand', 'low-prec-bool-operand', 'cmp-or-bool-as-arith-operand',
                 'not-as-arith-operand', 'pow-left-operand', 'pow-right-unary', 'unary-of-BinOp', 'unary-of-IfExp', 'unary-of-Compare',
                 'unary-of-BoolOp', 'complex', 'ellipsis', 'bytes', 'str-needs-escape', 'non-ascii-str', 'call']


def expr_features(src):
    """structural features of a default expression that decide how it must be parenthesised when re-printed"""
    feats = set()
    try:
        tree = ast.parse(src, mode='eval').body
    except SyntaxError:
        return {'unparsable'}
    for n in ast.walk(tree):
        if isinstance(n, ast.BinOp):
            p = PREC[type(n.op)]
            if isinstance(n.right, ast.BinOp) and PREC[type(n.right.op)] == p and not isinstance(n.op, ast.Pow):
                feats.add('same-prec-right-operand')
            if isinstance(n.op, ast.Pow) and isinstance(n.left, (ast.BinOp, ast.UnaryOp)):
                feats.add('pow-left-operand')
            if isinstance(n.op, ast.Pow) and isinstance(n.left, ast.UnaryOp) and isinstance(n.left.op, (ast.USub, ast.Invert)) and \
                    isinstance(n.left.operand, ast.Constant):
                feats.add('neg-const-pow-base')      # "(-2) ** x": the folded literal -2 is printed without parentheses
            if isinstance(n.op, ast.Pow) and isinstance(n.right, ast.UnaryOp):
                feats.add('pow-right-unary')
            for c in (n.left, n.right):
                if isinstance(c, ast.IfExp):
                    feats.add('ifexp-operand')
                if isinstance(c, (ast.Compare, ast.BoolOp)):
                    feats.add('cmp-or-bool-as-arith-operand')
                if isinstance(c, ast.UnaryOp) and isinstance(c.op, ast.Not):
                    feats.add('not-as-arith-operand')
        if isinstance(n, (ast.BinOp, ast.UnaryOp)) and any(isinstance(c, ast.IfExp) for c in ast.iter_child_nodes(n)):
            feats.add('ifexp-as-arith-operand')
        if isinstance(n, ast.UnaryOp) and isinstance(n.operand, (ast.IfExp, ast.Compare, ast.BoolOp, ast.BinOp)):
            feats.add('unary-of-' + type(n.operand).__name__)
        if isinstance(n, ast.Compare):
            if len(n.ops) > 1:
                feats.add('cmp-chain')
            for c in [n.left] + n.comparators:
                if isinstance(c, (ast.IfExp, ast.Compare, ast.BoolOp)) or (isinstance(c, ast.UnaryOp) and isinstance(c.op, ast.Not)):
                    feats.add('low-prec-cmp-operand')
        if isinstance(n, ast.BoolOp):
            for c in n.values:
                if isinstance(c, ast.IfExp) or (isinstance(c, ast.BoolOp) and isinstance(n.op, ast.And)):
                    feats.add('low-prec-bool-operand')
        if isinstance(n, ast.IfExp) and any(isinstance(c, ast.IfExp) for c in (n.body, n.test)):
            feats.add('ifexp-in-ifexp-head')
        if isinstance(n, (ast.Attribute, ast.Subscript, ast.Call)):
            v = n.value if not isinstance(n, ast.Call) else n.func
            if isinstance(v, OPERATORS):
                feats.add('postfix-on-operator')
            if isinstance(v, ast.Constant) and isinstance(v.value, (int, float)) and isinstance(n, ast.Attribute):
                feats.add('attribute-of-number')
        if isinstance(n, ast.Tuple) and len(n.elts) == 1:
            feats.add('one-tuple')
        if isinstance(n, ast.Compare) and any(isinstance(o, (ast.In, ast.NotIn)) for o in n.ops) and \
                any(isinstance(c, (ast.Tuple, ast.List, ast.Set)) for c in n.comparators):
            feats.add('in-literal-container')
        if isinstance(n, ast.Call):
            feats.add('call')
        if isinstance(n, ast.Constant):
            if isinstance(n.value, str) and not n.value.isascii():
                feats.add('non-ascii-str')
            if isinstance(n.value, str) and any(c in n.value for c in '\'"\\\n\t\0'):
                feats.add('str-needs-escape')
            if isinstance(n.value, bytes):
                feats.add('bytes')
            if isinstance(n.value, complex):
                feats.add('complex')
            if n.value is Ellipsis:
                feats.add('ellipsis')
    return feats or {type(tree).__name__}


def decode(o):
    """driver observation -> {aspect: value signature}"""
    if o[0] != 'ok':
        return {'<exception>': o[1]}
    out = {}
    try:
        for item in o[1][1]:
            out[item[1][0][1].strip("'")] = item[1][1]
    except Exception:
        out['<undecodable>'] = o
    return out


def param_rows(v):
    """['list', [['list', [name, kind, default]], ...]] -> list of (name, kind, default sig)"""
    try:
        return [(r[1][0][1].strip("'"), r[1][1][1].strip("'"), r[1][2]) for r in v[1]]
    except Exception:
        return None


def main(ck):
    tree = cy.Tree('C25')
    rng = ck.rng('gen')
    env = {}
    exec(siggen.GLOBALS_SRC, env)
    eg = siggen.ExprGen(rng, env)
    nfun = ck.pick(420, 6000)
    per_mod = ck.pick(140, 500)
    # the code-object constants are packed into bit fields whose widths are module-wide maxima (parameter counts, variables,
    # line numbers): besides the large modules, small modules of 1-3 functions (half of them with unusually many
    # parameters of one kind) make those maxima vary
    nsmall = ck.pick(60, 400)
    fns = []        # dict(path, scope, info, lines)
    for i in range(nfun + nsmall):
        name = 'fz%dz' % i
        scope = rng.choice(['module', 'module', 'class', 'nested-class', 'closure', 'closure-in-method'])
        depth = rng.choice([2, 3, 3, 4])
        siggen.WIDE = i >= nfun and rng.random() < .5
        if scope == 'module':
            lines, info = siggen.gen_def(rng, eg, name, depth=depth)
            path, is_method = name, False
        elif scope == 'class':
            lines, info = siggen.gen_def(rng, eg, name, indent='    ', first='self', depth=depth)
            lines = ['class Kz%dz:' % i] + lines
            path, is_method = 'Kz%dz.%s' % (i, name), True
        elif scope == 'nested-class':
            if rng.random() < .5:
                lines, info = siggen.gen_def(rng, eg, name, indent='        ', first='self', depth=depth)
                lines = ['class Kz%dz:' % i, '    class Inner:'] + lines
                path, is_method = 'Kz%dz.Inner.%s' % (i, name), True
            else:
                # a method that follows a nested class body (the qualified-name stack must have been restored)
                lines, info = siggen.gen_def(rng, eg, name, indent='        ', first='self', depth=depth)
                lines = ['class Kz%dz:' % i, '    class Inner:', '        class Deeper:', '            x = 1'] + lines
                path, is_method = 'Kz%dz.Inner.%s' % (i, name), True
        elif scope == 'closure':
            lines, info = siggen.gen_def(rng, eg, 'inner_%s' % name, indent='    ', depth=depth)
            lines = ['def mk_%s():' % name] + lines + ['    return inner_%s' % name, '%s = mk_%s()' % (name, name)]
            path, is_method = name, False
        else:
            lines, info = siggen.gen_def(rng, eg, 'inner_%s' % name, indent='        ', depth=depth)
            lines = ['class Kz%dz:' % i, '    def mk(self):'] + lines + ['        return inner_%s' % name,
                                                                       '%s = Kz%dz().mk()' % (name, i)]
            path, is_method = name, False
        fns.append({'name': name, 'path': path, 'scope': scope, 'info': info, 'src': '\n'.join(lines) + '\n',
                    'is_method': is_method})
    siggen.WIDE = False
    small_fns, fns = fns[nfun:], fns[:nfun]
    cells = ['plain', 'python', 'c', 'clinic']
    share = {'plain': 1.0, 'python': 1.0, 'c': ck.pick(0.5, 0.5), 'clinic': ck.pick(0.35, 0.3)}
    jobs, meta = [], []
    for cell in cells:
        d = tree.subdir('b_' + cell)
        sel = fns if share[cell] >= 1 else fns[:int(len(fns) * share[cell])]
        for gi in range(0, len(sel), per_mod):
            chunk = sel[gi:gi + per_mod]
            name = 'c25m%d' % (gi // per_mod)
            path = os.path.join(d, name + '.py')
            with open(path, 'w', encoding='utf-8') as fh:
                fh.write(HEADER + '\n'.join(f['src'] for f in chunk))
            jobs.append({'src': path, 'directives': CELLS[cell]})
            meta.append((cell, name, chunk, path, d))
    d = tree.subdir('b_plain')
    gi = 0
    while gi < len(small_fns):
        chunk = small_fns[gi:gi + rng.choice([1, 1, 2, 3])]
        name = 'c25s%d' % gi
        gi += len(chunk)
        path = os.path.join(d, name + '.py')
        with open(path, 'w', encoding='utf-8') as fh:
            fh.write(HEADER + '\n'.join(f['src'] for f in chunk))
        jobs.append({'src': path, 'directives': CELLS['plain']})
        meta.append(('plain', name, chunk, path, d))
    tres, _ = tree.translate(jobs, nworkers=min(core.NCPU, ck.pick(5, 10)), timeout=ck.pick(1800, 3600))
    skipped = 0
    skipped_functions = 0
    okm = []
    retry = []
    for m, r in zip(meta, tres):
        if r['ok']:
            okm.append(m + (r['c'],))
        else:
            retry.append(m)
            ck.note('translate failure %s/%s (module is split and retried): %s' % (
                m[0], m[1], ((r.get('exc') or '') + (r.get('errors') or ''))[-500:]))
    # a module that the compiler rejects is split into eighths so that one bad function does not hide the others
    for rnd in range(2):
        if not retry:
            break
        jobs2, meta2 = [], []
        for cell, name, chunk, path, d in retry:
            parts = 8 if rnd == 0 else 4
            step = max(1, (len(chunk) + parts - 1) // parts)
            for pi in range(0, len(chunk), step):
                sub = chunk[pi:pi + step]
                n2 = '%s_%d%s' % (name, pi // step, 'ab'[rnd])
                p2 = os.path.join(d, n2 + '.py')
                with open(p2, 'w', encoding='utf-8') as fh:
                    fh.write(HEADER + '\n'.join(f['src'] for f in sub))
                jobs2.append({'src': p2, 'directives': CELLS[cell]})
                meta2.append((cell, n2, sub, p2, d))
        tres2, _ = tree.translate(jobs2, nworkers=min(core.NCPU, ck.pick(5, 10)), timeout=ck.pick(1800, 3600))
        retry = []
        for m, r in zip(meta2, tres2):
            if r['ok']:
                okm.append(m + (r['c'],))
            elif rnd == 0 and len(m[2]) > 4:
                retry.append(m)
            else:
                skipped_functions += len(m[2])
    for m in retry:
        skipped_functions += len(m[2])
    ck.cov['functions_skipped_because_compiler_rejects_them'] = skipped_functions
    ck.inconclusive_if(skipped_functions > 0.1 * sum(len(m[2]) for m in meta), '%d functions could not be compiled' % skipped_functions)
    bres = tree.cbuild_many([m[5] for m in okm], timeout=ck.pick(1800, 3600))
    total_n = total_distinct = 0
    hist = {}
    samples = []
    nparens = {c: 0 for c in cells}
    ndefaults = {c: 0 for c in cells}
    byname = {f['name']: f for f in fns + small_fns}
    small_modules = 0
    prepared = []
    for m, b in zip(okm, bres):
        cell, name, chunk, path, d, cfile = m
        if not b['ok']:
            skipped += 1
            ck.note('C build failure %s/%s: %s' % (cell, name, b['err'][-800:]))
            continue
        cases = []
        for f in chunk:
            anns = {p[0]: p[3] for p in f['info']['params'] if p[3]}
            if f['info']['returns']:
                anns['return'] = f['info']['returns']
            # embedsignature only treats module-level functions and methods ("Python visible functions and classes"):
            # closures keep their docstring and are probed like the plain cell (clinic: the binding=False attributes)
            mode = cell if not f['scope'].startswith('closure') else ('plain' if cell != 'clinic' else 'clinic-closure')
            cases.append({'x': 'probe(M, %r, %r, %r, %r)' % (f['path'], anns, mode, f['is_method']), 't': '%s/%s' % (cell, f['scope']),
                          'fn': f['name']})
            nparens[cell] += f['info']['nparens']
            ndefaults[cell] += sum(1 for p in f['info']['params'] if p[2] is not None)
        idx = {c['x']: c['fn'] for c in cases}
        run = [{k: v for k, v in c.items() if k != 'fn'} for c in cases]
        small_modules += name.startswith('c25s')
        prepared.append((m, idx, run))

    def run_one(pr):
        (cell, name, chunk, path, d, cfile), idx, run = pr
        return diff.run_cases(tree, d, name, run, ref=path, compare={'exc_args': False, 'log': False}, setup=SETUP,
                              tagdir='run_%s_%s' % (cell, name), timeout=ck.pick(900, 1800),
                              nproc=1 if name.startswith('c25s') else ck.pick(2, 4))
    with ThreadPoolExecutor(ck.pick(5, 6)) as ex:
        results = list(ex.map(run_one, prepared))
    for (m, idx, run), res in zip(prepared, results):
        cell, name, chunk, path, d, cfile = m
        total_n += res.n
        total_distinct += res.distinct
        samples.extend(res.samples[:1])
        for k, v in res.hist.items():
            hist[k] = hist.get(k, 0) + v
        for mm in res.mismatches:
            f = byname[idx[mm['case']['x']]]
            e, g = decode(mm['exp']), decode(mm['got'])
            w = {'ext': '.py', 'directives': CELLS[cell], 'case': mm['case'], 'module_source': HEADER + f['src'], 'setup': SETUP,
                 'cell': cell}
            for aspect in sorted(set(e) | set(g)):
                if e.get(aspect) == g.get(aspect):
                    continue
                if aspect in ('defaults', 'kwdefaults') and e.get('signature') != g.get('signature'):
                    continue        # same cause as the differing signature rows
                detail = ''
                what = '%s: CPython %s, compiled %s' % (aspect, e.get(aspect), g.get(aspect))
                if aspect in ('signature', 'embedded'):
                    re_, rg = param_rows(e.get(aspect)), param_rows(g.get(aspect))
                    if re_ is None or rg is None:
                        detail = 'unavailable:%s' % (str(g.get(aspect))[:40].replace(':', '_'))
                    elif [r[0] for r in re_] != [r[0] for r in rg]:
                        detail = 'names'
                    elif [r[1] for r in re_] != [r[1] for r in rg]:
                        detail = 'kinds'
                    else:
                        feats = set()
                        srcs = []
                        for (n1, k1, d1), (n2, k2, d2) in zip(re_, rg):
                            if d1 != d2:
                                src = next((p[2] for p in f['info']['params'] if p[0] == n1), None)
                                srcs.append((src, d1, d2))
                                tag = 'eval-failed' if str(d2).startswith("['str', \"'eval-failed") or 'eval-failed' in str(d2) else 'value'
                                feats |= {tag + ':' + x for x in expr_features(src or '')}
                        # one mechanism per key: the first feature of the priority list that is present
                        plain = {x.split(':', 1)[1] for x in feats}
                        tag = 'eval-failed' if any(x.startswith('eval-failed') for x in feats) else 'value'
                        prio = (SIGNATURE_PRIORITY if aspect == 'signature' else []) + MECH_PRIORITY
                        mech = next((m for m in prio if m in plain), '+'.join(sorted(plain)))
                        detail = 'default:%s:%s' % (tag, mech)
                        what = '%s defaults differ: %s' % (aspect, srcs)
                elif aspect == 'doc':
                    detail = 'has-doc' if f['info']['doc'] else 'no-doc'
                elif aspect == 'annotations':
                    detail = 'x'
                key = 'sig:%s:%s:%s:%s' % (cell, f['scope'] if aspect in ('qualname', 'name', 'module_ok') else '-', aspect, detail)
                ck.discrepancy(key, '%s [%s, %s] %s\n%s' % (f['path'], cell, f['scope'], what, f['src']),
                               dict(w, expected=e.get(aspect), observed=g.get(aspect), aspect=aspect))
        for c in res.crashes:
            f = byname[idx[c['case']['x']]]
            ck.discrepancy('sig:crash:%s:%s' % (cell, f['scope']), 'crash/hang %s probing %s\n%s' % (c['kind'], f['path'], c['stderr'][-300:]),
                           {'ext': '.py', 'directives': CELLS[cell], 'case': c['case'], 'module_source': HEADER + f['src'], 'setup': SETUP})
        for ft in res.fatal:
            ck.inconclusive_if(True, 'driver failed for %s/%s: %s' % (cell, name, str(ft)[-400:]))
    cell_counts = {}
    for k, v in hist.items():
        cell_counts[k.split('|')[0]] = cell_counts.get(k.split('|')[0], 0) + v
    ck.inconclusive_if(nparens['python'] < 50, 'only %d printed defaults needed parentheses (floor 50)' % nparens['python'])
    for cell in cells:
        ck.inconclusive_if(not any(k.startswith(cell + '/') for k in cell_counts), 'cell %s observed no function' % cell)
    ck.inconclusive_if(skipped > 0.2 * len(jobs), '%d of %d modules failed to build' % (skipped, len(jobs)))
    ck.cov['skipped_build_failure'] = skipped
    ck.cov['small_modules_observed'] = small_modules
    ck.inconclusive_if(small_modules < 10, 'fewer than 10 small modules were observed')
    return ck.finish(
        total_n, total_distinct,
        'generated def statements (module / class / nested class / closure / closure in method scopes; positional-only, '
        'defaults, *args, keyword-only, **kwds; default expressions of depth <= 4 normalised to minimal parentheses; '
        'annotations; docstrings) probed in four build cells; every probe is compared with the same probe of the CPython '
        'function. distinct = distinct (probe expression, CPython outcome); each function is a distinct program, non-trivial in '
        'that it has at least a name/qualname/signature to report (functions with defaults and with parenthesised defaults '
        'are counted separately)',
        samples,
        extra={'functions': len(fns), 'scopes': {s: sum(1 for f in fns if f['scope'] == s) for s in sorted({f['scope'] for f in fns})},
               'probes_by_cell_and_scope': dict(sorted(cell_counts.items())), 'defaults_probed_by_cell': ndefaults,
               'defaults_needing_parentheses_by_cell': nparens,
               'default_feature_hist': _feature_hist(fns)},
        assumptions=['CPython 3.12.1 executing the same source is the reference', 'annotations are compared as ASTs; __code__ internals are not compared',
                     'embedsignature docstrings are compared after inspect.cleandoc (the transform cleans them by design)',
                     'clinic format is probed through __text_signature__ with binding=False (with binding=True it embeds nothing by design)'])


def _feature_hist(fns):
    h = {}
    for f in fns:
        for p in f['info']['params']:
            if p[2] is not None:
                for x in expr_features(p[2]):
                    h[x] = h.get(x, 0) + 1
    return dict(sorted(h.items(), key=lambda kv: -kv[1]))


def replay(ck, data):
    w = data.get('witness', data)
    tree = cy.Tree('replay')
    d, info = tree.build_sources({'replaymod': w['module_source']}, subdir='r', ext='.py', directives=w.get('directives'))
    inf = info['replaymod']
    if not inf['ok']:
        print('build failed at', inf['stage'], inf['errors'][-2000:])
        return 2
    res = diff.run_cases(tree, d, 'replaymod', [w['case']], ref=inf['src'], compare={'exc_args': False, 'log': False}, setup=SETUP, nproc=1)
    for m in res.mismatches:
        e, g = decode(m['exp']), decode(m['got'])
        for a in sorted(set(e) | set(g)):
            if e.get(a) != g.get(a):
                print(a, '\n  expected', e.get(a), '\n  observed', g.get(a))
    if res.mismatches or res.crashes:
        print('VIOLATION property=%s replay=<replayed>' % ck.pid)
        return 1
    print('replay: case now agrees with the reference (%d evaluated, fatal=%s)' % (res.n, res.fatal))
    return 0
