"""C29 Automatic pickling of extension types round-trips (DESIGN.md section 5, C29).

Part 1 (round trip): generated cdef classes (inheritance depth <= 2, C numeric / bint / object / str / bytes / list / dict /
tuple / nested cdef-class attributes, optional `cdef dict __dict__`, Python subclasses adding instance attributes) are
pickled with every protocol and copied with copy.copy / copy.deepcopy (shared sub-objects and cycles).  Reference = the
same classes rendered as plain Python classes, driven by the same expression; in addition the helper itself reports
whether the copy's state equals the original's.  Non-picklable types (pointer attribute, __cinit__ with arguments, struct
attribute without conversion) must raise TypeError on dumps (reference rendering raises TypeError from __reduce_ex__).
Part 2 (layout change): every layout class exists in two module variants with the same module and class name; data pickled
by variant 1 in one subprocess is unpickled by variant 2 in another (own driver, props/C29_worker.py).
"""
import json
import os
import re
import time
from concurrent.futures import ThreadPoolExecutor

from vlib import core, cy, diff

CTYPES = {
    # name: (declaration, reference default, value expressions inside the type)
    'int': ('int', '0', ['0', '1', '-7', '2147483647', '-2147483648']),
    'long': ('long', '0', ['0', '5', '-9', '2**62', '-(2**63)']),
    'uint': ('unsigned int', '0', ['0', '3', '4294967295']),
    'short': ('short', '0', ['0', '-3', '32767']),
    'longlong': ('long long', '0', ['0', '2**63 - 1', '-5']),
    'ssize': ('Py_ssize_t', '0', ['0', '12', '-1']),
    'double': ('double', '0.0', ['0.0', '1.5', '-2.25', '1e300', '-0.0', "float('inf')"]),
    'float': ('float', '0.0', ['0.0', '0.5', '-1.25', '1024.0']),
    'bint': ('bint', 'False', ['True', 'False']),
    'char': ('char', '0', ['0', '65', '-128', '127']),
}
PYTYPES = {
    'object': ('object', 'None', ['None', '1', "'s'", '(1, 2)', '[1, [2]]', "{'k': (1, 2)}", '2.5', "b'b'", 'frozenset({1})']),
    'str': ('str', 'None', ['None', "''", "'abc'", "'\\u20ac\\U0001f600'"]),
    'bytes': ('bytes', 'None', ['None', "b''", "b'\\x00\\xff'"]),
    'list': ('list', 'None', ['None', '[]', '[1, 2]', "[[1], 'x']"]),
    'dict': ('dict', 'None', ['None', '{}', "{'a': 1, 2: [3]}"]),
    'tuple': ('tuple', 'None', ['None', '()', '(1, (2, 3))']),
}
ALLTYPES = dict(CTYPES)
ALLTYPES.update(PYTYPES)


def gen_class(rng, name, base=None, picklable_peers=()):
    kind = 'plain'
    attrs = []
    n = rng.randint(0 if base else 1, 5)
    used = {a['name'] for a in (base['all_attrs'] if base else [])}
    for i in range(n):
        an = rng.choice(['a', 'b', 'c', 'x', 'y', 'z', 'val', 'data']) + str(i)
        while an in used:
            an += '_'
        used.add(an)
        r = rng.random()
        if picklable_peers and r < 0.12:
            attrs.append({'name': an, 'type': 'peer', 'peer': rng.choice(picklable_peers)})
        else:
            attrs.append({'name': an, 'type': rng.choice(list(ALLTYPES))})
    has_dict = rng.random() < 0.35 and not (base and base['has_dict'])
    return {'name': name, 'base': base['name'] if base else None, 'attrs': attrs,
            'all_attrs': (base['all_attrs'] if base else []) + attrs, 'has_dict': has_dict or bool(base and base['has_dict']),
            'own_dict': has_dict, 'kind': kind}


def render_class(c, pyx, unpicklable=None):
    out = []
    if pyx:
        out.append('cdef class %s%s:' % (c['name'], '(%s)' % c['base'] if c['base'] else ''))
        for a in c['attrs']:
            decl = ALLTYPES[a['type']][0] if a['type'] != 'peer' else a['peer']
            out.append('    cdef public %s %s' % (decl, a['name']))
        if c['own_dict']:
            out.append('    cdef dict __dict__')
        if unpicklable == 'pointer':
            out.append('    cdef void* ptr')
        elif unpicklable == 'cinit':
            out.append('    def __cinit__(self, *args):\n        pass')
        elif unpicklable == 'struct':
            out.append('    cdef S_%s st' % c['name'])
    else:
        out.append('class %s%s:' % (c['name'], '(%s)' % c['base'] if c['base'] else ''))
        slots = [a['name'] for a in c['attrs']] + (['__dict__'] if c['own_dict'] else [])
        out.append('    __slots__ = %r' % (tuple(slots),))
        # C attributes start zero-initialised, object attributes as None
        out.append('    def __init__(self):')
        if c['base']:
            out.append('        %s.__init__(self)' % c['base'])
        for a in c['attrs']:
            dflt = ALLTYPES[a['type']][1] if a['type'] != 'peer' else 'None'
            out.append('        self.%s = %s' % (a['name'], dflt))
        if not c['attrs'] and not c['base']:
            out.append('        pass')
        if unpicklable:
            out.append('    def __reduce_ex__(self, proto):\n        raise TypeError("not picklable")')
        elif not c['base']:
            # CPython refuses protocol 0/1 for classes with __slots__ unless they define __getstate__ themselves;
            # the reference only needs to be picklable, so it forwards to the default implementation
            out.append('    def __getstate__(self):\n        return object.__getstate__(self)')
    names = [a['name'] for a in c['all_attrs']]
    out.append('    def _st(self):')
    out.append('        return (%s)' % ''.join('self.%s, ' % n for n in names))
    out.append('    def _set(self, t):')
    if names:
        out.append('        %s = t' % ''.join('self.%s, ' % n for n in names))
    else:
        out.append('        pass')
    return '\n'.join(out) + '\n'


SETUP = r'''
import pickle, copy

class _Sub:
    pass

def _pysub(M, cls):
    ns = M.__dict__.setdefault('_c29sub', {})
    if cls not in ns:
        B = getattr(M, cls)
        # must be importable by name for pickle: register in the module
        S = type('Py_' + cls, (B,), {'__module__': M.__name__})
        setattr(M, 'Py_' + cls, S)
        ns[cls] = S
    return ns[cls]

def _build(M, cls, vals, peers, pysub, extra):
    C = _pysub(M, cls) if pysub else getattr(M, cls)
    o = C()
    t = []
    for v in vals:
        if isinstance(v, tuple) and v and v[0] == '<peer>':
            t.append(_build(M, v[1], v[2], {}, False, None) if v[2] is not None else None)
        else:
            t.append(v)
    o._set(tuple(t))
    if extra:
        for k, v in extra.items():
            setattr(o, k, v)
    return o

def _view(o, depth=0):
    if o is None or depth > 3:
        return None
    st = []
    for v in o._st():
        st.append(_view(v, depth + 1) if hasattr(v, '_st') else v)
    d = getattr(o, '__dict__', None)
    return (type(o).__name__, tuple(st), dict(d) if d else None)

def roundtrip(M, cls, vals, how, pysub=False, extra=None):
    o = _build(M, cls, vals, {}, pysub, extra)
    if how == 'copy':
        c = copy.copy(o)
    elif how == 'deepcopy':
        c = copy.deepcopy(o)
    else:
        c = pickle.loads(pickle.dumps(o, how))
    return (_view(c) == _view(o), type(c) is type(o), c is not o, _view(c))

def dumps_outcome(M, cls, proto):
    o = getattr(M, cls)()
    try:
        pickle.dumps(o, proto)
        return 'pickled'
    except Exception as e:
        return type(e).__name__

def copy_outcome(M, cls):
    o = getattr(M, cls)()
    try:
        copy.copy(o)
        return 'copied'
    except Exception as e:
        return type(e).__name__
'''


def gen_values(rng, c, classes):
    vals = []
    for a in c['all_attrs']:
        if a['type'] == 'peer':
            p = classes[a['peer']]
            if rng.random() < 0.3:
                vals.append("('<peer>', %r, None)" % a['peer'])
            else:
                vals.append("('<peer>', %r, (%s))" % (a['peer'], ''.join(v + ', ' for v in gen_values(rng, p, classes))))
        else:
            vals.append(rng.choice(ALLTYPES[a['type']][2]))
    return vals


# ------------------------------------------------------------------------------------------ layout pairs
LAYOUT_KINDS = ['add', 'remove', 'rename', 'add', 'remove', 'rename', 'add', 'reorder', 'to-base', 'retype']


def gen_layout_pair(rng, idx):
    name = 'L%d' % idx
    kind = LAYOUT_KINDS[idx % len(LAYOUT_KINDS)]
    n = rng.randint(2, 5)
    types = [rng.choice(['int', 'long', 'double', 'object', 'str', 'list', 'bint']) for _ in range(n)]
    attrs = [{'name': '%s%d' % (rng.choice('abcxyz'), i), 'type': t} for i, t in enumerate(types)]
    v1 = {'name': name, 'attrs': [dict(a) for a in attrs], 'base_attrs': []}
    v2 = {'name': name, 'attrs': [dict(a) for a in attrs], 'base_attrs': []}
    if kind == 'add':
        pos = rng.randint(0, n)
        v2['attrs'].insert(pos, {'name': '%snew' % rng.choice('amz'), 'type': rng.choice(types)})
    elif kind == 'remove':
        v2['attrs'].pop(rng.randrange(n))
    elif kind == 'rename':
        i = rng.randrange(n)
        v2['attrs'][i]['name'] = v2['attrs'][i]['name'] + 'r'
    elif kind == 'reorder':
        rng.shuffle(v2['attrs'])
        if [a['name'] for a in v2['attrs']] == [a['name'] for a in v1['attrs']]:
            v2['attrs'].reverse()
    elif kind == 'to-base':
        k = rng.randint(1, n - 1)
        moved = rng.sample(v2['attrs'], k)
        v2['base_attrs'] = moved
        v2['attrs'] = [a for a in v2['attrs'] if a not in moved]
    elif kind == 'retype':
        i = rng.randrange(n)
        old = v2['attrs'][i]['type']
        new = rng.choice([t for t in ['int', 'double', 'object', 'str', 'long'] if t != old])
        v2['attrs'][i]['type'] = new
    vals = {a['name']: rng.choice(ALLTYPES[a['type']][2]) for a in attrs}
    return {'name': name, 'kind': kind, 'v1': v1, 'v2': v2, 'values': vals}


def render_layout(v):
    out = []
    base = ''
    if v['base_attrs']:
        out.append('cdef class %s_base:' % v['name'])
        for a in v['base_attrs']:
            out.append('    cdef public %s %s' % (ALLTYPES[a['type']][0], a['name']))
        out.append('')
        base = '(%s_base)' % v['name']
    out.append('cdef class %s%s:' % (v['name'], base))
    for a in v['attrs']:
        out.append('    cdef public %s %s' % (ALLTYPES[a['type']][0], a['name']))
    if not v['attrs']:
        out.append('    pass')
    names = [a['name'] for a in v['base_attrs'] + v['attrs']]
    out.append('    def _std(self):')
    out.append('        return {%s}' % ', '.join('%r: self.%s' % (n, n) for n in names))
    return '\n'.join(out) + '\n'


def main(ck):
    tree = cy.Tree('C29')
    ncls = ck.pick(60, 300)
    per_mod = ck.pick(15, 40)
    nvals = ck.pick(4, 6)
    npairs = ck.pick(40, 200)
    # ------------------------------------------------------------------ part 1: classes
    groups = []
    classes = {}
    cur = []
    i = 0
    while len(classes) < ncls:
        rng = ck.rng('cls%d' % i)
        i += 1
        peers = [c['name'] for c in cur if not c.get('unpicklable')][-6:]
        c = gen_class(rng, 'K%d' % len(classes), picklable_peers=peers)
        classes[c['name']] = c
        cur.append(c)
        if rng.random() < 0.4:
            d = gen_class(rng, 'K%d' % len(classes), base=c, picklable_peers=peers)
            classes[d['name']] = d
            cur.append(d)
        if rng.random() < 0.12:
            u = gen_class(rng, 'K%d' % len(classes))
            u['unpicklable'] = rng.choice(['pointer', 'cinit', 'struct'])
            classes[u['name']] = u
            cur.append(u)
        if len(cur) >= per_mod:
            groups.append(cur)
            cur = []
    if cur:
        groups.append(cur)
    mods = {}
    refs = {}
    modclasses = {}
    for gi, g in enumerate(groups):
        name = 'c29m%d' % gi
        pre = ''.join('cdef struct S_%s:\n    int q\n    double r\n\n' % c['name'] for c in g if c.get('unpicklable') == 'struct')
        mods[name] = pre + '\n'.join(render_class(c, True, c.get('unpicklable')) for c in g)
        refs[name] = '\n'.join(render_class(c, False, c.get('unpicklable')) for c in g)
        modclasses[name] = g
    # ------------------------------------------------------------------ part 2: layout pairs (two variants of one module)
    pairs = [gen_layout_pair(ck.rng('lay%d' % k), k) for k in range(npairs)]
    lay_v1 = '\n'.join(render_layout(p['v1']) for p in pairs)
    lay_v2 = '\n'.join(render_layout(p['v2']) for p in pairs)
    t0 = time.time()

    def b1():
        return tree.build_sources(mods, subdir='b', ext='.pyx')

    def b2():
        return tree.build_sources({'c29lay': lay_v1}, subdir='lay1', ext='.pyx')

    def b3():
        return tree.build_sources({'c29lay': lay_v2}, subdir='lay2', ext='.pyx')
    with ThreadPoolExecutor(3) as ex:
        f1, f2, f3 = ex.submit(b1), ex.submit(b2), ex.submit(b3)
        (d, info), (d1, info1), (d2, info2) = f1.result(), f2.result(), f3.result()
    ck.cov['build_s'] = round(time.time() - t0, 1)
    skipped = 0
    jobs = []
    static = {'reduce_cython': 0, 'unpickle_functions': 0}
    for name, inf in info.items():
        if not inf['ok']:
            skipped += 1
            ck.note('build failure %s at %s: %s' % (name, inf['stage'], inf['errors'][-500:]))
            continue
        ctext = open(inf['c'], encoding='utf-8', errors='replace').read()
        static['reduce_cython'] += len(re.findall(r'__reduce_cython__\(', ctext))
        static['unpickle_functions'] += len(set(re.findall(r'__pyx_unpickle_\w+', ctext)))
        refpath = inf['src'] + '.ref.py'
        with open(refpath, 'w') as f:
            f.write(refs[name])
        cases = []
        for c in modclasses[name]:
            rng = ck.rng('ops:' + c['name'])
            if c.get('unpicklable'):
                for proto in range(6):
                    cases.append({'x': 'dumps_outcome(M, %r, %d)' % (c['name'], proto), 't': 'unpicklable/' + c['unpicklable'],
                                  '_c': c['name']})
                cases.append({'x': 'copy_outcome(M, %r)' % c['name'], 't': 'unpicklable/' + c['unpicklable'], '_c': c['name']})
                continue
            for vi in range(nvals):
                vals = '(%s)' % ''.join(v + ', ' for v in gen_values(rng, c, classes))
                hows = [0, 1, 2, 3, 4, 5, "'copy'", "'deepcopy'"]
                pysub = rng.random() < 0.3
                extra = None
                if (c['has_dict'] or pysub) and rng.random() < 0.7:
                    extra = "{'e1': %s, 'e2': [1, 2]}" % rng.choice(['1', "'x'", 'None', '(1,)'])
                for how in hows:
                    cases.append({'x': 'roundtrip(M, %r, %s, %s, pysub=%r, extra=%s)' % (c['name'], vals, how, pysub, extra),
                                  't': 'roundtrip/%s%s%s' % (how, '/pysub' if pysub else '', '/dict' if extra else ''),
                                  '_c': c['name']})
            # cycles through an object-typed attribute
            objslots = [k for k, a in enumerate(c['all_attrs']) if a['type'] in ('object', 'list')]
            if objslots:
                vals = '(%s)' % ''.join(v + ', ' for v in gen_values(rng, c, classes))
                for how in (2, 5, "'deepcopy'"):
                    cases.append({'x': 'roundtrip_cycle(M, %r, %s, %s, %d)' % (c['name'], vals, how, objslots[0]),
                                  't': 'cycle/%s' % how, '_c': c['name']})
        jobs.append((name, inf, refpath, cases))
    setup = SETUP + r'''
def roundtrip_cycle(M, cls, vals, how, slot):
    o = _build(M, cls, vals, {}, False, None)
    st = list(o._st())
    st[slot] = [o, 'cyc']
    o._set(tuple(st))
    c = copy.deepcopy(o) if how == 'deepcopy' else pickle.loads(pickle.dumps(o, how))
    inner = c._st()[slot]
    return ('cycle', inner[0] is c, inner[1], type(c) is type(o), c is not o)
'''

    def run_one(job):
        name, inf, refpath, cases = job
        return diff.run_cases(tree, d, name, cases, ref=refpath, compare={'exc_args': False, 'log': False},
                              setup=setup, tagdir='run_' + name, timeout=900, nproc=2)

    t0 = time.time()
    with ThreadPoolExecutor(8) as ex:
        results = list(ex.map(run_one, jobs))
    total_n = total_distinct = 0
    samples = []
    hist = {}
    self_inconsistent = 0
    for (name, inf, refpath, cases), res in zip(jobs, results):
        total_n += res.n
        total_distinct += res.distinct
        samples.extend(res.samples[:1])
        for k, v in res.hist.items():
            hist[k] = hist.get(k, 0) + v
        for m in res.mismatches:
            c = classes[m['case']['_c']]
            tag = m['case']['t']
            eo = 'exc:' + m['exp'][1] if m['exp'][0] == 'exc' else 'ok'
            go = 'exc:' + m['got'][1] if m['got'][0] == 'exc' else 'ok'
            types = sorted({a['type'] for a in c['all_attrs']})
            if tag.startswith('unpicklable'):
                key = '%s:%s->%s' % (tag, m['exp'][1][1] if eo == 'ok' else eo, m['got'][1][1] if go == 'ok' else go)
            else:
                how = tag.split('/')[1]
                how = 'pickle' if how.isdigit() else how
                key = '%s:%s:%s->%s:%s%s' % (tag.split('/')[0], how, eo, go, 'pysub' if '/pysub' in tag else 'cdef',
                                             '+dict' if '/dict' in tag else '')
            chain = []
            x = c
            while x:
                chain.insert(0, x)
                x = classes.get(x['base']) if x['base'] else None
            peers = []
            for a in c['all_attrs']:
                if a['type'] == 'peer':
                    pc = classes[a['peer']]
                    while pc:
                        if pc not in peers and pc not in chain:
                            peers.insert(0, pc)
                        pc = classes.get(pc['base']) if pc['base'] else None
            ordered = sorted({id(q): q for q in peers + chain}.values(), key=lambda q: int(q['name'][1:]))
            pre = ''.join('cdef struct S_%s:\n    int q\n    double r\n\n' % q['name'] for q in ordered if q.get('unpicklable') == 'struct')
            ck.discrepancy(key, '%s: %s: Python classes %s, cdef classes %s' % (render_class(c, True, c.get('unpicklable')).replace('\n', ' | ')[:300],
                                                                              m['case']['x'][:300], str(m['exp'])[:300], str(m['got'])[:300]),
                           {'module_source': pre + '\n'.join(render_class(q, True, q.get('unpicklable')) for q in ordered),
                            'ref_source': '\n'.join(render_class(q, False, q.get('unpicklable')) for q in ordered), 'ext': '.pyx',
                            'case': m['case'], 'setup': setup, 'compare': {'exc_args': False, 'log': False},
                            'expected': m['exp'], 'observed': m['got']})
        for cr in res.crashes:
            ck.discrepancy('crash:%s' % cr['case']['t'].split('/')[0], 'crash/hang %s on %s' % (cr['kind'], cr['case']['x'][:300]),
                           {'case': cr['case'], 'stderr': cr['stderr']})
        for ft in res.fatal:
            ck.inconclusive_if(True, 'driver failed for %s: %s' % (name, str(ft)[-600:]))
    ck.cov['run_s'] = round(time.time() - t0, 1)
    # ------------------------------------------------------------------ part 2: cross-variant unpickling
    lay = {'pairs': len(pairs), 'by_kind': {}, 'checksum_differs': 0, 'outcomes': {}}
    ok1, ok2 = info1['c29lay']['ok'], info2['c29lay']['ok']
    ck.inconclusive_if(not (ok1 and ok2), 'layout modules failed to build: %s %s' % (
        info1['c29lay']['errors'][-300:] if not ok1 else '', info2['c29lay']['errors'][-300:] if not ok2 else ''))
    layout_evals = 0
    if ok1 and ok2:
        spec = {'pairs': [{'name': p['name'], 'values': p['values'], 'names1': [a['name'] for a in p['v1']['attrs']]} for p in pairs],
                'protocols': [0, 2, 5] if ck.quick else [0, 1, 2, 3, 4, 5]}
        sf = os.path.join(tree.work, 'lay_spec.json')
        core.write_json(sf, spec)
        pk = os.path.join(tree.work, 'lay_pickles.json')
        out = os.path.join(tree.work, 'lay_out.json')
        r1 = core.run([core.PY, '-m', 'props.C29_worker', 'dump', sf, pk], env=tree.env(d1), timeout=600)
        r2 = core.run([core.PY, '-m', 'props.C29_worker', 'load', pk, out], env=tree.env(d2), timeout=600)
        if r1.rc != 0 or r2.rc != 0 or not os.path.exists(out):
            ck.inconclusive_if(True, 'layout worker failed: rc=%s/%s %s %s' % (r1.rc, r2.rc, (r1.err or '')[-300:], (r2.err or '')[-300:]))
        else:
            res = core.read_json(out)
            for p in pairs:
                names1 = sorted(a['name'] for a in p['v1']['attrs'] + p['v1']['base_attrs'])
                names2 = sorted(a['name'] for a in p['v2']['attrs'] + p['v2']['base_attrs'])
                differs = names1 != names2
                lay['by_kind'][p['kind']] = lay['by_kind'].get(p['kind'], 0) + 1
                lay['checksum_differs'] += differs
                for proto, o in res[p['name']].items():
                    layout_evals += 1
                    if o['outcome'] == 'raised':
                        oc = 'raised:' + ('PickleError-family' if o['pickle_error'] else o['exc'])
                    else:
                        same = all(o['state'].get(k) == v for k, v in o['original'].items())
                        oc = 'loaded:' + ('values-equal-by-name' if same else 'values-differ')
                    lay['outcomes'][p['kind'] + ':' + oc] = lay['outcomes'].get(p['kind'] + ':' + oc, 0) + 1
                    bad = None
                    if differs and not oc.startswith('raised'):
                        bad = 'layout-change:%s:member-names-differ:loaded-without-error' % p['kind']
                    elif not differs and oc == 'loaded:values-differ':
                        bad = 'layout-change:%s:same-member-names:values-differ-after-load' % p['kind']
                    elif not differs and oc.startswith('raised') and p['kind'] != 'retype':
                        bad = 'layout-change:%s:same-member-names:%s' % (p['kind'], oc)
                    if bad:
                        ck.discrepancy(bad, 'pair %s (%s) protocol %s: v1 %s | v2 %s | values %s -> %s' % (
                            p['name'], p['kind'], proto, render_layout(p['v1']).replace('\n', ' | ')[:250],
                            render_layout(p['v2']).replace('\n', ' | ')[:250], p['values'], o),
                            {'v1_source': render_layout(p['v1']), 'v2_source': render_layout(p['v2']), 'values': p['values'],
                             'protocol': proto, 'observed': o, 'kind': p['kind']})
    total_n += layout_evals
    frac = lay['checksum_differs'] / max(1, len(pairs))
    lay['checksum_differs_fraction'] = round(frac, 3)
    ck.inconclusive_if(skipped > 0, '%d class module(s) failed to build' % skipped)
    ck.inconclusive_if(static['reduce_cython'] == 0 or static['unpickle_functions'] == 0, 'no generated pickle support in the C code')
    ck.inconclusive_if(frac < 0.7, 'fewer than 70%% of layout pairs change the checksum (%.2f)' % frac)
    ck.inconclusive_if(layout_evals == 0, 'no layout pair evaluated')
    return ck.finish(
        total_n, total_distinct + len(pairs),
        'part 1: one case = (generated class, attribute values inside the declared types, protocol 0-5 / copy / deepcopy, '
        'optionally a Python subclass instance with extra __dict__ entries or a reference cycle); the helper reports state '
        'equality, type identity and the copy\'s state, compared with the Python-class rendering. part 2: one evaluation = '
        '(layout pair, protocol): pickle written by variant 1, read by variant 2 in another process',
        samples,
        extra={'classes': len(classes), 'unpicklable_classes': sum(1 for c in classes.values() if c.get('unpicklable')),
               'modules': len(mods), 'static_reach': static, 'layout': lay,
               'case_hist': {k: v for k, v in sorted(hist.items(), key=lambda kv: -kv[1])[:40]}},
        assumptions=['CPython 3.12.1 pickle/copy on plain Python classes with the same attributes is the reference for part 1',
                     'attribute values are drawn inside the declared C / builtin type',
                     'the layout checksum covers member names only (by design); retyped members with unchanged names are '
                     'reported when the loaded values differ, except where the new C type cannot represent the value'])


def replay(ck, data):
    w = data.get('witness', data)
    if 'v1_source' in w:
        print('layout pair witness (re-run the check to re-evaluate):')
        print(json.dumps(w, indent=1)[:3000])
        return 2
    tree = cy.Tree('replay')
    d, info = tree.build_sources({'c29m': w['module_source']}, subdir='r', ext='.pyx')
    inf = info['c29m']
    if not inf['ok']:
        print('build failed at', inf['stage'], inf['errors'][-2000:])
        return 2
    refpath = inf['src'] + '.ref.py'
    open(refpath, 'w').write(w['ref_source'])
    res = diff.run_cases(tree, d, 'c29m', [w['case']], ref=refpath, compare=w.get('compare'), setup=w['setup'], nproc=1)
    for m in res.mismatches:
        print('expected', m['exp'])
        print('observed', m['got'])
    if res.mismatches or res.crashes:
        print('VIOLATION property=%s replay=<replayed>' % ck.pid)
        return 1
    print('replay: case now agrees with the reference (%d evaluated, fatal=%s)' % (res.n, res.fatal))
    return 0 if res.n else 2
